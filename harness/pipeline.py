"""The one pipeline every check runs (DESIGN.md section 2.1).

  1. regenerate lean/RpycModel/Gen/*.lean from /repo's working tree
  2. re-check the proofs (lake build of the property's theorem module + driver), audit axioms, grep
  3. correspondence: model (compiled Lean driver) vs. implementation on the same cases
  4. if 2 or 3 failed: search for a concrete failing input with the property's direct oracle
  5. known findings
  6. evidence

A property module (harness/props/cXX.py) provides a class with:
  ID, LEAN_MODULE, TRUSTED (list of str: modelled-not-verified), ASSUMPTIONS
  correspondence(ctx) -> Corr          model vs implementation
  oracle_search(ctx, corr, broken) -> (case, observed) or None     direct oracle on the real code only
  replay(case) -> dict                 re-run one case on implementation (and model)
  known_probes(ctx) -> list of (signature, reproduces: bool, text)   optional
"""
import fcntl
import json
import os
import re
import subprocess
import sys
import time

HERE = os.path.dirname(os.path.abspath(__file__))
VERIF = os.path.normpath(os.path.join(HERE, ".."))
LEAN_DIR = os.path.join(VERIF, "lean")
REPO = os.environ.get("RPYC_REPO", "/repo")
STD_AXIOMS = {"propext", "Classical.choice", "Quot.sound"}
FORBIDDEN = re.compile(r"\bsorry\b|\bsorryAx\b|\badmit\b|^\s*(?:@\[[^\]]*\]\s*)?(?:private\s+|protected\s+)?axiom\b"
                       r"|native_decide|\+native\b|ofReduceBool|bv_decide|implemented_by|@\[\s*extern|\bunsafe\s|maxHeartbeats\s+0\s*(?:$|in\b)")

AUDIT_TEMPLATE = """import Lean
import %(module)s
open Lean Elab Command
elab "#audit_ns " ns:ident : command => do
  let env ← getEnv
  let mut out : Array String := #[]
  for (n, ci) in env.constants.toList do
    if ns.getId.isPrefixOf n && !n.isInternal then
      match ci with
      | .thmInfo _ =>
        let axs ← liftCoreM (collectAxioms n)
        out := out.push s!"THEOREM {n} AXIOMS {axs.toList}"
      | _ => pure ()
  for l in out.qsort (· < ·) do logInfo l
#audit_ns %(ns)s
"""


def _raised_in_repo(ex):
    """file:line of the innermost frame if the exception was raised by code of the tree under test, else None"""
    tb = ex.__traceback__
    last = None
    while tb is not None:
        last = tb
        tb = tb.tb_next
    if last is None:
        return None
    fn = os.path.abspath(last.tb_frame.f_code.co_filename)
    if fn.startswith(os.path.abspath(REPO) + os.sep):
        return "%s:%d" % (os.path.relpath(fn, REPO), last.tb_lineno)
    return None


class Corr:
    """result of a correspondence run"""
    def __init__(self):
        self.evaluations = 0
        self.signatures = set()       # distinct non-trivial (by the property's rule)
        self.disagreements = []       # list of dicts {case, impl, model}
        self.samples = []
        self.distribution = {}
        self.rule = ""
        self.exhaustive = None
        self.extra = {}
        self.error = None             # infrastructure problem (string) -> correspondence could not run

    def count(self, key, n=1):
        self.distribution[key] = self.distribution.get(key, 0) + n


class Ctx:
    def __init__(self, prop_id, tier, seed):
        self.prop_id = prop_id
        self.tier = tier
        self.seed = seed
        self.t0 = time.time()
        self.log_lines = []

    def log(self, msg):
        self.log_lines.append(msg)
        print("[%s %6.1fs] %s" % (self.prop_id, time.time() - self.t0, msg), flush=True)

    def budget(self, quick, thorough):
        return thorough if self.tier == "thorough" else quick


def _lock():
    f = open(os.path.join(LEAN_DIR, ".buildlock"), "w")
    fcntl.flock(f, fcntl.LOCK_EX)
    return f


def strip_comments(src):
    # remove /- ... -/ (nested not handled beyond one level of balance) and -- line comments
    out = []
    depth = 0
    i = 0
    while i < len(src):
        if src.startswith("/-", i):
            depth += 1
            i += 2
        elif src.startswith("-/", i) and depth > 0:
            depth -= 1
            i += 2
        elif depth > 0:
            if src[i] == "\n":
                out.append("\n")
            i += 1
        elif src.startswith("--", i):
            while i < len(src) and src[i] != "\n":
                i += 1
        else:
            out.append(src[i])
            i += 1
    return "".join(out)


def import_closure(module):
    """files under lean/ that `module` transitively imports (RpycModel.* only), including itself"""
    seen, todo = {}, [module]
    while todo:
        m = todo.pop()
        if m in seen or not (m.startswith("RpycModel") or m.startswith("Driver")):
            continue
        path = os.path.join(LEAN_DIR, *m.split(".")) + ".lean"
        if not os.path.exists(path):
            continue
        seen[m] = path
        with open(path) as f:
            for line in f:
                mm = re.match(r"\s*(?:public\s+)?import\s+([\w.]+)", line)
                if mm:
                    todo.append(mm.group(1))
    return sorted(seen.values())


def driver_roots(drivers):
    """Lean root modules of the given lean_exe targets (lakefile.toml)"""
    roots = {}
    try:
        with open(os.path.join(LEAN_DIR, "lakefile.toml")) as f:
            txt = f.read()
        for m in re.finditer(r'name\s*=\s*"([^"]+)"\s*\n\s*root\s*=\s*"([^"]+)"', txt):
            roots[m.group(1)] = m.group(2)
    except OSError:
        pass
    return [roots[d] for d in drivers if d in roots]


def grep_forbidden(module, drivers=()):
    """forbidden tokens in the sources the property's theorem module depends on (its import closure) and in the
    sources of the compiled drivers the correspondence runs (an @[implemented_by]/@[extern] there would make the
    executed model differ from the proved one)"""
    hits = []
    files = set(import_closure(module))
    for r in driver_roots(drivers):
        files |= set(import_closure(r))
    for p in sorted(files):
        with open(p) as f:
            src = strip_comments(f.read())
        for ln, line in enumerate(src.split("\n"), 1):
            if FORBIDDEN.search(line):
                hits.append("%s:%d: %s" % (os.path.relpath(p, LEAN_DIR), ln, line.strip()[:120]))
    return hits


def regenerate(ctx):
    with _lock():        # the Gen files and gen_status.json are shared with concurrent checks and builds
        p = subprocess.run([sys.executable, os.path.join(HERE, "gen_consts.py")], stdout=subprocess.PIPE,
                           stderr=subprocess.STDOUT, env=dict(os.environ, RPYC_REPO=REPO))
    out = p.stdout.decode().strip()
    ctx.log(out.split("\n")[-1] if out else "gen_consts: (no output)")
    return p.returncode, out


def theorem_names_in(path):
    if not os.path.exists(path):
        return []
    with open(path) as f:
        src = strip_comments(f.read())
    return re.findall(r"^\s*(?:protected\s+|private\s+)?theorem\s+([A-Za-z_][\w.']*)", src, re.M)


def lake_build(ctx, targets):
    """returns (ok, output, failed_theorems)"""
    with _lock():
        p = subprocess.run(["lake", "build"] + targets, cwd=LEAN_DIR, stdout=subprocess.PIPE, stderr=subprocess.STDOUT)
    out = p.stdout.decode()
    return p.returncode == 0, out


def errors_to_theorems(build_out):
    """map `error: File.lean:LINE:COL` to the nearest preceding theorem/def name in that file"""
    broken = []
    for m in re.finditer(r"error: (\S+\.lean):(\d+):(\d+): (.*)", build_out):
        path, line, msg = os.path.join(LEAN_DIR, m.group(1)), int(m.group(2)), m.group(4)
        name = "?"
        if os.path.exists(path):
            with open(path) as f:
                lines = f.read().split("\n")
            for k in range(min(line, len(lines)) - 1, -1, -1):
                mm = re.match(r"\s*(?:@\[[^\]]*\]\s*)?(?:protected\s+|private\s+)?(theorem|lemma|def|example|instance)\s+([A-Za-z_][\w.']*)?", lines[k])
                if mm:
                    name = mm.group(2) or "example@%d" % (k + 1)
                    break
        item = "%s:%s (%s:%d: %s)" % (os.path.basename(m.group(1))[:-5], name, m.group(1), line, msg[:100])
        if item not in broken:
            broken.append(item)
    return broken


def audit(ctx, module, ns):
    os.makedirs(os.path.join(LEAN_DIR, ".lake", "audit"), exist_ok=True)
    path = os.path.join(LEAN_DIR, ".lake", "audit", "%s_%d.lean" % (ns.replace(".", "_"), os.getpid()))
    with open(path, "w") as f:
        f.write(AUDIT_TEMPLATE % dict(module=module, ns=ns))
    try:
        with _lock():
            p = subprocess.run(["lake", "env", "lean", path], cwd=LEAN_DIR, stdout=subprocess.PIPE, stderr=subprocess.STDOUT)
    finally:
        try:
            os.unlink(path)
        except OSError:
            pass
    out = p.stdout.decode()
    thms = {}
    for m in re.finditer(r"THEOREM (\S+) AXIOMS \[(.*?)\]", out):
        # compiler-generated equation/matcher lemmas and the helpers of non-vacuity examples are audited for axioms
        # like everything else but are not property theorems: they are not counted as obligations
        auto = re.search(r"\.(?:eq_\d+|eq_def|eq_unfold|match_\d+|proof_\d+|sizeOf_spec|injEq|inj|induct(?:_unfolding)?|"
                         r"fun_cases(?:_unfolding)?|congr_simp)$", m.group(1)) or ".Example." in m.group(1)
        thms[m.group(1)] = ([a.strip() for a in m.group(2).split(",") if a.strip()], bool(auto))
    return p.returncode == 0, thms, out


def load_expected_theorems(pid):
    p = os.path.join(VERIF, "tools", "expected_theorems.json")
    try:
        with open(p) as f:
            return json.load(f).get(pid, [])
    except (OSError, ValueError):
        return []


def load_known():
    p = os.path.join(VERIF, "known_findings.json")
    if not os.path.exists(p):
        return []
    with open(p) as f:
        return json.load(f).get("findings", [])


def write_json(path, obj):
    os.makedirs(os.path.dirname(path), exist_ok=True)
    tmp = "%s.%d.tmp" % (path, os.getpid())
    with open(tmp, "w") as f:
        json.dump(obj, f, indent=1, sort_keys=True, default=str)
        f.write("\n")
    os.replace(tmp, path)


def run_check(prop, tier, seed):
    ctx = Ctx(prop.ID, tier, seed)
    broken = []          # names of theorems / correspondences that no longer check
    # 1 ---------------------------------------------------------------- regenerate
    rc, gen_out = regenerate(ctx)
    if rc == 2:
        print("INFRASTRUCTURE: rpyc does not import from %s" % REPO)
        return 2
    if rc == 3:
        try:
            with open(os.path.join(LEAN_DIR, ".lake", "gen_status.json")) as f:
                status = json.load(f)
        except Exception:  # noqa
            status = {}
        gen_files = set(getattr(prop, "GEN", ["Brine.lean"]))
        gen_files |= set(os.path.basename(f) for f in import_closure(prop.LEAN_MODULE)
                         if os.sep + "Gen" + os.sep in f)      # every generated file the theorems really import
        for fname in sorted(gen_files):
            st = status.get(fname, "missing")
            if st != "ok":
                broken.append("translator: %s: %s" % (fname, st[:300]))
    elif rc != 0:
        print("INFRASTRUCTURE: gen_consts failed:\n" + gen_out)
        return 2
    # 2 ---------------------------------------------------------------- proofs
    obligations = []
    for path in import_closure(prop.LEAN_MODULE):
        if os.sep + "Props" + os.sep in path or os.sep + "Compose" + os.sep in path:
            if prop.ID in os.path.basename(path) or os.sep + "Compose" + os.sep in path:
                obligations += theorem_names_in(path)
    ok_build, build_out = lake_build(ctx, [prop.LEAN_MODULE] + list(getattr(prop, "DRIVERS", ["drv_brine"])))
    thms, axioms_seen, discharged = {}, set(), 0
    if ok_build:
        ok_audit, thms, audit_out = audit(ctx, prop.LEAN_MODULE, prop.NAMESPACE)
        if not ok_audit or not thms:
            print("INFRASTRUCTURE: audit failed:\n" + audit_out[-2000:])
            return 2
        for name, (axs, _auto) in thms.items():
            axioms_seen.update(axs)
            bad = [a for a in axs if a not in STD_AXIOMS]
            if bad:
                broken.append("axioms: %s depends on %s" % (name, bad))
        obligations = sorted(n for n, (_a, auto) in thms.items() if not auto)
        discharged = len(obligations)
        # a theorem that was there when the expected list was committed and is gone now is a broken obligation
        # (renaming or deleting a theorem must be a visible act: tools/update_expected_theorems.py)
        expected = load_expected_theorems(prop.ID)
        missing = [n for n in expected if n not in thms]
        for n in missing:
            broken.append("proof: theorem %s is listed in tools/expected_theorems.json but no longer exists" % n)
        ctx.log("proofs: %d theorems in %s re-checked (%d generated lemmas audited besides); axioms %s"
                % (discharged, prop.NAMESPACE, len(thms) - discharged, sorted(axioms_seen)))
    else:
        errs = errors_to_theorems(build_out)
        if not errs:
            print("INFRASTRUCTURE: lake build failed without a located error:\n" + build_out[-3000:])
            return 2
        # an error located outside the property's own sources (its import closure, which contains the generated
        # constants) is not about this property: a driver or an unrelated module does not compile -> infrastructure
        own = set(os.path.relpath(f, LEAN_DIR) for f in import_closure(prop.LEAN_MODULE))
        located = re.findall(r"error: (\S+\.lean):\d+:\d+", build_out)
        if located and not any(f in own for f in located):
            print("INFRASTRUCTURE: lake build failed outside this property's sources (%s):\n%s"
                  % (", ".join(sorted(set(located))), build_out[-2000:]))
            return 2
        broken.extend("proof: " + e for e in errs)
        discharged = 0          # nothing was re-checked to the end: the build stopped
        ctx.log("proofs: build FAILED; broken: %s" % "; ".join(errs)[:600])
    hits = grep_forbidden(prop.LEAN_MODULE, getattr(prop, "DRIVERS", ["drv_brine"]))
    if hits:
        broken.append("forbidden tokens in model sources: %s" % hits[:5])
    if tier == "thorough" and ok_build:
        with _lock():
            p = subprocess.run(["lake", "env", "leanchecker", prop.LEAN_MODULE], cwd=LEAN_DIR,
                               stdout=subprocess.PIPE, stderr=subprocess.STDOUT)
        ctx.log("leanchecker %s: exit %d" % (prop.LEAN_MODULE, p.returncode))
        if p.returncode != 0:
            broken.append("leanchecker rejected %s: %s" % (prop.LEAN_MODULE, p.stdout.decode()[-300:]))
    # 3 ---------------------------------------------------------------- correspondence
    corr = None
    for attempt in (1, 2):
        try:
            corr = prop.correspondence(ctx)
            break
        except Exception as ex:  # noqa
            where = _raised_in_repo(ex)
            if where is None and not broken:
                # the harness itself failed on a tree whose proofs still check.  Real sockets, threads and child
                # processes make a transient failure possible (a reset between connect and the first byte, a port in
                # use): try once more before calling it an infrastructure failure (exit 2)
                if attempt == 1:
                    import traceback
                    traceback.print_exc()
                    ctx.log("correspondence: harness error %s: %s - retrying once" % (type(ex).__name__, str(ex)[:200]))
                    continue
                raise
            # either the implementation raised something no path of the unchanged code raises and the harness had no
            # answer for, or the source has already changed shape (a proof obligation / the translator broke) and the
            # harness cannot drive it any more: the correspondence no longer checks; go on to the failing-input search
            corr = Corr()
            if where is not None:
                corr.error = "the implementation raised %s: %s at %s while the correspondence was running" % (
                    type(ex).__name__, str(ex)[:200], where)
            else:
                import traceback
                last = traceback.extract_tb(ex.__traceback__)[-1]
                corr.error = "the harness could not drive the changed implementation: %s: %s at %s:%d" % (
                    type(ex).__name__, str(ex)[:200], os.path.basename(last.filename), last.lineno)
            break
    if corr.error:
        broken.append("correspondence could not run: " + corr.error)
    ctx.log("correspondence: %d evaluations, %d distinct non-trivial, %d disagreements"
            % (corr.evaluations, len(corr.signatures), len(corr.disagreements)))
    if corr.disagreements:
        write_json(os.path.join(VERIF, "replays", "%s-%d-disagreements.json" % (prop.ID, seed)), corr.disagreements[:500])
        broken.append("correspondence: %d disagreement(s), first: %s" % (
            len(corr.disagreements), json.dumps(corr.disagreements[0], default=str)[:400]))
    # 4 ---------------------------------------------------------------- search
    known = [k for k in load_known() if k.get("property") == prop.ID]
    ctx.known_signatures = set(k.get("signature") for k in known if k.get("status") == "known")
    violations = []
    if broken:
        ctx.log("broken: " + " | ".join(broken)[:1000])
        # the direct oracle ignores failures whose signature is a listed known finding
        try:
            found = prop.oracle_search(ctx, corr, broken)
        except Exception as ex:  # noqa
            where = _raised_in_repo(ex)
            broken.append("failing-input search stopped: %s: %s%s" % (
                type(ex).__name__, str(ex)[:200], (" raised by the implementation at " + where) if where else " (harness)"))
            found = None
        replay_path = os.path.join("replays", "%s-%d.json" % (prop.ID, seed))
        if found is not None:
            case, observed, signature = found
            write_json(os.path.join(VERIF, replay_path), dict(
                property=prop.ID, kind=case.get("kind", "input") if isinstance(case, dict) else "input",
                case=case, observed=observed, signature=signature, broken=broken, seed=seed, tier=tier))
            violations.append("VIOLATION property=%s replay=%s" % (prop.ID, replay_path))
        else:
            write_json(os.path.join(VERIF, replay_path), dict(
                property=prop.ID, kind="no-failing-input-found", broken=broken,
                disagreements=corr.disagreements[:20], seed=seed, tier=tier))
            violations.append("VIOLATION property=%s replay=%s no-failing-input-found" % (prop.ID, replay_path))
    # 5 ---------------------------------------------------------------- known findings
    known_lines = []
    if hasattr(prop, "known_probes"):
        for signature, reproduces, text in prop.known_probes(ctx):
            entry = [k for k in known if k.get("signature") == signature]
            if reproduces:
                if entry and entry[0].get("status") == "known":
                    known_lines.append("KNOWN-FINDING: property=%s %s" % (prop.ID, text))
                else:
                    # not listed (or listed as fixed and it came back): a violation
                    replay_path = os.path.join("replays", "%s-%d-%s.json" % (prop.ID, seed, re.sub(r"\W+", "_", signature)[:40]))
                    write_json(os.path.join(VERIF, replay_path), dict(
                        property=prop.ID, kind="probe", signature=signature, observed=text, seed=seed, tier=tier))
                    violations.append("VIOLATION property=%s replay=%s" % (prop.ID, replay_path))
    # 6 ---------------------------------------------------------------- evidence
    wall = time.time() - ctx.t0
    coverage = dict(
        obligations=max(len(obligations), 1), discharged=discharged,
        checker_cmd="cd lean && lake build %s  # kernel re-check; then an audit command generated per run (harness/pipeline.py AUDIT_TEMPLATE) lists collectAxioms of every theorem in %s"
                    % (prop.LEAN_MODULE, prop.NAMESPACE),
        trusted_base=["Lean 4.33.0 kernel", "axioms found by the audit: %s" % sorted(axioms_seen),
                      "harness/gen_consts.py (constants translator)", "correspondence harness + lean/Driver (text parser/printer)"]
                     + list(prop.TRUSTED),
        theorems=obligations, generated_lemmas_audited=sorted(n for n, (_a, auto) in thms.items() if auto),
        evaluations=corr.evaluations, distinct_nontrivial=len(corr.signatures), rule=corr.rule,
        samples=corr.samples[:12], distribution=corr.distribution,
        disagreements_checked=len(corr.disagreements), broken=broken,
        explanation=getattr(prop, "EXPLANATION", ""),
    )
    if corr.exhaustive is not None:
        coverage["exhaustive"] = corr.exhaustive
    coverage.update(corr.extra)
    write_json(os.path.join(VERIF, "evidence", prop.ID + ".json"), dict(
        property_id=prop.ID, tier=tier, seed=seed, level="proof", coverage=coverage,
        assumptions=list(prop.ASSUMPTIONS), wall_s=round(wall, 2), violations=len(violations)))
    for l in known_lines:
        print(l)
    for v in violations:
        print(v)
    ctx.log("done in %.1fs: %s" % (wall, "VIOLATION" if violations else "ok"))
    return 1 if violations else 0
