"""C14 — a waiter returns as soon as its reply has been processed by any thread (layer L8 Serve).

The statement is FALSE of the pinned code (DESIGN.md F3; Lean: Rpyc.Props.C14.C14_counterexample*): `serve()`
releases the receive lock and notifies the waiters BEFORE it dispatches the reply, and `AsyncResult.wait`
tests readiness outside the receive lock.  A waiter whose readiness test precedes the publication of its
result goes on to block in `poll()` (or on the condition) although its reply has been processed by another
thread — until its own deadline, forever with `sync_request_timeout=None`.  The model carries the defect.

Correspondence: the witness schedules of the Lean counterexamples and their neighbourhood (every schedule of
caller + background thread with <= 2 preemptions, of two callers with <= 1, seeded random schedules of larger
configurations) are executed on the REAL code under the line scheduler of harness/sched_serve.py in virtual
time.  The compiled model must accept every trace, including the observations `chk:<t>:<R|->` ("client t is
blocked in poll()/on the condition and its result is / is not ready") taken whenever a client blocks and
whenever a result is published, and must end with the same results and the same virtual time.

Direct oracle (real code only): whenever a client's reply has been processed the client is not blocked;
measured as: dispatch (virtual) time of its reply vs. the (virtual) time at which it returns.
Every stall is classified by its schedule signature; the two shapes of F3 are listed in known_findings.json,
anything else is a violation -- in particular a stall during which the dispatching thread sent a request of its
own between the lock hand-off and the publication (`C14:dispatcher-blocks-in-nested-request-before-publication`):
the model's dispatch makes no request (theorem dispatcher_sends_no_request), and the correspondence checks the
real code for that with by-reference results and a DEBUG logger configured, also on the "dispatcher priority"
schedule family (a thread that has received a frame is not preempted until it has dispatched it).
"""
import time

import sched_serve as ss
from lineproto import run_driver, DriverError
from pipeline import Corr
from prng import Rng

ID = "C14"
LEAN_MODULE = "RpycModel.Props.C14"
NAMESPACE = "Rpyc.Props.C14"
GEN = []
DRIVERS = ["drv_serve"]
TRUSTED = [
    "modelled, not verified: GIL atomicity of attribute stores / Lock.acquire(False); threading.Condition semantics; "
    "poll(timeout) returns when data arrives or the deadline passes",
    "harness/sched_serve.py: settrace line scheduler, scheduler-aware Lock/Condition/channel stand-ins, virtual clock "
    "behind rpyc.lib.time and rpyc.utils.helpers.time; BgServingThread.SLEEP_INTERVAL set to 1 virtual unit on the instance",
]
ASSUMPTIONS = [
    "the peer sends only replies to outstanding requests",
    "'as soon as' is measured in virtual time plus the blocked-while-ready observation; scheduling delay is not a stall",
]
EXPLANATION = (
    "C14_statement (a client whose reply has been processed is never blocked in poll() or on the condition) is false of "
    "the pinned code: C14_counterexample (explicit schedule), C14_counterexample_until_deadline, C14_counterexample_forever "
    "(timeout None: never enabled again whatever time passes), C14_counterexample_late and C14_counterexample_clients (other "
    "shapes of the same defect, one without any background thread). Proved: C14_stall_classification (every stall: result "
    "popped by another thread; the client is in poll() holding the receive lock with nothing to read, or in the wait-set) "
    "-- the trace-order part of the harness signatures is NOT a Lean statement (no history in the model state); "
    "C14_bounded_stall (a stalled client's next step is enabled after the next frame/EOF/close/deadline/notify; from the "
    "loop test with its result ready its continuation is three steps to the peer's answer, no further serve) with "
    "released_waiter_returns (the same, step by step); C14_partial_self / C14_stall_needs_other_receiver; "
    "C14_partial_deadline (never blocked once its own expiry is reached; real-code oracle: blocked-past-own-expiry); "
    "C14_partial_value; C14_holds_without_second_thread (runs in which only one logical thread and the environment act; "
    "does not cover user-class references, whose INSPECT round trip is a second logical thread). Lemmas that are "
    "definitional / true of the model by construction (stalled_waiter_released, ready_stable, dispatcher_sends_no_request) "
    "live in Conc/Serve/Stalls.lean and are not counted as property theorems. The timed form returnTime <= dispatchTime is "
    "measured by the harness, not stated in Lean. Known finding F3; no fix committed.")

KNOWN_SHAPES = (ss.SIG_MAIN, ss.SIG_LATE)

# directed schedules (see sched_serve.DirectedChooser); thread ids: clients 1..n, background thread n+1
WITNESSES = {
    # Lean: witness (some 10) / witness none
    "main": (dict(clients=[[10]], bg=True),
             [("run", 1, "c3"), ("peer", 0), ("run", 2, "n2"), ("block", 1), ("run", 2, "d5")], ss.SIG_MAIN),
    "main-none": (dict(clients=[[None]], bg=True),
                  [("run", 1, "c2"), ("peer", 0), ("run", 2, "n2"), ("block", 1), ("run", 2, "d5")], ss.SIG_MAIN),
    # Lean: witnessLate — readiness tested before the dispatch, lock taken after it
    "late": (dict(clients=[[10]], bg=True),
             [("run", 1, "c3"), ("peer", 0), ("run", 2, "p0"), ("run", 1, "w0"), ("run", 2, "d5"), ("block", 1)], ss.SIG_LATE),
    # Lean: witnessClients — no background thread: client 2 receives client 1's reply; client 1, woken by the
    # notify, takes the lock before the dispatch
    "clients": (dict(clients=[[None], [9]], bg=False),
                [("run", 1, "c2"), ("run", 2, "c3"), ("run", 2, "s3"), ("block", 1), ("peer", 0), ("run", 2, "n2"),
                 ("block", 1), ("run", 2, "d5")], ss.SIG_MAIN),
    # the waiter ends up asleep on the condition behind the receiver's next poll
    "cond": (dict(clients=[[None], [9]], bg=False),
             [("run", 1, "c2"), ("run", 2, "c3"), ("peer", 0), ("run", 1, "w0"), ("run", 2, "d5"), ("block", 2), ("block", 1)],
             ss.SIG_LATE),
    # the receiver is a polling thread (conn.poll_all(0) = serve(0, wait_for_lock=False))
    "poller": (dict(clients=[[10]], pollers=[[0]]),
               [("run", 1, "c3"), ("peer", 0), ("run", 2, "n2"), ("block", 1), ("run", 2, "d5")], ss.SIG_MAIN),
    # negative: the caller parks on the condition behind the polling thread, which receives its reply, releases,
    # NOTIFIES and dispatches before the caller runs again
    "poller-cond": (dict(clients=[[None]], pollers=[[0]]),
                    [("run", 2, "s3"), ("block", 1), ("peer", 0), ("block", 2)], None),
    # by-reference result + DEBUG logger on the connection: same behaviour as `main` (dispatch does no extra work)
    "byref-log": (dict(clients=[[10]], bg=True, byref=True, logger=True),
                  [("run", 1, "c3"), ("peer", 0), ("run", 2, "n2"), ("block", 1), ("run", 2, "d5")], ss.SIG_MAIN),
    # negative, dispatcher-priority family: thread 2 holds the receive lock in poll(), thread 1 (no expiry) is parked on
    # the condition, the peer answers thread 1; thread 2 receives, releases, notifies and publishes without being
    # preempted; thread 1 wakes and finds its result.  (Were the dispatcher to send a request of its own before the
    # publication, the rest of the script lets the woken waiter run during that round trip.)
    "priority": (dict(clients=[[None], [9]], byref=True, logger=True, dispatcher_priority=True),
                 [("block", 2), ("block", 1), ("peer", 1), ("run", 2, "c2"), ("block", 1), ("peer", 2), ("block", 1), ("block", 2)],
                 None),
    # a result that is a reference to an instance of a USER class: _unbox makes an INSPECT round trip on the dispatching
    # thread, between the lock hand-off and the publication.  Even in the dispatcher-priority family the waiter gets to
    # run during that round trip, serves the INSPECT answer itself, re-tests (not ready), takes the lock again and blocks.
    "userclass-priority": (dict(clients=[[10]], bg=True, byref="user", dispatcher_priority=True),
                           [("run", 1, "c3"), ("peer", 0), ("run", 2, "c2", 51), ("block", 1), ("peer", 1), ("block", 1),
                            ("block", 2)], ss.SIG_MAIN),
    # the receiver is a caller without expiry whose own request is never answered: a serve(None) thread, as serve_all's
    "serve-none": (dict(clients=[[None], [None]], mute=[2]),
                   [("block", 2), ("block", 1), ("peer", 1), ("run", 2, "n2"), ("block", 1), ("block", 2)], ss.SIG_MAIN),
    # negative neighbours: the caller receives its own reply; the caller tests readiness after the dispatch
    "self": (dict(clients=[[10]], bg=True), [("run", 1, "c3"), ("peer", 0), ("block", 1)], None),
    "after": (dict(clients=[[10]], bg=True), [("run", 1, "c3"), ("peer", 0), ("run", 2, "d5"), ("block", 1)], None),
}

# the non-blocking way of waiting, `while not res.ready` (AsyncResult.ready -> poll_all(0) -> poll), under unrelated
# inbound traffic.  ORACLE-ONLY: a caller that polls is outside the model; what is checked on the real code is the
# statement itself on this path: once the polling thread has dispatched the reply to its request, `ready` gives it
# control back in that same poll round (it receives no further frame first).
READY_CASE = dict(clients=[[("ready", None)]], unrelated=3)
READY_SCRIPTS = [
    [("run", 1, "c2"), ("peer", 0), ("unrelated",), ("unrelated",), ("unrelated",), ("block", 1)],
    [("run", 1, "c2"), ("unrelated",), ("peer", 0), ("unrelated",), ("unrelated",), ("block", 1)],
    [("run", 1, "c2"), ("unrelated",), ("unrelated",), ("peer", 0), ("unrelated",), ("block", 1)],
]
READY_RANDOM = dict(clients=[[("ready", 6)], [5]], unrelated=4, bg=True)

NEIGHBOURHOODS = [("1c+bg", dict(clients=[[4]], bg=True), 2), ("2c", dict(clients=[[None], [4]], bg=False), 1),
                  ("1c+poller", dict(clients=[[None]], pollers=[[0]]), 2),
                  ("1c+bg-byref-log", dict(clients=[[4]], bg=True, byref=True, logger=True), 1),
                  ("2c-byref-log-priority", dict(clients=[[None], [4]], byref=True, logger=True, dispatcher_priority=True), 1),
                  ("1c+bg-userclass-priority", dict(clients=[[4]], bg=True, byref="user", dispatcher_priority=True), 1)]
RANDOM_CONFIGS = {
    "1c+bg": dict(clients=[[6]], bg=True),
    "1c-none+bg": dict(clients=[[None]], bg=True),
    "2c+bg": dict(clients=[[5], [7]], bg=True),
    "3c": dict(clients=[[5], [None], [7]], bg=False),
    "2c-2calls+bg-tick": dict(clients=[[3, 4], [5]], bg=True, early_tick=True),
    "2c+poller": dict(clients=[[None], [5]], pollers=[["ready", 0]]),
    "1c+poller+bg": dict(clients=[[6]], pollers=[[1, "ready"]], bg=True),
    "2c+bg-byref-log": dict(clients=[[None], [6]], bg=True, byref=True, logger=True),
    "2c-userclass-callbacks": dict(clients=[[None], [6]], byref="user", logger=True, callbacks=True),
    "2c-serve-none": dict(clients=[[8], [None]], mute=[2], callbacks=True),
    "2c+poller-byref-log-priority": dict(clients=[[None], [6]], pollers=[[0, 1]], byref=True, logger=True,
                                         dispatcher_priority=True),
}


def describe_stall(st):
    if st.get("signature") in (ss.SIG_DRAIN, ss.SIG_PAST_EXPIRY):
        return "thread %s request %s: %s" % (st.get("tid"), st.get("seq"), st.get("shape"))
    return _describe_stall(st)


def _describe_stall(st):
    if st.get("t_return") is None:
        when = "never returned (still blocked at the horizon / end of the run)"
    else:
        when = "returned at t=%s" % ss.fmt_t(st["t_return"])
    return ("thread %s request %s: reply dispatched by thread %s at t=%s while the caller (timeout %s) was blocked in %s; it %s"
            % (st.get("tid"), st.get("seq"), st.get("receiver"), ss.fmt_t(st.get("t_dispatch")), st.get("tmo"),
               {"poll": "poll()", "cond": "Condition.wait()"}.get(st.get("blocked_in"), "?"), when))


def feed(c, name, runs, expect=None):
    """model acceptance + bookkeeping for a batch of runs; expect: {index: signature or None} for directed runs"""
    if not runs:
        return
    outs = run_driver(["serve trace " + " ".join(r.sched.trace) for r in runs], exe="drv_serve")
    for i, (r, got) in enumerate(zip(runs, outs)):
        c.evaluations += 1
        want = "ok " + r.summary()
        c.count("config:" + name)
        c.count("outcome:" + r.outcome)
        stalls = ss.stalls_of(r)
        case = dict(kind="schedule", config=name, case=r.case, choices=[ch for (ch, _o, _c) in r.choices])
        for st in ss.past_expiry(r)[:1]:
            c.disagreements.append(dict(case=case, impl="oracle: " + st["shape"], model=got[:300], trace=" ".join(r.sched.trace)[:6000]))
        for st in stalls:
            # the deadline form of the statement on every stall: a stalled waiter with an expiry returns no later than it
            if st.get("tmo") is not None and st.get("t_return") is None and r.outcome in ("deadlock", "horizon"):
                c.disagreements.append(dict(case=case, impl="oracle: stalled waiter with a finite expiry never returned: " + describe_stall(st),
                                            model=got[:300], trace=" ".join(r.sched.trace)[:6000]))
        if not stalls:
            c.count("waiter returned at the dispatch time (no stall)")
        for st in stalls:
            c.count("stall:" + st["signature"])
            c.count("stall blocked in " + str(st.get("blocked_in")))
            if st.get("inspect"):
                c.count("stall with the dispatcher's INSPECT round trip (user-class reference) inside the window")
            if r.case.get("dispatcher_priority"):
                c.count("stall inside the dispatcher-priority family:" + st["signature"].split(":")[-1])
            d = None if st.get("t_return") is None else st["t_return"] - st["t_dispatch"]
            c.count("stall delay (virtual units): " + ("forever" if d is None else ("0 (released by other traffic)" if d == 0 else
                                                        "1-3" if d <= 3 else "4-10" if d <= 10 else ">10")))
            c.signatures.add((name, st["signature"], st.get("blocked_in"), st.get("receiver"), st.get("t_return") is None,
                              tuple(t for t in r.sched.trace if not t.startswith("tick"))[:60].__hash__()))
            if st["signature"] not in KNOWN_SHAPES:
                c.disagreements.append(dict(case=case, impl="oracle: stall of an unlisted shape %s: %s" % (st["signature"], describe_stall(st)),
                                            model=got[:300], trace=" ".join(r.sched.trace)[:6000]))
        if got != want:
            c.disagreements.append(dict(case=case, impl=want[:600], model=got[:600], trace=" ".join(r.sched.trace)[:6000]))
        elif len(c.samples) < 12 and (stalls and c.evaluations % 37 == 5 or expect is not None):
            c.samples.append(dict(config=name, schedule=" ".join(case["choices"])[:240],
                                  observed=[describe_stall(s) for s in stalls] or "no stall", model=got[:160]))


def run_witness(name, env):
    case, script, sig = WITNESSES[name]
    ch = ss.DirectedChooser(script)
    r = ss.run_case(dict(case), ch, env)
    return r, ch, sig


def correspondence(ctx):
    c = Corr()
    c.rule = ("one case = one schedule of the real code in virtual time: the directed witness schedules of the Lean "
              "counterexamples and their negative neighbours, every schedule within the stated preemption bound of "
              "caller+background thread and of two callers, seeded random schedules of larger configurations. Non-trivial = "
              "the schedule contains a stall (a client blocked while its result is ready); distinct = distinct (configuration, "
              "stall signature, where blocked, receiver, released-or-never, action sequence).")
    try:
        env = ss.locate_statements()
    except Exception as ex:  # noqa
        c.error = "could not locate the modelled statements in the source: %r" % (ex,)
        return c
    if env[2]:
        c.error = "statements the model has a step for were not found by shape: %s" % ", ".join(env[2])
        return c
    t_end = time.time() + ctx.budget(50, 600)
    try:
        # 1. the witnesses
        for name in sorted(WITNESSES):
            r, ch, sig = run_witness(name, env)
            feed(c, "witness:" + name, [r], expect=True)
            sts = ss.stalls_of(r)
            got = sorted(set(s["signature"] for s in sts))
            ctx.log("witness %-9s -> %s%s" % (name, got or "no stall", "" if not ch.failed else "  (script not followed: %s)" % ch.failed))
            c.extra.setdefault("witnesses", {})[name] = dict(
                expected=sig or "no stall", observed=[describe_stall(s) + " [" + s["signature"] + "]" for s in sts] or "no stall",
                script_followed=ch.failed is None)
            if sig is None and sts:
                c.disagreements.append(dict(case=dict(kind="schedule", config="witness:" + name, case=r.case,
                                                      choices=[x for (x, _o, _c) in r.choices]),
                                            impl="oracle: a stall where the model has none: " + describe_stall(sts[0]), model="no stall"))
        # 1b. the ready/poll_all path under unrelated traffic (oracle-only)
        rng0 = Rng(ctx.seed).fork("c14-ready")
        ready_runs = [ss.run_case(dict(READY_CASE), ss.DirectedChooser(sc), env) for sc in READY_SCRIPTS]
        for k in range(ctx.budget(60, 2000)):
            rr = rng0.fork("r%d" % k)
            ready_runs.append(ss.run_case(dict(READY_RANDOM if k % 2 else READY_CASE), ss.RandomChooser(rr, stick=rr.below(5)), env))
        for r in ready_runs:
            c.evaluations += 1
            c.count("oracle-only: ready/poll_all path under unrelated traffic")
            for (tid, seq, spins, _e) in r.ready_polls:
                c.count("ready path: reads of `ready` that returned False before it was True: %s" % ("0" if spins == 0 else "1-3" if spins <= 3 else ">3"))
            for st in ss.ready_drain(r):
                c.disagreements.append(dict(case=dict(kind="schedule", config="ready-path", case=r.case,
                                                      choices=[x for (x, _o, _c) in r.choices]),
                                            impl="oracle: " + st["shape"], model="(outside the model)"))
        # 2. neighbourhoods, exhaustive within a preemption bound
        exhaustive = {}
        plan = NEIGHBOURHOODS if ctx.tier != "thorough" else NEIGHBOURHOODS + [
            ("1c+bg", dict(clients=[[4]], bg=True), 3), ("2c", dict(clients=[[None], [4]], bg=False), 2),
            ("2c+bg", dict(clients=[[5], [4]], bg=True), 1), ("2c+poller", dict(clients=[[None], [5]], pollers=[["ready"]]), 1)]
        for name, case, bound in plan:
            batch = []

            def visit(run, batch=batch, name=name, bound=bound):
                batch.append(run)
                if len(batch) >= 300:
                    feed(c, "%s/dfs%d" % (name, bound), batch)
                    del batch[:]
            share = time.time() + (t_end - time.time()) * ctx.budget(0.5, 0.22)
            n, complete = ss.dfs(dict(case), bound, env, max_runs=ctx.budget(2500, 60000), deadline=share, visit=visit)
            feed(c, "%s/dfs%d" % (name, bound), batch)
            exhaustive["%s preemption<=%d" % (name, bound)] = dict(schedules=n, complete=complete)
            ctx.log("dfs %s bound %d: %d schedules, complete=%s" % (name, bound, n, complete))
        c.extra["exhaustive_within_preemption_bound"] = exhaustive
        # 3. seeded random schedules
        rng = Rng(ctx.seed).fork("c14")
        names = sorted(RANDOM_CONFIGS)
        k, batch, bname = 0, [], None
        n_rand = ctx.budget(700, 30000)
        while k < n_rand and time.time() < t_end:
            name = names[k % len(names)]
            r = rng.fork("s%d" % k)
            ch = ss.RandomChooser(r, stick=r.below(7), max_preempt=r.choice([2, 3, None]))
            run = ss.run_case(dict(RANDOM_CONFIGS[name]), ch, env)
            if bname != name or len(batch) >= 300:
                feed(c, "%s/random" % bname, batch)
                batch, bname = [], name
            batch.append(run)
            k += 1
        feed(c, "%s/random" % bname, batch)
        ctx.log("random: %d schedules" % k)
    except DriverError as ex:
        c.error = str(ex)
        return c
    except ss.HarnessError as ex:
        c.error = "scheduler lost control: %s" % ex
        return c
    c.exhaustive = False
    return c


# ---------------------------------------------------------------------------------------------- known finding
def known_probes(ctx):
    """replay the Lean counterexamples' schedules on the real code; one probe per listed signature"""
    env = ss.locate_statements()
    out = []
    for sig, names in ((ss.SIG_MAIN, ("main", "main-none", "clients", "poller", "byref-log", "userclass-priority", "serve-none")),
                       (ss.SIG_LATE, ("late", "cond"))):
        texts, rep = [], False
        for name in names:
            try:
                r, ch, _s = run_witness(name, env)
            except ss.HarnessError as ex:
                texts.append("%s: harness error %s" % (name, ex))
                continue
            sts = [s for s in ss.stalls_of(r) if s["signature"] == sig]
            if sts:
                rep = True
                texts.append("[%s] %s%s" % (name, describe_stall(sts[0]), " (INSPECT round trip of _unbox inside the window, "
                                                                           "dispatcher-priority schedule)" if sts[0].get("inspect") else ""))
        text = ("signature=%s F3: serve() notifies and releases the receive lock before dispatching; %s"
                % (sig, "; ".join(texts) if texts else "does not reproduce"))
        out.append((sig, rep, text))
    return out


# ---------------------------------------------------------------------------------------------- direct oracle
def run_choices(case, choices, park_all):
    env = ss.locate_statements()
    return ss.run_case(dict(case), ss.PrefixChooser(choices), env, park_all=park_all)


def oracle_search(ctx, corr, broken):
    """any way a waiter stays blocked after its reply was dispatched OTHER than the listed signatures"""
    env = ss.locate_statements()
    if env[2]:
        return None         # the publication statements were not found: stalls cannot be classified on this code
    known = getattr(ctx, "known_signatures", set())
    deadline = time.time() + ctx.budget(40, 600)

    def unlisted(run):
        sts = [s for s in ss.past_expiry(run) + ss.stalls_of(run) + ss.ready_drain(run) if s["signature"] not in known]
        return sorted(sts, key=lambda s: s["signature"] != ss.SIG_NESTED)     # the most specific shape first

    def package(case, run, park_all):
        st = unlisted(run)[0]
        choices = [c for (c, _o, _c) in run.choices]
        # shrink: shortest choice prefix that still yields a stall with this signature
        for n in range(0, len(choices)):
            try:
                r2 = run_choices(case, choices[:n], park_all)
            except ss.HarnessError:
                continue
            if any(s["signature"] == st["signature"] for s in ss.past_expiry(r2) + ss.stalls_of(r2) + ss.ready_drain(r2)):
                choices, run = choices[:n], r2
                st = [s for s in ss.past_expiry(r2) + ss.stalls_of(r2) + ss.ready_drain(r2) if s["signature"] == st["signature"]][0]
                break
        return (dict(kind="schedule", case=case, choices=choices, park_all=park_all),
                describe_stall(st) + " | " + (st.get("shape") or "") + " | trace: " + " ".join(run.sched.trace)[:1500], st["signature"])

    for d in corr.disagreements[:60]:
        cs = d.get("case", {})
        if "case" in cs:
            try:
                r = run_choices(cs["case"], cs.get("choices", []), False)
            except ss.HarnessError:
                continue
            if unlisted(r):
                return package(cs["case"], r, False)
    for name in sorted(WITNESSES):
        r, _ch, _sig = run_witness(name, env)
        if unlisted(r):
            return package(WITNESSES[name][0], r, False)
    for sc in READY_SCRIPTS:
        r = ss.run_case(dict(READY_CASE), ss.DirectedChooser(sc), env)
        if unlisted(r):
            return package(dict(READY_CASE), r, False)
    rng = Rng(ctx.seed).fork("c14-search")
    cases = [c for (_n, c, _b) in NEIGHBOURHOODS] + list(RANDOM_CONFIGS.values())
    k = 0
    while time.time() < deadline:
        case = cases[k % len(cases)]
        r = rng.fork("o%d" % k)
        ch = ss.RandomChooser(r, stick=r.below(5), max_preempt=r.choice([1, 2, 3, None]))
        try:
            run = ss.run_case(dict(case), ch, env, park_all=True)
        except ss.HarnessError:
            k += 1
            continue
        if unlisted(run):
            return package(case, run, True)
        k += 1
    return None


def replay(case):
    out = dict(case=case)
    r = run_choices(case["case"], case.get("choices", []), bool(case.get("park_all")))
    out["outcome"] = r.outcome
    out["implementation"] = "ok " + r.summary()
    out["trace"] = " ".join(r.sched.trace)
    sts = ss.past_expiry(r) + ss.stalls_of(r) + ss.ready_drain(r)
    out["oracle"] = [describe_stall(s) + " [" + s["signature"] + "]" for s in sts] or "holds (no client blocked after its reply was processed)"
    try:
        out["model"] = run_driver(["serve trace " + " ".join(r.sched.trace)], exe="drv_serve")[0]
    except DriverError as ex:
        out["model"] = "driver error: %s" % ex
    return out
