"""C02 — operating on a proxy is indistinguishable from operating on the target.

Correspondence, two parts, both on REAL connections over the deterministic in-memory network (harness/simnet.py):

 (a) frame level: every kind of operation on a real netref (attribute get/set/del, dir, hash, the six comparisons,
     repr, str, call, every operator / indexing / len / iter / next / bool / in / with through the special method,
     pickling, buffered-iteration rounds, the names the netref keeps to itself) is performed, the request frames it
     puts on the wire are decoded with rpyc.core.brine and compared — handler id and every argument, values by value,
     objects by the object they refer to — with `wireOf` of the model (lean/RpycModel/Proto/Forward.lean, `drv_calls`).
 (b) differential TWIN runs — this is where the abstract object semantics of the theorems is tied to CPython:
     sequences of <= 25 operations are applied to a proxy of a target living on the far side and to a local twin built
     by the same factory; after every step the results (by value, or "is a proxy of the twin's result": same identity
     relation to the target / operands, else equal deep snapshot) / exception classes are compared, and a deep
     snapshot of the target with the twin's.  Targets: list, dict, set, bytearray, deque, generator, io.BytesIO, a
     user class with operator overloads (plain, reflected, in-place), comparisons, hash, container protocol, call,
     context manager and properties.  Configurations: classic, public-attribute, default (an operation the
     configuration refuses must raise AttributeError and leave the target untouched; which operations are refused is
     compared with the model's `checkAttr`).  Buffered iteration runs over chunk x max_chunk x factor grids and is
     compared with the model's `buffiter` as well.

OPERAND DISCIPLINE (DESIGN.md C02): operands are immutable values or objects created on the target's side (the proxy
run passes the proxy of that object, the twin run its twin).  Caller-side mutable operands are never generated.
Leaving a `with proxy:` block WITH an exception passes caller-side exception objects: it is exercised only for
"does not hang, connection stays usable" and recorded as an observation outside the property.

Direct oracle (real code only): one operation sequence, stepwise equal results / exception classes, equal snapshots.
"""
import collections
import io
import operator
import re
import struct
import time
import zlib

import valtext
from lineproto import run_driver, DriverError
from pipeline import Corr
from prng import Rng
from props import c04

ID = "C02"
LEAN_MODULE = "RpycModel.Props.C02"
NAMESPACE = "Rpyc.Props.C02"
GEN = ["Netref.lean", "Brine.lean"]
DRIVERS = ["drv_calls"]
TRUSTED = [
    "modelled, not verified: CPython's data model (an operator / len / iter / with on an object is a call of the "
    "special method looked up on its type; reflected and in-place fallbacks) - the Lean theorems are about forwarding "
    "for EVERY object semantics; that the abstract semantics is CPython's is covered by the twin runs only",
    "marshalling of operands and results is C01's marshal_identity / C03; type-level _rpyc_*attr hooks are C06",
    "the twin harness: factories, deep snapshots, masking of addresses in repr/str, id-based default hash compared "
    "by kind only",
]
ASSUMPTIONS = [
    "operands are immutable values or objects living on the target's side (a caller-side mutable operand travels as a "
    "reference and really does behave differently: outside the statement)",
    "leaving `with proxy:` with an exception is outside the statement (the exception objects are caller-side)",
    "buffered iteration is compared as a whole iteration: for an iterator that raises, the items of the chunk in which "
    "it raised are not delivered (same terminating exception class, a prefix of the items); a consumer that stops "
    "early has advanced the target by whole chunks",
    "buffiter parameters are integers; a non-integer chunk / factor is refused with ValueError by islice (for factor: "
    "after the first chunk has been delivered - recorded as an observation)",
    "repr/str of objects whose text contains an address, and the id-based default hash, are compared up to the address",
    "operands of one operator / comparison are of UNRELATED types: Python gives the reflected method of the right operand "
    "priority when its type is a subclass of the left operand's type that overrides it; the netref classes of a class and "
    "of its subclass are unrelated, so through two proxies the left operand's method runs first (measured every run, "
    "observations_outside_the_property) - outside the statement as modelled (DataModel.binaryOp has no subclass rule)",
    "`proxy.__class__` / isinstance(proxy, LocalClass) name the class the proxy's side finds under the target class's "
    "module and __name__: a nested or function-local class resolves to a same-named module-level class if there is one "
    "(measured every run) - the name-based class resolution of class_factory is not modelled",
    "the proxy's set of special methods is the set of CALLABLE attributes of the target's type: a type that switches a "
    "protocol off with `__contains__ = None` / `__iter__ = None` / `__hash__ = None` has no such method on its proxies, so "
    "the interpreter's fallback (e.g. `in` by iteration) runs instead of the TypeError (measured every run) - outside the "
    "statement; instance-level special methods are ignored by both",
    "handing a target over runs identity probes ON the target (get_id_pack: hasattr(obj, '____id_pack__'), getattr(obj, "
    "'__name__', None); _handle_instancecheck / _handle_inspect: hasattr(obj, '____conn__')): a target whose __getattr__ "
    "has side effects for such names sees them although direct use asks nothing (measured every run).  The generators' "
    "targets with a recording / vivifying __getattr__ (Counting, Tree) deliberately ignore names starting with `_` / `__` "
    "so that these probes do not show as state differences: the probes are admitted here, not tested",
    "operand and result values inside brine's domain (C04): an int the interpreter refuses to render (over 4300 digits) as "
    "an operand raises ValueError at the caller before the request is sent; as a result it raises after the method ran "
    "once; NaN operands are left out (identity short-cuts of containers cannot survive a copy: C03)",
    "isinstance / issubclass / __class__ queries are checked against the harness's own classes (exact local classes, "
    "compared by identity where the class is importable and by module + name otherwise); there is no second interpreter "
    "and no run with the target classes masked out of sys.modules",
]
EXPLANATION = (
    "Theorems: forwarding_faithful (for every object semantics, heap, target and in-scope forwarded operation whose "
    "attribute name the policy passes unchanged, the peer's handler applies exactly the primitive steps of the direct "
    "operation: same result / exception, same heap), denied_no_effect, sequence_equiv (any finite sequence of forwarded "
    "operations; induction), classic_permits_all (rpyc's classic mode, switches generated from a live SlaveService "
    "connection: every name, no hypothesis), all_attrs_permits / public_permits / default_permits + "
    "default_permits_operators, buffiter_all / buffiter_raising / buffiter_rejects / unguarded_truncates, the data-model "
    "layer (binary_operator_through_proxies, comparison_through_proxies, with_block_through_proxy, "
    "proxy_method_is_type_method; class_query / instancecheck_local are definitional), and obligations over tables observed "
    "on the real netref code: base_requests_are_modelled, made_methods_are_modelled, made_methods_reserve_no_keyword, "
    "no_second_attribute_request, local_names_behave_as_observed, handlers_are_modelled. PARTIAL: operator semantics "
    "beyond the data-model layer is CPython's, covered by the twin runs and fixed cases only.")

CONFIGS = {
    # rpyc's classic mode: NOT typed here - read off a connection established through the live SlaveService on first use
    # (live_classic_config); it allows every name and switches the `exposed_` prefix off
    "classic": None,
    # not a mode of rpyc's: every name allowed with the `exposed_` prefix left on (exercises the prefix logic where
    # nothing is refused)
    "all-attrs": dict(allow_all_attrs=True, allow_public_attrs=True, allow_pickle=True, allow_getattr=True,
                      allow_setattr=True, allow_delattr=True, import_custom_exceptions=True,
                      instantiate_custom_exceptions=True, instantiate_oldstyle_exceptions=True),
    "public": dict(allow_public_attrs=True, allow_setattr=True, allow_delattr=True),
    "default": dict(),
}


class _NullChannel(object):
    def send(self, data):
        pass

    def close(self):
        pass

    def fileno(self):
        return -1


def live_classic_config():
    """the switches a connection established through the live `SlaveService` ends up with, as far as they differ from
    DEFAULT_CONFIG (the caller passing no configuration)"""
    from rpyc.core import service, protocol
    conn = service.SlaveService._connect(_NullChannel(), {})
    try:
        cfg = dict((k, v) for k, v in conn._config.items() if type(v) is bool and protocol.DEFAULT_CONFIG.get(k) != v)
    finally:
        try:
            conn.close()
        except Exception:  # noqa
            pass
    return cfg


def config_dict(config_name):
    if config_name == "classic" and CONFIGS["classic"] is None:
        CONFIGS["classic"] = live_classic_config()
    return CONFIGS[config_name]


def prefix_on(config_name):
    """is the `exposed_` prefix in force under this configuration"""
    from rpyc.core.protocol import DEFAULT_CONFIG
    cfg = config_dict(config_name)
    return bool(cfg.get("allow_exposed_attrs", DEFAULT_CONFIG["allow_exposed_attrs"]) and cfg.get("exposed_prefix", DEFAULT_CONFIG["exposed_prefix"]))
ADDR = re.compile(r"0x[0-9a-fA-F]+")
KNOWN_TYPE_METHODS = "builtin-instance-proxy-has-type-methods"
KNOWN_POLICY_PROBE = "policy-probe-evaluates-attribute"
SIG_ISINSTANCE_SUBCLASS = "isinstance-subclass-through-class-proxy"
SIG_ISINSTANCE_VALUE = "isinstance-value-vs-unresolvable-class"
SIG_WITH_NO_EXIT = "with-enter-without-exit"


# ---------------------------------------------------------------------------------------------- the objects
class Vec(object):
    """user class: operator overloads (plain, reflected, in-place), comparisons, hash, container protocol, call,
    context manager, properties, one `exposed_` twin"""

    def __init__(self, xs):
        self.xs = list(xs)
        self.log = []
        self._hidden = 7
        self.tag = "t"

    def _coerce(self, o):
        if isinstance(o, Vec):
            return list(o.xs)
        if type(o) is int:
            return [o] * len(self.xs)
        if type(o) is tuple:
            return list(o)
        return None

    def _bin(self, o, f, name):
        ys = self._coerce(o)
        if ys is None or len(ys) != len(self.xs):
            return NotImplemented
        self.log.append(name)
        return Vec(f(a, b) for a, b in zip(self.xs, ys))

    def __add__(self, o):
        return self._bin(o, operator.add, "add")

    def __radd__(self, o):
        return self._bin(o, operator.add, "radd")

    def __sub__(self, o):
        return self._bin(o, operator.sub, "sub")

    def __rsub__(self, o):
        return self._bin(o, lambda a, b: b - a, "rsub")

    def __mul__(self, o):
        return self._bin(o, operator.mul, "mul")

    def __rmul__(self, o):
        return self._bin(o, operator.mul, "rmul")

    def __floordiv__(self, o):
        return self._bin(o, operator.floordiv, "floordiv")      # ZeroDivisionError for a zero

    def __and__(self, o):
        return self._bin(o, operator.and_, "and")

    def __matmul__(self, o):                                   # NOT on the safe list
        ys = self._coerce(o)
        if ys is None or len(ys) != len(self.xs):
            return NotImplemented
        return sum(a * b for a, b in zip(self.xs, ys))

    def __iadd__(self, o):
        ys = self._coerce(o)
        if ys is None or len(ys) != len(self.xs):
            return NotImplemented
        self.xs = [a + b for a, b in zip(self.xs, ys)]
        self.log.append("iadd")
        return self

    def __imul__(self, o):
        if type(o) is not int:
            return NotImplemented
        self.xs = [a * o for a in self.xs]
        self.log.append("imul")
        return self

    def __neg__(self):
        return Vec(-a for a in self.xs)

    def __abs__(self):
        return sum(abs(a) for a in self.xs)

    def __invert__(self):
        return Vec(~a for a in self.xs)

    def __eq__(self, o):
        ys = self._coerce(o) if not type(o) is int else None
        if ys is None:
            return NotImplemented
        return self.xs == ys

    def __ne__(self, o):
        r = self.__eq__(o)
        return r if r is NotImplemented else not r

    def __lt__(self, o):
        ys = self._coerce(o) if not type(o) is int else None
        if ys is None:
            return NotImplemented
        return self.xs < ys

    def __le__(self, o):
        ys = self._coerce(o) if not type(o) is int else None
        if ys is None:
            return NotImplemented
        return self.xs <= ys

    def __hash__(self):
        return hash(tuple(self.xs))

    def __len__(self):
        return len(self.xs)

    def __bool__(self):
        self.log.append("bool")
        return any(self.xs)

    def __iter__(self):
        return iter(list(self.xs))

    def __contains__(self, x):
        return x in self.xs

    def __getitem__(self, i):
        r = self.xs[i]
        return Vec(r) if type(i) is slice else r

    def __setitem__(self, i, v):
        if type(i) is slice:
            self.xs[i] = list(v)
        else:
            if type(v) is not int:
                raise TypeError("ints only")
            self.xs[i] = v

    def __delitem__(self, i):
        del self.xs[i]

    def __call__(self, /, *args, **kwargs):      # positional-only: `v(self=1)` is a legal call of the target
        self.log.append("call")
        return (len(self.xs), args, tuple(sorted(kwargs.items())))

    def __enter__(self):
        self.log.append("enter")
        return self

    def __exit__(self, t, v, tb):
        self.log.append("exit:%s" % (t is None,))
        return False

    def __repr__(self):
        return "Vec(%r)" % (self.xs,)

    def __str__(self):
        return "<" + ",".join(str(a) for a in self.xs) + ">"

    def __format__(self, spec):
        return "Vec[%s]" % spec

    @property
    def norm(self):
        return sum(a * a for a in self.xs)

    @property
    def first(self):
        return self.xs[0]

    @first.setter
    def first(self, v):
        if type(v) is not int:
            raise ValueError("first must be an int")
        self.xs[0] = v

    @first.deleter
    def first(self):
        del self.xs[0]

    def scale(self, k, offset=0, *more, **kw):
        self.log.append("scale")
        self.xs = [a * k + offset for a in self.xs]
        return (len(more), tuple(sorted(kw)))

    def boom(self, cls_name="ValueError", *args):
        raise {"ValueError": ValueError, "KeyError": KeyError, "ZeroDivisionError": ZeroDivisionError,
               "StopIteration": StopIteration, "TypeError": TypeError}[cls_name](*args)

    def exposed_secret(self):
        return "exposed"

    def peer(self):
        """an object created on the target's side"""
        return Vec(reversed(self.xs))


class Counting(object):
    """attribute reads with side effects: a property that mutates and then fails, one that mutates and succeeds, and a
    `__getattr__` that records the PUBLIC names it is asked for (rpyc's own identity / policy probes look up other
    names: `____id_pack__`, `__name__`, `____conn__`, `exposed_<name>`) and then fails"""

    def __init__(self, seed):
        self.n = seed % 3
        self.asked = []
        self.m = 0

    @property
    def p(self):
        self.n += 1
        raise AttributeError("p is not available")

    @property
    def ok_p(self):
        self.m += 1
        return self.m

    @ok_p.setter
    def ok_p(self, v):
        self.m = v if type(v) is int else -1

    def __getattr__(self, name):
        if not name.startswith("_") and not name.startswith("exposed_"):
            self.asked.append(name)
        raise AttributeError(name)

    def touch(self, by=1):
        self.m += by
        return (self.n, self.m)


class Probed(object):
    """a permitted name `q` that has an `exposed_q` twin: `_check_attr` probes hasattr(obj, 'q') before the access"""

    def __init__(self):
        self.n = 0
        self.exposed_q = "twin"

    @property
    def q(self):
        self.n += 1
        return self.n


class Hooked(object):
    """a class that brings its own access hooks (`_rpyc_getattr` / `_rpyc_setattr` / `_rpyc_delattr`, as Service and
    restricted() do).  They simply delegate, so whatever the connection's configuration says, an operation through a proxy
    is the operation itself; rich comparisons and a value-based hash over mutable state"""

    def __init__(self, seed):
        self.level = seed % 5
        self.tag = "h"
        self.log = []
        self._hidden = 7

    def _rpyc_getattr(self, name):
        return getattr(self, name)

    def _rpyc_setattr(self, name, value):
        return setattr(self, name, value)

    def _rpyc_delattr(self, name):
        return delattr(self, name)

    def _key(self, o):
        if isinstance(o, Hooked):
            return o.level
        if type(o) is int:
            return o
        return None

    def __eq__(self, o):
        k = self._key(o)
        return NotImplemented if k is None else self.level == k

    def __ne__(self, o):
        k = self._key(o)
        return NotImplemented if k is None else self.level != k

    def __lt__(self, o):
        k = self._key(o)
        return NotImplemented if k is None else self.level < k

    def __le__(self, o):
        k = self._key(o)
        return NotImplemented if k is None else self.level <= k

    def __gt__(self, o):
        k = self._key(o)
        return NotImplemented if k is None else self.level > k

    def __ge__(self, o):
        k = self._key(o)
        return NotImplemented if k is None else self.level >= k

    def __hash__(self):
        return hash(("Hooked", self.level))

    @property
    def double(self):
        return 2 * self.level

    def bump(self, by=1):
        self.level += by
        self.log.append("bump")
        return self.level


class Tree(object):
    """an auto-vivifying namespace: reading ANY name that is not there creates a child node under that name and returns
    it (with the usual guard that double-underscore names are never vivified); the whole tree is the observable state"""

    def __getattr__(self, name):
        if name.startswith("__"):
            raise AttributeError(name)
        node = Tree()
        object.__setattr__(self, name, node)
        return node

    def count(self):
        return 1 + sum(v.count() for v in vars(self).values() if type(v) is Tree)

    def names(self):
        return tuple(sorted(vars(self)))


class IBase(object):
    """a small class hierarchy that can be imported by name on the proxy's side"""


class IDerived(IBase):
    pass


def local_hierarchy():
    """the same hierarchy as classes that can NOT be found by name (made inside a function)"""
    class LBase(object):
        pass

    class LDerived(LBase):
        pass
    return LBase, LDerived


class EnterOnly(object):
    """has `__enter__` but no `__exit__`: not a context manager - `with` refuses it before anything runs"""

    def __init__(self):
        self.log = []

    def __enter__(self):
        self.log.append("enter")
        return self


class CustomError(Exception):
    """a user exception class, importable by name"""


class Raiser(object):
    def fail(self, *args):
        raise CustomError(*args)


class Celsius(object):
    """knows only its own kind"""
    def __init__(self, deg):
        self.deg = deg

    def __eq__(self, o):
        return self.deg == o.deg if isinstance(o, Celsius) else NotImplemented

    def __ne__(self, o):
        return self.deg != o.deg if isinstance(o, Celsius) else NotImplemented

    def __lt__(self, o):
        return self.deg < o.deg if isinstance(o, Celsius) else NotImplemented

    def __le__(self, o):
        return self.deg <= o.deg if isinstance(o, Celsius) else NotImplemented

    __hash__ = None


class Fahrenheit(object):
    """knows its own kind AND Celsius: in `celsius == fahrenheit` only the right operand can decide"""
    def __init__(self, deg):
        self.deg = deg

    def _c(self, o):
        if isinstance(o, Fahrenheit):
            return (o.deg - 32) * 5 / 9
        if isinstance(o, Celsius):
            return o.deg
        return None

    def __eq__(self, o):
        c = self._c(o)
        return NotImplemented if c is None else abs(self._c(self) - c) < 1e-9

    def __ne__(self, o):
        c = self._c(o)
        return NotImplemented if c is None else abs(self._c(self) - c) >= 1e-9

    def __gt__(self, o):
        c = self._c(o)
        return NotImplemented if c is None else self._c(self) > c

    def __ge__(self, o):
        c = self._c(o)
        return NotImplemented if c is None else self._c(self) >= c

    __hash__ = None


class Pairs(object):
    """every public name has an `exposed_` namesake with a DIFFERENT value - attribute, method, property - so that an
    access answered by the wrong one of the two shows; the hash is value-based over mutable state (and `__eq__`
    consistent with it), so that a stale hash shows"""

    def __init__(self, seed):
        self.level = seed % 7
        self.exposed_level = 100 + seed % 7
        self._mode = "plain"
        self._emode = "exposed"
        self.log = []

    def read(self):
        self.log.append("read")
        return ("plain", self.level)

    def exposed_read(self):
        self.log.append("exposed_read")
        return ("exposed", self.exposed_level)

    def bump(self, by=1):
        self.level += by
        return self.level

    def exposed_bump(self, by=1):
        self.exposed_level += 10 * by
        return self.exposed_level

    @property
    def mode(self):
        return self._mode

    @mode.setter
    def mode(self, v):
        self._mode = "plain:%s" % (v,)

    @mode.deleter
    def mode(self):
        self._mode = "plain:deleted"

    @property
    def exposed_mode(self):
        return self._emode

    @exposed_mode.setter
    def exposed_mode(self, v):
        self._emode = "exposed:%s" % (v,)

    @exposed_mode.deleter
    def exposed_mode(self):
        self._emode = "exposed:deleted"

    def __hash__(self):
        return hash((self.level, self._mode))

    def __eq__(self, o):
        if isinstance(o, Pairs):
            return (self.level, self._mode) == (o.level, o._mode)
        if type(o) is tuple:
            return (self.level, self._mode) == o
        return NotImplemented

    def __ne__(self, o):
        r = self.__eq__(o)
        return r if r is NotImplemented else not r

    def __iadd__(self, n):
        if type(n) is not int:
            return NotImplemented
        self.level += n
        return self

    def __len__(self):
        return abs(self.level)

    def __repr__(self):
        return "Pairs(level=%r, exposed_level=%r, mode=%r, exposed_mode=%r)" % (self.level, self.exposed_level, self._mode, self._emode)


def _shape_class(variant):
    """four DIFFERENT classes that share `__module__` and `__qualname__` ("Shape", not importable by that name) but not
    their special methods: the proxy type built for one of them must not be reused for another"""
    class Base(object):
        def __init__(self, seed):
            self.items = [seed % 5, seed % 3, 7]
            self.log = []

        def describe(self):
            return (variant, len(self.items))

    if variant == "call":
        class Shape(Base):
            def __call__(self, /, *args, **kwargs):
                self.log.append("call")
                return (len(args), tuple(sorted(kwargs)))
    elif variant == "seq":
        class Shape(Base):
            def __len__(self):
                return len(self.items)

            def __iter__(self):
                return iter(list(self.items))

            def __getitem__(self, i):
                return self.items[i]

            def __contains__(self, x):
                return x in self.items
    elif variant == "ctx":
        class Shape(Base):
            def __enter__(self):
                self.log.append("enter")
                return self

            def __exit__(self, t, v, tb):
                self.log.append("exit:%s" % (t is None,))
                return False
    else:
        class Shape(Base):
            def __add__(self, o):
                if type(o) is not int:
                    return NotImplemented
                self.log.append("add")
                return [a + o for a in self.items]

            def __neg__(self):
                return [-a for a in self.items]

            def __iadd__(self, o):
                if type(o) is not int:
                    return NotImplemented
                self.items = [a + o for a in self.items]
                return self
    Shape.__qualname__ = Shape.__name__ = "Shape"
    Shape.__module__ = __name__
    return Shape


SHAPES = {"shape-call": _shape_class("call"), "shape-seq": _shape_class("seq"), "shape-ctx": _shape_class("ctx"),
          "shape-ops": _shape_class("ops")}
# what each of them is used through (drawn more often for that kind)
SHAPE_OPS = {"shape-call": ["call"], "shape-seq": ["len", "iterate", "getitem", "contains", "iterate-partial", "buffiter"],
             "shape-ctx": ["with"], "shape-ops": ["op:add", "unary:neg", "iop:iadd", "rop:add"]}


def gen_squares(n, fail_at=None):
    for i in range(n):
        if fail_at is not None and i == fail_at:
            raise ValueError("generator failed", i)
        yield i * i


KINDS = ["list", "dict", "set", "bytearray", "deque", "generator", "bytesio", "vec", "pairs", "counting",
         "shape-call", "shape-seq", "shape-ctx", "shape-ops", "hooked", "autoviv"]


def config_for(kind, config_name):
    """the configuration a sequence on a target of this kind runs under"""
    # (an auto-vivifying namespace only where the `exposed_` prefix is off - rpyc's classic mode: with the prefix on,
    # _check_attr's hasattr(obj, "exposed_" + name) probe makes it grow a node per access, the listed known finding)
    return "classic" if kind == "autoviv" else config_name


def make_object(kind, seed):
    """deterministic factory: called once for the target and once for the twin"""
    r = Rng(seed).fork("obj-" + kind)
    n = r.below(7)
    if kind == "list":
        return [r.choice([r.range(-5, 20), "s%d" % r.below(4), b"b", None, 2.5, (1, "t"), True]) for _ in range(n)]
    if kind == "intlist":
        return [r.range(-5, 20) for _ in range(n)]
    if kind == "dict":
        d = {}
        for _ in range(n):
            d[r.choice(["a", "b", "c", 1, 2, (1, 2), None, b"k"])] = r.choice([r.range(0, 9), "v", (1,), None])
        return d
    if kind == "set":
        return set(r.choice([1, 2, 3, 4, "a", "b", (1, 2), None, b"x", 2.5]) for _ in range(n))
    if kind == "bytearray":
        return bytearray(r.bytes(n))
    if kind == "deque":
        return collections.deque((r.range(0, 9) for _ in range(n)), maxlen=r.choice([None, None, 5, 8]))
    if kind == "generator":
        return gen_squares(r.below(12), fail_at=(r.below(10) if r.chance(1, 4) else None))
    if kind == "bytesio":
        return io.BytesIO(r.bytes(r.below(20)))
    if kind == "vec":
        return Vec(r.range(-4, 9) for _ in range(1 + r.below(5)))
    if kind == "pairs":
        return Pairs(r.below(1000))
    if kind == "counting":
        return Counting(r.below(1000))
    if kind == "hooked":
        return Hooked(r.below(1000))
    if kind == "autoviv":
        t = Tree()
        for nm in ["alpha", "beta", "alpha"][:r.below(4)]:
            getattr(t, nm)
        return t
    if kind in SHAPES:
        return SHAPES[kind](r.below(1000))
    raise ValueError(kind)


def mask(s):
    return ADDR.sub("0x?", s) if type(s) is str else s


def snap(o, depth=0):
    """deep, address-free description of an object's observable state"""
    from rpyc.core import brine
    if depth > 6:
        return ("deep",)
    t = type(o)
    if brine.dumpable(o):
        return ("v", valtext.canon(o))
    if t is tuple:
        return ("tuple", [snap(x, depth + 1) for x in o])
    if t is list:
        return ("list", [snap(x, depth + 1) for x in o])
    if t is dict:
        return ("dict", [(snap(k, depth + 1), snap(v, depth + 1)) for k, v in o.items()])
    if t in (set, frozenset):
        return (t.__name__, sorted(repr(snap(x, depth + 1)) for x in o))
    if t is bytearray:
        return ("bytearray", bytes(o).hex())
    if t is collections.deque:
        return ("deque", [snap(x, depth + 1) for x in o], o.maxlen)
    if t is Vec or t is Pairs or t is Counting or t is Probed or t is Hooked or t is Tree or t in SHAPES.values():
        return (t.__name__, sorted((k, repr(snap(v, depth + 1))) for k, v in vars(o).items()))
    if t is io.BytesIO:
        return ("BytesIO", True) if o.closed else ("BytesIO", False, o.getvalue().hex(), o.tell())
    if t.__name__ == "generator":
        import inspect
        st = inspect.getgeneratorstate(o)
        loc = o.gi_frame.f_locals.get("i") if o.gi_frame is not None else None
        return ("generator", st, loc)
    if t is slice:
        return ("slice", snap(o.start, depth + 1), snap(o.stop, depth + 1), snap(o.step, depth + 1))
    if callable(o):
        return ("callable", getattr(o, "__name__", t.__name__))
    if hasattr(o, "__next__"):
        return ("iterator", t.__name__)
    if t.__name__ in ("dict_keys", "dict_values", "dict_items"):
        return (t.__name__, [snap(x, depth + 1) for x in o])
    return ("obj", t.__name__)


# ---------------------------------------------------------------------------------------------- one connection
class Session(object):
    """one real connection; side B owns the objects, side A (this thread) holds proxies"""

    def __init__(self, config_name, record=False):
        import rpyc
        from simnet import Net
        from rpyc.core.netref import BaseNetref
        self.BaseNetref = BaseNetref
        self.config_name = config_name
        sess = self
        self.objs = []           # B-side objects by key

        class SideB(rpyc.Service):
            def exposed_get(self, k):
                return sess.objs[k]

        if not prefix_on(config_name):
            SideB.get = SideB.exposed_get        # no `exposed_` prefix in this configuration: the root's method by its plain name
        self.net = Net()
        self.cm = self.net.installed()
        self.cm.__enter__()
        cfg = config_dict(config_name)
        self.ca, self.cb = self.net.connect_pair(None, SideB(), dict(cfg), dict(cfg))
        self.root = self.ca.root
        self.nframes = len(self.net.frames)

    def lend(self, obj):
        """put an object on side B and return A's proxy of it"""
        self.objs.append(obj)
        return self.root.get(len(self.objs) - 1)

    def behind(self, proxy):
        """the real object a proxy refers to"""
        return self.cb._local_objects[object.__getattribute__(proxy, "____id_pack__")]

    def is_proxy(self, x):
        return issubclass(type(x), self.BaseNetref)

    def usable(self):
        try:
            return not self.ca.closed and self.ca.root.get(0) is not None
        except Exception:  # noqa
            return False

    def new_requests(self):
        """the requests side A sent since the last call: (handler, [boxed args])"""
        from rpyc.core import brine, consts
        frames = self.net.split_frames("A")
        out = []
        for who, comp, payload in frames[self._seen_a():]:
            data = zlib.decompress(payload) if comp else payload
            msg, seq, args = brine.load(data)
            if msg == consts.MSG_REQUEST:
                out.append((args[0], args[1]))
        self._count_a = len(frames)
        return out

    def _seen_a(self):
        return getattr(self, "_count_a", 0)

    def mark(self):
        self._count_a = len(self.net.split_frames("A"))

    def close(self):
        try:
            self.net.shutdown([self.ca])
        finally:
            self.cm.__exit__(None, None, None)
        return [t for t in self.net.trace if t and t[0] == "thread-exception"]


# ---------------------------------------------------------------------------------------------- (a) frame level
def name_tok(s):
    return "n" + ",".join(str(ord(c)) for c in s)


class WireCheck(object):
    """performs each kind of proxy operation once per target and decodes what went on the wire"""

    def __init__(self):
        self.lines = []      # model op lines
        self.impl = []       # decoded requests, same order
        self.descr = []

    def boxed_text(self, sess, pkg, ids):
        from rpyc.core import consts
        label, value = pkg
        if label == consts.LABEL_VALUE:
            return "V " + valtext.canon(value)
        if label == consts.LABEL_TUPLE:
            return "< " + "".join(self.boxed_text(sess, x, ids) + " " for x in value) + ">"
        key = value[2] if value[2] != 0 else value[1]
        if label == consts.LABEL_LOCAL_REF:
            return "RB%d" % ids.get(key, 999)
        if label == consts.LABEL_REMOTE_REF:
            return "RA%d" % ids.get(key, 999)
        return "?label%r" % (label,)

    def pyval_text(self, v, ids):
        """operand as the model sees it: immutable value, tuple mixing, or B-side object"""
        from rpyc.core import brine
        if brine.dumpable(v):
            return "V " + valtext.to_text(v)
        if type(v) is tuple:
            return "< " + "".join(self.pyval_text(x, ids) + " " for x in v) + ">"
        return "RB%d" % ids[id(v)]

    def run(self, ctx, c):
        import pickle
        from rpyc.utils.helpers import buffiter
        from rpyc.core import consts
        cases = 0
        for kind in ["list", "dict", "vec", "bytesio", "generator", "set", "deque", "bytearray"]:
            sess = Session("classic")
            try:
                target = {"vec": lambda: Vec([3, 1, 2]), "list": lambda: [3, 1, 2, "x"], "dict": lambda: {"a": 1, 2: "b"},
                          "generator": lambda: gen_squares(9), "bytesio": lambda: io.BytesIO(b"abc"),
                          "set": lambda: {1, 2, "a"}, "deque": lambda: collections.deque([1, 2, 3]),
                          "bytearray": lambda: bytearray(b"abc")}[kind]()
                peer = {"vec": lambda: Vec([1, 1, 1]), "list": lambda: [5], "dict": lambda: {"z": 0},
                        "generator": lambda: [7], "bytesio": lambda: [7], "set": lambda: {2, 3},
                        "deque": lambda: collections.deque([9]), "bytearray": lambda: bytearray(b"z")}[kind]()
                p = sess.lend(target)
                q = sess.lend(peer)
                ids = {id(target): 0, id(peer): 1}
                proxies = {0: p, 1: q}

                def do(label, fn, expect):
                    """expect: list of (self_is: 'T'|'P'|'*', op text); '*' = whatever object the previous step returned"""
                    sess.mark()
                    try:
                        fn()
                    except Exception:  # noqa
                        pass
                    reqs = [r for r in sess.new_requests() if r[0] not in (consts.HANDLE_DEL, consts.HANDLE_INSPECT)]
                    got = []
                    for handler, boxed in reqs:
                        label_, items = boxed
                        if label_ != consts.LABEL_TUPLE or not items:
                            got.append(("?", "req %d ?" % handler))
                            continue
                        selfpkg = items[0]
                        stext = self.boxed_text(sess, selfpkg, ids)
                        who = "T" if stext == "RB0" else "P" if stext == "RB1" else "*"
                        args = [self.boxed_text(sess, x, ids) for x in items[1:]]
                        got.append((who, "req %d %d%s" % (handler, len(args), "".join(" " + a for a in args))))
                    self.descr.append("%s:%s" % (kind, label))
                    self.lines.append(["fwd wire " + e[1] for e in expect])
                    self.impl.append((["%s" % e[0] for e in expect], got))

                A = lambda *xs: "%d%s" % (len(xs), "".join(" " + self.pyval_text(x, ids) for x in xs))
                K = lambda **kw: "%d%s" % (len(kw), "".join(" %s %s" % (name_tok(k), self.pyval_text(v, ids)) for k, v in kw.items()))
                N = name_tok
                # attribute access
                # a missing attribute is asked for ONCE (the model's wireOf): a second request would evaluate a failing
                # property / __getattr__ of the target a second time
                do("getattr missing", lambda: p.some_name, [("T", "getattr " + N("some_name"))])
                do("hasattr missing", lambda: hasattr(p, "other_name"), [("T", "getattr " + N("other_name"))])
                do("getattr", lambda: p.__hash__ and p.__init__, [])
                do("getattr present", lambda: p.__sizeof__, [("T", "getattr " + N("__sizeof__"))])
                do("getattr __doc__", lambda: p.__doc__, [("T", "getattr " + N("__doc__"))])
                do("getattr local", lambda: (p.____conn__, p.__class__, p.____refcount__),
                   [("L", "getattr " + N("____conn__")), ("L", "getattr " + N("__class__")), ("L", "getattr " + N("____refcount__"))])
                do("getattr deleted", lambda: p.__array_struct__, [("L", "getattr " + N("__array_struct__"))])
                if kind in ("vec", "list", "dict"):
                    # EVERY name of LOCAL_ATTRS, read / written / deleted on a real proxy ("M": the model says whether the
                    # netref object answers itself or ONE request goes out, and which)
                    from rpyc.core import netref as _nr
                    for nm in sorted(_nr.LOCAL_ATTRS):
                        do("getattr local-name " + nm, lambda nm=nm: getattr(p, nm), [("M", "getattr " + N(nm))])
                        if nm not in ("____conn__", "____id_pack__", "____refcount__"):
                            do("setattr local-name " + nm, lambda nm=nm: setattr(p, nm, 5), [("M", "setattr %s V I5" % N(nm))])
                            do("delattr local-name " + nm, lambda nm=nm: delattr(p, nm), [("M", "delattr " + N(nm))])
                do("setattr", lambda: setattr(p, "tag", ("v", 1)), [("T", "setattr %s %s" % (N("tag"), self.pyval_text(("v", 1), ids)))])
                do("setattr obj", lambda: setattr(p, "other", q), [("T", "setattr %s RB1" % N("other"))])
                do("delattr", lambda: delattr(p, "tag"), [("T", "delattr " + N("tag"))])
                do("dir", lambda: dir(p), [("T", "dir")])
                do("hash", lambda: hash(p), [("T", "hash")])
                do("repr", lambda: repr(p), [("T", "repr")])
                do("str", lambda: str(p), [("T", "str")])
                refl = dict(eq="eq", ne="ne", lt="gt", gt="lt", le="ge", ge="le")
                for sym, fn in (("eq", operator.eq), ("ne", operator.ne), ("lt", operator.lt), ("gt", operator.gt),
                                ("le", operator.le), ("ge", operator.ge)):
                    exp = [("T", "cmp %s RB1" % sym)]
                    # CPython: if the type's method answers NotImplemented the reflected method of the other operand
                    # is tried - the other operand is a proxy too
                    if getattr(type(target), "__%s__" % sym)(target, peer) is NotImplemented:
                        exp.append(("P", "cmp %s RB0" % refl[sym]))
                    do("cmp " + sym, lambda fn=fn: fn(p, q), exp)
                do("cmp value", lambda: p == (1, 2.5, None), [("T", "cmp eq " + self.pyval_text((1, 2.5, None), ids))])
                # explicit method call = getattr + call on the bound method
                if kind == "list":
                    do("append", lambda: p.append((1, "x")), [("T", "getattr " + N("append")), ("*", "call " + A((1, "x")) + " " + K())])
                    do("sort kw", lambda: p.sort(reverse=True), [("T", "getattr " + N("sort")), ("*", "call " + A() + " " + K(reverse=True))])
                    do("extend obj", lambda: p.extend(q), [("T", "getattr " + N("extend")), ("*", "call " + A(peer) + " " + K())])
                if kind == "vec":
                    do("call", lambda: p(1, q, a=2, b=(None, q)), [("T", "call " + A(1, peer) + " " + K(a=2, b=(None, peer)))])
                    do("method kw", lambda: p.scale(2, offset=1), [("T", "getattr " + N("scale")), ("*", "call " + A(2) + " " + K(offset=1))])
                    do("neg", lambda: -p, [("T", "method %s %s %s" % (N("__neg__"), A(), K()))])
                    do("radd", lambda: 5 + p, [("T", "method %s %s %s" % (N("__radd__"), A(5), K()))])
                    do("iadd", lambda: operator.iadd(p, q), [("T", "method %s %s %s" % (N("__iadd__"), A(peer), K()))])
                    do("matmul", lambda: p @ q, [("T", "method %s %s %s" % (N("__matmul__"), A(peer), K()))])
                    do("format", lambda: format(p, "x"), [("T", "method %s %s %s" % (N("__format__"), A("x"), K()))])
                    do("with", lambda: p.__class__.__enter__, [])
                # operators through the special method
                if kind in ("list", "vec", "bytearray", "deque"):
                    do("add", lambda: p + q, [("T", "method %s %s %s" % (N("__add__"), A(peer), K()))])
                    do("mul", lambda: p * 2, [("T", "method %s %s %s" % (N("__mul__"), A(2), K()))])
                    do("getitem", lambda: p[0], [("T", "method %s %s %s" % (N("__getitem__"), A(0), K()))])
                if kind in ("list", "vec", "bytearray"):
                    do("getslice", lambda: p[1:7:2], [("T", "method %s %s %s" % (N("__getitem__"), A(slice(1, 7, 2)), K()))])
                    do("setitem", lambda: operator.setitem(p, 0, 1), [("T", "method %s %s %s" % (N("__setitem__"), A(0, 1), K()))])
                    do("delitem", lambda: operator.delitem(p, slice(None, None, 2)), [("T", "method %s %s %s" % (N("__delitem__"), A(slice(None, None, 2)), K()))])
                if kind in ("list", "vec", "dict", "set", "deque", "bytearray"):
                    do("len", lambda: len(p), [("T", "method %s %s %s" % (N("__len__"), A(), K()))])
                    do("contains", lambda: (1, "k") in p, [("T", "method %s %s %s" % (N("__contains__"), A((1, "k")), K()))])
                    do("iter", lambda: iter(p), [("T", "method %s %s %s" % (N("__iter__"), A(), K()))])
                if kind == "dict":
                    do("getitem key", lambda: p[("a", 1)], [("T", "method %s %s %s" % (N("__getitem__"), A(("a", 1)), K()))])
                    do("setitem obj", lambda: operator.setitem(p, "k", q), [("T", "method %s %s %s" % (N("__setitem__"), A("k", peer), K()))])
                    do("ior", lambda: operator.ior(p, q), [("T", "method %s %s %s" % (N("__ior__"), A(peer), K()))])
                if kind == "set":
                    do("or", lambda: p | q, [("T", "method %s %s %s" % (N("__or__"), A(peer), K()))])
                    do("isub", lambda: operator.isub(p, q), [("T", "method %s %s %s" % (N("__isub__"), A(peer), K()))])
                if kind == "generator":
                    do("next", lambda: next(p), [("T", "method %s %s %s" % (N("__next__"), A(), K()))])
                    do("buffiter rounds", lambda: list(buffiter(p, 2, 5, 2)),
                       [("T", "method %s %s %s" % (N("__iter__"), A(), K()))]
                       + [("*", "buffiter V I%d" % k) for k in (2, 4, 5, 5)])
                if kind == "bytesio":
                    do("with", lambda: p.__enter__() and None, [("T", "getattr " + N("__enter__")), ("*", "call " + A() + " " + K())])
                    sess2_target = None
                if kind in ("vec", "bytesio"):
                    def with_block():
                        with p:
                            pass
                    do("with block", with_block, [("T", "method %s %s %s" % (N("__enter__"), A(), K())), ("T", "ctxexit V N")])
                if kind == "list":
                    do("pickle", lambda: pickle.dumps(p, 2), [("T", "reduceex V I2")])
                    do("bool", lambda: bool(p), [("T", "method %s %s %s" % (N("__len__"), A(), K()))])
                if kind == "vec":
                    do("bool", lambda: bool(p), [("T", "method %s %s %s" % (N("__bool__"), A(), K()))])
                cases += 1
            finally:
                sess.close()
        return cases


# ---------------------------------------------------------------------------------------------- (b) twin runs
class Operand(object):
    """an operand: the same immutable value for both runs, or a pair (proxy of a far-side object, its twin)"""
    __slots__ = ("for_proxy", "for_twin", "origin")

    def __init__(self, for_proxy, for_twin, origin):
        self.for_proxy, self.for_twin, self.origin = for_proxy, for_twin, origin


def imm(v):
    return Operand(v, v, "immutable")


SMALL_VALUES = [0, 1, -1, 2, 3, 7, 255, 256, -5, 2.5, -0.0, "a", "b", "s1", "", b"b", b"", None, True, False,
                (1, 2), (1, "t"), (), (None, (2,)), frozenset([1, 2]), 10 ** 30, 1j, Ellipsis, "é", b"\x00\xff"]


class OpSpec(object):
    def __init__(self, label, fn, operands=(), names=(), kinds=None, heavy=False):
        self.label, self.fn, self.operands, self.names, self.kinds = label, fn, operands, names, kinds


def build_ops():
    """the operation templates; each `fn(obj, *operands)` is applied verbatim to the proxy and to the twin"""
    O = OpSpec
    ops = []
    binops = [("add", operator.add), ("sub", operator.sub), ("mul", operator.mul), ("floordiv", operator.floordiv),
              ("and", operator.and_), ("or", operator.or_), ("xor", operator.xor), ("mod", operator.mod),
              ("truediv", operator.truediv), ("pow", operator.pow), ("lshift", operator.lshift), ("rshift", operator.rshift),
              ("divmod", divmod)]
    for nm, f in binops:
        ops.append(O("op:" + nm, lambda o, a, f=f: f(o, a), ("any",), [("get", "__%s__" % nm)]))
        ops.append(O("rop:" + nm, lambda o, a, f=f: f(a, o), ("value",), [("get", "__r%s__" % nm)]))
    for nm, f in [("iadd", operator.iadd), ("isub", operator.isub), ("imul", operator.imul), ("ior", operator.ior),
                  ("iand", operator.iand), ("ixor", operator.ixor), ("itruediv", operator.itruediv),
                  ("ifloordiv", operator.ifloordiv), ("imod", operator.imod), ("ipow", operator.ipow),
                  ("ilshift", operator.ilshift), ("irshift", operator.irshift), ("imatmul", operator.imatmul)]:
        ops.append(O("iop:" + nm, lambda o, a, f=f: f(o, a), ("any",), [("get", "__%s__" % nm)]))
    ops.append(O("matmul", lambda o, a: operator.matmul(o, a), ("any",), [("get", "__matmul__")], kinds=["vec"]))
    for nm, f in [("neg", operator.neg), ("pos", operator.pos), ("abs", abs), ("invert", operator.invert)]:
        ops.append(O("unary:" + nm, lambda o, f=f: f(o), (), [("get", "__%s__" % nm)]))
    for nm, f in [("eq", operator.eq), ("ne", operator.ne), ("lt", operator.lt), ("le", operator.le),
                  ("gt", operator.gt), ("ge", operator.ge)]:
        ops.append(O("cmp:" + nm, lambda o, a, f=f: f(o, a), ("any",), [("get", "__%s__" % nm)]))
    ops += [
        O("getitem", lambda o, i: o[i], ("index",), [("get", "__getitem__")]),
        O("getitem-slice", lambda o, s: o[s], ("slice",), [("get", "__getitem__")]),
        O("setitem", lambda o, i, v: operator.setitem(o, i, v), ("index", "value"), [("get", "__setitem__")]),
        O("setitem-slice", lambda o, s, v: operator.setitem(o, s, v), ("slice", "seq"), [("get", "__setitem__")]),
        O("delitem", lambda o, i: operator.delitem(o, i), ("index",), [("get", "__delitem__")]),
        O("delitem-slice", lambda o, s: operator.delitem(o, s), ("slice",), [("get", "__delitem__")]),
        O("contains", lambda o, v: v in o, ("value",), [("get", "__contains__")]),
        O("len", lambda o: len(o), (), [("get", "__len__")]),
        O("bool", lambda o: bool(o), (), []),
        O("str", lambda o: str(o), (), []),
        O("repr", lambda o: repr(o), (), []),
        O("hash", lambda o: hash(o), (), []),
        O("hash-mutate-hash", lambda o: hash_mutate_hash(o), (), [("get", "__iadd__")], kinds=["vec", "pairs"]),
        O("dir", lambda o: tuple(sorted(dir(o))), (), []),
        O("format", lambda o: format(o, ""), (), [("get", "__format__")]),
        # (not on a bytearray: int(bytearray) / float(bytearray) read the C-level buffer, which a proxy does not have)
        O("conv:int", lambda o: int(o), (), [("get", "__int__")], kinds=[k for k in KINDS if k != "bytearray"]),
        O("conv:float", lambda o: float(o), (), [("get", "__float__")], kinds=[k for k in KINDS if k != "bytearray"]),
        O("conv:index", lambda o: operator.index(o), (), [("get", "__index__")]),
        O("conv:round", lambda o: round(o), (), [("get", "__round__")]),
        O("reversed", lambda o: tuple(reversed(o)), (), []),
        O("next", lambda o: next(o), (), [("get", "__next__")]),
        # a proxy is copied / pickled BY VALUE (HANDLE_PICKLE, where the configuration allows it): a local equal copy
        # (not for the same-named Shape classes: they cannot be pickled by name at all)
        O("copy", lambda o: __import__("copy").copy(o), (), [], kinds=[k for k in KINDS if not k.startswith("shape-")]),
        O("pickle", lambda o: __import__("pickle").loads(__import__("pickle").dumps(o, 2)), (), [],
          kinds=[k for k in KINDS if not k.startswith("shape-")]),
        O("isinstance", lambda o: (isinstance(o, list), isinstance(o, dict), isinstance(o, (set, bytearray)),
                                   isinstance(o, collections.deque), isinstance(o, Vec), isinstance(o, io.BytesIO),
                                   isinstance(o, object)), (), []),
        O("class", lambda o: o.__class__.__name__, (), []),
        O("class-is", lambda o: o.__class__ in (list, dict, set, bytearray, collections.deque, Vec, io.BytesIO), (), []),
        O("iterate", lambda o: tuple(iter_items(o)), (), [("get", "__iter__")]),
        O("iterate-partial", lambda o: take_two(o), (), [("get", "__iter__")]),
        O("buffiter", None, ("chunk", "maxchunk", "factor"), [("get", "__iter__")]),
        O("with", lambda o: with_block(o), (), [("get", "__enter__")]),
        O("hasattr", lambda o, n: hasattr(o, n), ("attrname",), None),
        O("getattr-default", lambda o, n, d: getattr(o, n, d), ("attrname", "value"), None),
        # leaving a `with` block WITHOUT an exception spelt out, and with other falsy first operands (the handler tests
        # truthiness): all of them reach the target's __exit__ as they are
        O("exit-falsy", lambda o, v: o.__exit__(v, None, None), ("falsy",), [("get", "__exit__")], kinds=["vec", "bytesio", "shape-ctx"]),
        O("getattr", lambda o, n: getattr(o, n), ("attrname",), None),
        O("setattr", lambda o, n, v: setattr(o, n, v), ("attrname", "value"), None),
        O("delattr", lambda o, n: delattr(o, n), ("attrname",), None),
        # reading through a node that the first read may just have created
        O("getattr-chain", lambda o, a, b: getattr(getattr(o, a), b), ("attrname", "attrname"), None, kinds=["autoviv"]),
        O("method", None, ("methodcall",), None),
        O("call", lambda o, a, n, b, m: o(a, **{n: b, m: a}), ("value", "kwname", "any", "kwname"), [],
          kinds=["vec", "shape-call", "shape-seq", "shape-ctx", "shape-ops"]),
        # the same call spelt `obj.__call__(...)`
        O("call-dunder", lambda o, a, n, b: o.__call__(a, **{n: b}), ("value", "kwname", "any"), [],
          kinds=["vec", "shape-call"]),
        # a method that takes arbitrary keywords, reached through the TYPE (`type(p).update(p, **kw)`): on a proxy that
        # is the made method itself (HANDLE_CALLATTR), not attribute access followed by a call
        O("callattr-kw", lambda o, n, b, m: type(o).update(o, **{n: b, m: 1}), ("kwname", "value", "kwname"), [("get", "update")],
          kinds=["dict"]),
        O("callattr-kw", lambda o, n, b: type(o).scale(o, 2, **{n: b}), ("kwname", "smallint"), [("get", "scale")], kinds=["vec"]),
    ]
    return ops


def hash_mutate_hash(o):
    """a value-based hash must follow the target's state: hash, change what the hash depends on, hash again"""
    h1 = hash(o)
    operator.iadd(o, 1)
    return (h1, hash(o))


def iter_items(o):
    for x in o:
        yield x


def take_two(o):
    it = iter(o)
    out = []
    for _ in range(2):
        try:
            out.append(next(it))
        except StopIteration:
            out.append("<stop>")
            break
    return tuple(out)


def with_block(o):
    with o as x:
        return x is o


# methods per kind: (name, operand kinds, kwargs-names)
METHODS = {
    "list": [("append", ("value",)), ("extend", ("seqobj",)), ("insert", ("index", "value")), ("pop", ()), ("pop", ("index",)),
             ("remove", ("value",)), ("reverse", ()), ("count", ("value",)), ("index", ("value",)), ("clear", ()),
             ("copy", ()), ("sort", ()), ("sort", ("kw:reverse",))],
    "dict": [("get", ("key",)), ("get", ("key", "value")), ("pop", ("key",)), ("pop", ("key", "value")), ("setdefault", ("key", "value")),
             ("update", ("pairs",)), ("update", ("peer",)), ("keys", ()), ("values", ()), ("items", ()), ("popitem", ()), ("clear", ()),
             ("copy", ()), ("update", ("kw:x",)), ("update", ("kw:_self",)), ("update", ("kw:self", "kw:_self"))],
    "set": [("add", ("value",)), ("discard", ("value",)), ("remove", ("value",)), ("pop", ()), ("union", ("seqobj",)),
            ("update", ("seqobj",)), ("issubset", ("peer",)), ("intersection", ("peer",)), ("clear", ()), ("copy", ()),
            ("symmetric_difference_update", ("peer",))],
    "bytearray": [("append", ("byteval",)), ("extend", ("bytes",)), ("pop", ()), ("find", ("bytes",)), ("hex", ()),
                  ("reverse", ()), ("count", ("bytes",)), ("decode", ("kw:errors",)), ("upper", ()), ("split", ()),
                  ("insert", ("index", "byteval")), ("clear", ()), ("startswith", ("bytes",)), ("join", ("bytestuple",))],
    "deque": [("append", ("value",)), ("appendleft", ("value",)), ("pop", ()), ("popleft", ()), ("rotate", ("smallint",)),
              ("extend", ("seqobj",)), ("extendleft", ("seq",)), ("count", ("value",)), ("clear", ()), ("copy", ()),
              ("reverse", ()), ("remove", ("value",))],
    "generator": [("send", ("none",)), ("close", ()), ("__next__", ())],
    "bytesio": [("read", ()), ("read", ("smallint",)), ("write", ("bytes",)), ("seek", ("smallint",)), ("seek", ("smallint", "whence")),
                ("tell", ()), ("getvalue", ()), ("truncate", ("smallint",)), ("readline", ()), ("close", ()), ("readable", ()),
                ("readlines", ()), ("writelines", ("bytestuple",))],
    "vec": [("scale", ("smallint",)), ("scale", ("smallint", "kw:offset")), ("scale", ("smallint", "smallint", "value", "kw:z")),
            ("boom", ()), ("boom", ("excname", "value")), ("peer", ()), ("exposed_secret", ()), ("_coerce", ("value",))],
    "shape-call": [("describe", ())], "shape-seq": [("describe", ())], "shape-ctx": [("describe", ())], "shape-ops": [("describe", ())],
    "counting": [("touch", ()), ("touch", ("smallint",)), ("touch", ("kw:by",)), ("missing_method", ())],
    "hooked": [("bump", ()), ("bump", ("smallint",)), ("bump", ("kw:by",)), ("missing_method", ()), ("_key", ("value",))],
    "autoviv": [("count", ()), ("names", ()), ("count", ())],
    "pairs": [("read", ()), ("exposed_read", ()), ("bump", ()), ("bump", ("smallint",)), ("exposed_bump", ()),
              ("exposed_bump", ("kw:by",)), ("read", ()), ("exposed_read", ())],
}
# under the default configuration a public name that has an `exposed_` namesake is answered by the namesake - by design,
# not the same operation - so there only the `exposed_` names themselves (and names without a namesake) are used
PAIRS_DEFAULT_METHODS = [m for m in METHODS["pairs"] if m[0].startswith("exposed_")]
PAIRS_DEFAULT_ATTRS = ["exposed_level", "exposed_mode", "exposed_read", "log", "missing", "_mode"]
ATTRS = {"vec": ["xs", "log", "tag", "norm", "first", "_hidden", "missing", "new_attr", "exposed_secret", "__dict__", "__doc__"],
         "bytesio": ["closed", "missing", "mode", "name"], "generator": ["gi_running", "missing", "gi_code", "__name__"],
         "list": ["missing", "__doc__", "__len__"], "dict": ["missing", "__doc__"], "set": ["missing"], "bytearray": ["missing"],
         "deque": ["maxlen", "missing"],
         "shape-call": ["items", "log", "missing"], "shape-seq": ["items", "log", "missing"], "shape-ctx": ["items", "log", "missing"],
         "shape-ops": ["items", "log", "missing"],
         "hooked": ["level", "tag", "log", "_hidden", "missing", "double", "bump", "new_attr", "level", "__doc__"],
         "autoviv": ["alpha", "beta", "alpha", "_private", "exposed_gamma", "x", "delta"],
         "counting": ["p", "p", "ok_p", "ok_p", "missing", "other_missing", "n", "m", "asked", "touch"],
         "pairs": ["level", "exposed_level", "mode", "exposed_mode", "level", "exposed_level", "mode", "exposed_mode", "read",
                   "exposed_read", "log", "missing", "_mode"]}
CHUNKS = [-1, 0, 1, 2, 3, 10, 100]
MAXCHUNKS = [-1, 0, 1, 2, 5, 1000]
FACTORS = [0, 1, 2, 3, -2]


class Twin(object):
    """one sequence: a target behind a proxy, and its local twin"""

    def __init__(self, kind, config_name, seed):
        self.kind, self.config_name, self.seed = kind, config_name, seed
        if kind in SHAPES:
            # the other class of the same name is proxied FIRST, on a connection of its own (the proxy type built for it
            # must not be handed to this sequence's target), so that a sequence replays on its own in a fresh process
            other = sorted(SHAPES)[(sorted(SHAPES).index(kind) + 1 + seed % 3) % 4]
            s0 = Session(config_name)
            try:
                p0 = s0.lend(SHAPES[other](seed))
                outcome(lambda: p0.describe())
            finally:
                s0.close()
        self.sess = Session(config_name)
        self.target = make_object(kind, seed)
        self.twin = make_object(kind, seed)
        self.proxy = self.sess.lend(self.target)
        self.pairs = [(self.target, self.twin)]      # far-side object <-> its twin
        self.steps = []
        self.policy_records = []
        self.buff_records = []
        self.observations = collections.Counter()
        self.operand_origin = collections.Counter()

    def far_object(self, kind, seed):
        """an operand object created on the target's side"""
        obj, tw = make_object(kind, seed), make_object(kind, seed)
        p = self.sess.lend(obj)
        self.pairs.append((obj, tw))
        return Operand(p, tw, "target-side object")

    def twin_of(self, real):
        for obj, tw in self.pairs:
            if obj is real:
                return tw
        return None

    def describe(self, r, via_proxy):
        """outcome of a step, comparable across the two runs"""
        from rpyc.core import brine
        if brine.dumpable(r):
            return ("v", valtext.canon(mask(r)))
        if type(r) is tuple:
            # also what the operation templates build on the caller's side (tuple(iter), sorted dir, take_two)
            return ("tuple", [self.describe(x, via_proxy) for x in r])
        if via_proxy:
            if not self.sess.is_proxy(r):
                return ("fresh", snap(r))        # a copy made by value on the caller's side (copy / pickle of a proxy)
            real = self.sess.behind(r)
            for k, (obj, tw) in enumerate(self.pairs):
                if obj is real:
                    return ("known", k)
            return ("fresh", snap(real))
        for k, (obj, tw) in enumerate(self.pairs):
            if tw is r:
                return ("known", k)
        return ("fresh", snap(r))

    def close(self):
        return self.sess.close()


def pick_operand(tw, r, spec, length):
    k = tw.kind
    if spec == "value":
        return imm(r.choice(SMALL_VALUES) if r.chance(5, 6) else r.choice(value_pool_small()))
    if spec == "any":
        c = r.below(10)
        if c < 4:
            return imm(r.choice(SMALL_VALUES))
        if c < 6:
            return imm(r.choice([0, 1, 2, 3, -1]))
        if c < 7 and k in ("list", "vec", "deque", "bytearray"):
            return imm(tuple(r.range(0, 5) for _ in range(r.below(4))) if k != "bytearray" else r.bytes(r.below(4)))
        return tw.far_object(k if k not in ("generator", "bytesio") else "list", r.next() % 1000)
    if spec == "index":
        if k == "dict":
            return imm(r.choice(["a", "b", "c", 1, 2, (1, 2), None, b"k", "zz"]))
        return imm(r.range(-length - 1, length + 1))
    if spec == "key":
        return imm(r.choice(["a", "b", "c", 1, 2, (1, 2), None, b"k", "zz"]))
    if spec == "slice":
        f = lambda: r.choice([None, None, r.range(-length - 2, length + 2)])
        return imm(slice(f(), f(), r.choice([None, None, 1, 2, -1, -2, 3, 0])))
    if spec == "seq":
        if k == "bytearray":
            return imm(r.bytes(r.below(4)))
        return imm(tuple(r.range(0, 9) for _ in range(r.below(4))))
    if spec == "seqobj":
        if r.chance(1, 2):
            return imm(tuple(r.choice([1, 2, "a", (1, 2), None]) for _ in range(r.below(4))))
        return tw.far_object("list" if k != "set" else "set", r.next() % 1000)
    if spec == "peer":
        return tw.far_object(k, r.next() % 1000)
    if spec == "pairs":
        return imm(tuple((r.choice(["a", "q", 3]), r.below(5)) for _ in range(r.below(3))))
    if spec == "bytes":
        return imm(r.bytes(r.below(4)))
    if spec == "bytestuple":
        return imm(tuple(r.bytes(r.below(3)) for _ in range(r.below(3))))
    if spec == "byteval":
        return imm(r.choice([0, 65, 255, 256, -1, r.below(256)]))
    if spec == "smallint":
        return imm(r.range(-2, 6))
    if spec == "whence":
        return imm(r.choice([0, 1, 2, 3]))
    if spec == "none":
        return imm(None)
    if spec == "excname":
        return imm(r.choice(["ValueError", "KeyError", "ZeroDivisionError", "StopIteration", "TypeError"]))
    if spec == "falsy":
        return imm(r.choice([None, None, 0, "", (), False, 0.0, b"", frozenset()]))
    if spec == "kwname":
        # keyword names that coincide with parameter names a proxy's own methods might use
        return imm(r.choice(["x", "self", "_self", "args", "kwargs", "cls", "name", "obj", "handler", "proxy", "key", "self", "_self"]
                            + proxy_parameter_names()))
    if spec == "attrname":
        if k == "pairs" and tw.config_name == "default":
            return imm(r.choice(PAIRS_DEFAULT_ATTRS))
        return imm(r.choice(ATTRS.get(k, ["missing"])))
    if spec == "chunk":
        return imm(r.choice(CHUNKS))
    if spec == "maxchunk":
        return imm(r.choice(MAXCHUNKS))
    if spec == "factor":
        return imm(r.choice(FACTORS) if r.chance(9, 10) else r.choice([1.5, 2.0, 0.5]))
    raise ValueError(spec)


_SMALLPOOL = []


def value_pool_small():
    if not _SMALLPOOL:
        r = Rng(4242).fork("c02-values")
        while len(_SMALLPOOL) < 300:
            v = c04.gen_value(r, 2)
            # NaN is left out: `x in container` short-cuts on identity, which passing by value cannot keep (C03)
            if not c04.has_overlimit_int(v) and len(valtext.to_text(v)) < 120 and "nan" not in repr(v):
                _SMALLPOOL.append(v)
    return _SMALLPOOL


def is_builtin_instance(x):
    """an instance of one of the types netref pre-builds proxy classes for (`netref._builtin_types`): the listed known
    finding is about those only - an instance of a USER class must never show it"""
    from rpyc.core import netref
    return type(x) in netref._builtin_types


def safe_hasattr(o, n):
    """hasattr for the harness's own bookkeeping: must not disturb a twin whose attribute reads have side effects"""
    if type(o) in (Counting, Probed, Tree):
        import inspect
        try:
            inspect.getattr_static(o, n)
            return True
        except AttributeError:
            return False
    try:
        return hasattr(o, n)
    except Exception:  # noqa  (a property that raises something else: the attribute exists)
        return True


def config_allows(config_name, perm, name):
    """the attribute policy as the documentation of DEFAULT_CONFIG states it (for names without an `exposed_` twin):
    used only to decide whether `hasattr` / `getattr(.., default)` - which swallow the refusal - are performed"""
    if config_name in ("classic", "all-attrs"):
        return True
    from rpyc.core.protocol import DEFAULT_CONFIG
    if perm != "get" and config_name == "default":
        return False
    if name.startswith(DEFAULT_CONFIG["exposed_prefix"]) or name in DEFAULT_CONFIG["safe_attrs"]:
        return True
    return config_name == "public" and not name.startswith("_")


def merged_config(config_name):
    from rpyc.core.protocol import DEFAULT_CONFIG
    cfg = dict(DEFAULT_CONFIG)
    cfg.update(config_dict(config_name))
    return cfg


def policy_allows(config_name, perm, name, obj=None):
    """the attribute policy as DEFAULT_CONFIG documents it (kind of access, the four name rules, the `exposed_` namesake)"""
    cfg = merged_config(config_name)
    if not cfg[{"get": "allow_getattr", "set": "allow_setattr", "del": "allow_delattr"}[perm]]:
        return False
    prefix = cfg["allow_exposed_attrs"] and cfg["exposed_prefix"]
    plain = cfg["allow_all_attrs"] or bool(prefix and name.startswith(prefix)) or (cfg["allow_safe_attrs"] and name in cfg["safe_attrs"]) \
        or (cfg["allow_public_attrs"] and not name.startswith("_"))
    return bool(plain or (prefix and obj is not None and safe_hasattr(obj, prefix + name)))


def is_policy_denial(ex, config_name=None, perm=None, name=None, obj=None, pickling=False):
    """was this exception the connection's configuration refusing the operation?  Decided from the configuration and the
    exception's CLASS (AttributeError for the attribute policy, ValueError for `allow_pickle`), never from message texts:
    with the accessed name known, a refusal is an AttributeError for a name the documented policy does not allow; without
    it, any AttributeError under a configuration that refuses something"""
    cls = type(ex).__name__
    if cls == "ValueError":
        return bool(pickling) and config_name is not None and not merged_config(config_name)["allow_pickle"]
    if cls != "AttributeError":
        return False
    if config_name is None:
        return True
    if perm is None or type(name) is not str:
        cfg = merged_config(config_name)
        return not (cfg["allow_all_attrs"] and cfg["allow_getattr"] and cfg["allow_setattr"] and cfg["allow_delattr"])
    return not policy_allows(config_name, perm, name, obj)


def outcome(fn):
    try:
        return ("ok", fn()), None
    except Exception as ex:  # noqa
        return ("exc", type(ex).__name__), ex


def run_buffiter(obj, chunk, maxchunk, factor):
    from rpyc.utils.helpers import buffiter
    out = []
    try:
        for x in buffiter(obj, chunk, maxchunk, factor):
            out.append(x)
        return out, None
    except Exception as ex:  # noqa
        return out, ex


def plain_iter(obj):
    out = []
    try:
        for x in obj:
            out.append(x)
        return out, None
    except Exception as ex:  # noqa
        return out, ex


def length_of(o):
    try:
        return len(o)
    except Exception:  # noqa
        return 3


def gen_sequence(r, kind, n_ops, ops):
    """an abstract op sequence: (spec index, operand seeds); operands are materialised when the step runs"""
    seq = []
    cands = [i for i, o in enumerate(ops) if o.kinds is None or kind in o.kinds]
    # operator templates the kind's type really supports are drawn more often (the others only show that the same
    # TypeError comes back)
    t = type(make_object(kind, 0))
    supported = [i for i in cands if ops[i].names and len(ops[i].names) == 1 and ops[i].label.split(":")[0] in ("op", "rop", "iop", "unary")
                 and hasattr(t, ops[i].names[0][1])]
    for _ in range(n_ops):
        c = r.below(100)
        if supported and c >= 50 and r.chance(1, 2):
            seq.append((r.choice(supported), r.next()))
            continue
        if kind in SHAPE_OPS and c < 55:
            i = r.choice([j for j in cands if ops[j].label in SHAPE_OPS[kind]])
        elif kind in ("vec", "pairs") and c >= 92:
            i = r.choice([j for j in cands if ops[j].label in ("hash", "hash-mutate-hash")])
        elif c < 30:
            i = [j for j in cands if ops[j].label == "method"][0]
        elif c < 42:
            i = r.choice([j for j in cands if ops[j].label in ("getattr", "setattr", "delattr", "hasattr", "getattr-default", "getattr")])
        elif c < 50:
            i = r.choice([j for j in cands if ops[j].label in ("iterate", "iterate-partial", "buffiter")])
        else:
            i = r.choice(cands)
        seq.append((i, r.next()))
    return seq


def run_sequence(kind, config_name, seed, seq, ops, stop_at_first=True, skip_signatures=()):
    """returns (problems, twin) — problems: list of (step index, label, text)"""
    try:
        tw = Twin(kind, config_name, seed)
    except Exception as ex:  # noqa  (a connection that cannot even hand the target over)
        class _Empty(object):
            steps, policy_records, buff_records = [], [], []
            observations, operand_origin = collections.Counter(), collections.Counter()
        return [(0, "setup", "the target could not be handed over: %s" % type(ex).__name__, "twin:setup")], _Empty()
    problems = []
    try:
        for idx, (i, oseed) in enumerate(seq):
            spec = ops[i]
            r = Rng(oseed).fork("operands")
            length = length_of(tw.twin)
            label = spec.label
            names = spec.names
            if spec.label == "method":
                mname, margs = r.choice(METHODS[kind] if not (kind == "pairs" and config_name == "default") else PAIRS_DEFAULT_METHODS)
                operands, kwnames = [], []
                for a in margs:
                    if a.startswith("kw:"):
                        kwnames.append(a[3:])
                        operands.append(pick_operand(tw, r, "smallint" if a != "kw:errors" else "value", length))
                    else:
                        operands.append(pick_operand(tw, r, a, length))
                npos = len(operands) - len(kwnames)

                def fn(o, *xs, mname=mname, npos=npos, kwnames=kwnames):
                    return getattr(o, mname)(*xs[:npos], **dict(zip(kwnames, xs[npos:])))
                label = "method:%s/%d%s" % (mname, npos, "+kw" if kwnames else "")
                names = [("get", mname)]
            else:
                operands = [pick_operand(tw, r, s, length) for s in spec.operands]
                fn = spec.fn
                if spec.label in ("getattr", "setattr", "delattr", "hasattr", "getattr-default"):
                    names = [({"getattr": "get", "setattr": "set", "delattr": "del", "hasattr": "get", "getattr-default": "get"}[spec.label], operands[0].for_twin)]
                    label = "%s:%s" % (spec.label, operands[0].for_twin)
            for o in operands:
                tw.operand_origin[o.origin] += 1
            before = snap(tw.target)
            from rpyc.core import netref as _netref
            if spec.label in ("setattr", "delattr") and operands[0].for_twin in _netref.LOCAL_ATTRS:
                # by design (netref.LOCAL_ATTRS; the model's wireOf says `local`): the proxy object keeps these names to
                # itself, nothing is forwarded - outside "operations applied to the target"
                outcome(lambda: fn(tw.proxy, *[o.for_proxy for o in operands]))
                tw.observations["set/del of a name in netref.LOCAL_ATTRS is served by the proxy object itself (not forwarded)"] += 1
                if snap(tw.target) != before:
                    problems.append((idx, label, "a local name was written through to the target"))
                continue
            if names is not None and len(names) == 1 and type(names[0][1]) is str and prefix_on(config_name) \
                    and not safe_hasattr(tw.twin if not label.startswith("cmp:") else type(tw.twin), names[0][1]) \
                    and safe_hasattr(tw.twin if not label.startswith("cmp:") else type(tw.twin), "exposed_" + names[0][1]):
                # the name does not exist on the target but its `exposed_` namesake does: by design the access is
                # answered by the namesake (e.g. after `del p.level`, `p.level = v` writes `exposed_level`) - not the
                # operation the twin would perform; neither run performs it
                tw.observations["access to a missing name answered by its exposed_ namesake (by design, not the same operation): not performed"] += 1
                continue
            if spec.label in ("hasattr", "getattr-default") and kind != "hooked" and not config_allows(config_name, "get", operands[0].for_twin):
                # both swallow the AttributeError of a refusal: whether the target was asked at all would not show
                tw.observations["hasattr / getattr-with-default of a name the configuration refuses: not performed"] += 1
                continue
            if spec.label.startswith("rop:") and type(operands[0].for_twin) in (str, bytes):
                # `text % proxy`, `bytes + proxy`: the left operand's C implementation consults the buffer / mapping
                # slots of the right operand's TYPE, which a Python-level proxy class cannot mirror
                tw.observations["reflected operator with a str/bytes left operand (C-level buffer / mapping protocol of the proxy's type): not compared"] += 1
                continue
            stop_after = False
            if spec.label == "buffiter":
                chunk, maxchunk, factor = [o.for_twin for o in operands]
                got_p, ex_p = run_buffiter(tw.proxy, chunk, maxchunk, factor)
                denied = ex_p is not None and kind != "hooked" and is_policy_denial(ex_p, config_name, "get", "__iter__", tw.twin)
                integer = all(type(x) is int for x in (chunk, maxchunk, factor))
                label = "buffiter:%s" % ("valid" if integer and factor >= 1 and chunk >= 1 and maxchunk >= 1 else "refused" if integer else "non-integer")
                if denied:
                    res_p, res_t = ("exc", "AttributeError"), None
                elif integer and factor >= 1 and chunk >= 1 and maxchunk >= 1:
                    got_t, ex_t = plain_iter(tw.twin)
                    dp = [tw.describe(x, True) for x in got_p]
                    dt = [tw.describe(x, False) for x in got_t]
                    if ex_t is None:
                        res_t = ("ok", dt)
                        res_p = ("ok", dp) if ex_p is None else ("exc", type(ex_p).__name__)
                    else:
                        # an iterator that raises: same exception class; the delivered items are a prefix
                        res_t = ("exc", type(ex_t).__name__, "prefix")
                        res_p = ("exc", type(ex_p).__name__ if ex_p is not None else "no exception", "prefix" if dp == dt[:len(dp)] else "not a prefix")
                        if len(dp) < len(dt):
                            tw.observations["buffiter over a raising iterator: the items of the failing chunk are not delivered"] += 1
                    if kind in ("list", "generator", "deque", "set", "dict", "bytearray") and (ex_t is None or type(ex_t).__name__ == "ValueError"):
                        tw.buff_records.append((chunk, maxchunk, factor, len(got_t), type(ex_t).__name__ if ex_t is not None else None,
                                                ("ok", len(got_p), type(ex_p).__name__ if ex_p is not None else None)))
                elif integer and ex_p is None:
                    # parameters below 1 accepted after all (clamped): then every item must arrive, as in plain iteration
                    got_t, ex_t = plain_iter(tw.twin)
                    res_p = ("ok", [tw.describe(x, True) for x in got_p])
                    res_t = ("ok", [tw.describe(x, False) for x in got_t]) if ex_t is None else ("exc", type(ex_t).__name__)
                    tw.observations["buffiter with a parameter below 1 iterated instead of refusing (acceptable if complete)"] += 1
                    tw.buff_records.append((chunk, maxchunk, factor, 0, None, ("err", None)))
                elif integer:
                    # refused parameters: ValueError before anything is delivered or consumed (the twin is not touched)
                    res_t = ("exc", "ValueError")
                    res_p = ("exc", type(ex_p).__name__) if ex_p is not None and not got_p else \
                        ("exc", "%d items delivered, then %s" % (len(got_p), type(ex_p).__name__ if ex_p is not None else "a normal end"))
                    tw.buff_records.append((chunk, maxchunk, factor, 0, None, ("err", res_p[1])))
                else:
                    # a non-integer parameter: outside the model; islice refuses a non-integer count - for `factor` only
                    # from the second round on, and not at all when max_chunk caps the product
                    if ex_p is None or type(ex_p).__name__ != "ValueError":
                        # accepted after all, or the target is not iterable at all: what plain iteration gives
                        got_t, ex_t = plain_iter(tw.twin)
                        res_p = ("ok", [tw.describe(x, True) for x in got_p]) if ex_p is None else ("exc", type(ex_p).__name__)
                        res_t = ("ok", [tw.describe(x, False) for x in got_t]) if ex_t is None else ("exc", type(ex_t).__name__)
                    else:
                        res_t = ("exc", "ValueError")
                        res_p = ("exc", type(ex_p).__name__)
                        if got_p:
                            tw.observations["non-integer factor: refused by islice only after the first chunk was delivered"] += 1
                        stop_after = True      # the target may have been advanced by that chunk: the twin cannot follow
            else:
                (kind_p, val_p), ex_p = outcome(lambda: fn(tw.proxy, *[o.for_proxy for o in operands]))
                one = names[0] if names is not None and len(names) == 1 and type(names[0][1]) is str else (None, None)
                hooks_answer = kind == "hooked" and not label.startswith("cmp:")     # its own hooks decide, and they delegate
                denied = ex_p is not None and is_policy_denial(
                    ex_p, config_name, one[0], one[1], type(tw.twin) if label.startswith("cmp:") else tw.twin,
                    pickling=spec.label in ("copy", "pickle")) and not (hooks_answer and type(ex_p).__name__ == "AttributeError")
                if denied:
                    res_p, res_t = ("exc", "AttributeError"), None
                else:
                    (kind_t, val_t), ex_t = outcome(lambda: fn(tw.twin, *[o.for_twin for o in operands]))
                    res_p = (kind_p, tw.describe(val_p, True)) if kind_p == "ok" else (kind_p, val_p)
                    res_t = (kind_t, tw.describe(val_t, False)) if kind_t == "ok" else (kind_t, val_t)
                    if spec.label == "hash" and kind_p == "ok" and kind_t == "ok" and type(tw.twin).__hash__ is object.__hash__:
                        res_p = res_t = ("ok", "id-based hash")
                        tw.observations["id-based default hash compared by kind only"] += 1
                    # in-place operators may rebind the name to a new object
                    if spec.label.startswith("iop:") and kind_p == "ok" and kind_t == "ok":
                        if val_t is not tw.twin and tw.sess.is_proxy(val_p) and tw.sess.behind(val_p) is not tw.target:
                            tw.pairs.append((tw.sess.behind(val_p), val_t))
                            tw.target, tw.twin, tw.proxy = tw.sess.behind(val_p), val_t, val_p
                            tw.pairs[0], tw.pairs[-1] = tw.pairs[-1], tw.pairs[0]
            # policy record (single-name operations on objects without hooks)
            if names is not None and len(names) == 1 and config_name in CONFIGS and (kind != "hooked" or label.startswith("cmp:")):
                # (an object with `_rpyc_*attr` hooks answers for itself - not the configuration's policy, C06; a comparison
                # is looked up on its TYPE, which has no hooks)
                perm, nm = names[0]
                dunder_template = spec.label.split(":")[0] in ("op", "rop", "iop", "unary", "conv", "next", "format", "matmul", "len",
                                                              "contains", "getitem", "getitem-slice", "setitem", "setitem-slice",
                                                              "delitem", "delitem-slice", "iterate", "iterate-partial", "buffiter",
                                                              "with", "exit-falsy", "hash-mutate-hash")
                if dunder_template and not safe_hasattr(type(tw.twin), nm):
                    pass        # the target's type has no such special method: the proxy's type has none either, nothing is asked
                elif type(nm) is str and nm not in _netref.LOCAL_ATTRS:
                    tobj = tw.twin if not label.startswith("cmp:") else type(tw.twin)
                    tw.policy_records.append((config_name, perm, nm, safe_hasattr(tobj, nm), safe_hasattr(tobj, "exposed_" + nm), denied, label))
            after = snap(tw.target)
            step = dict(label=label, operands=[o.origin for o in operands], values=[repr(o.for_twin)[:80] for o in operands], proxy=res_p, twin=res_t, denied=denied)
            tw.steps.append(step)
            if denied:
                if after != before:
                    problems.append((idx, label, "refused by the policy but the target changed"))
            elif stop_after:
                if res_p != res_t:
                    problems.append((idx, label, "proxy gives %r, expected %r" % (res_p, res_t)))
            else:
                if spec.label in ("repr", "str", "format") and res_p[0] == "ok" and res_t[0] == "ok" and \
                        (kind in ("set", "dict") or "102,114,111,122,101,110,115,101,116,40" in str(res_t[1]) or ",123," in str(res_t[1])):
                    # (also: a frozenset / set / dict MEMBER of any container - "frozenset(" or "{" in the text)
                    # the text of a hash container lists its members in an order that depends on its history of
                    # collisions; members that went through the connection are equal, not identical
                    res_p, res_t = ("ok", sorted(str(res_p[1]))), ("ok", sorted(str(res_t[1])))
                if res_p != res_t:
                    involved = [tw.twin] + [o.for_twin for o in operands if o.origin == "target-side object"]
                    if label in ("op:or", "rop:or", "iop:ior") and res_p == ("exc", "AttributeError") and res_t == ("exc", "TypeError") \
                            and any(is_builtin_instance(x) for x in involved):
                        sig = KNOWN_TYPE_METHODS
                    else:
                        sig = "twin:" + label.split("/")[0]
                    problems.append((idx, label, "proxy gives %r, twin gives %r" % (res_p, res_t), sig))
                if after != snap(tw.twin):
                    state_sig = ("twin:failing-read-evaluated-twice",) if kind == "counting" else ()
                    problems.append((idx, label, "target state %r differs from twin state %r" % (after, snap(tw.twin))) + state_sig)
            if [p_ for p_ in problems if len(p_) < 4 or p_[3] not in skip_signatures] and stop_at_first:
                break
            if stop_after:
                break
        if not tw.sess.usable():
            problems.append((len(seq), "end", "the connection is not usable after the sequence"))
    finally:
        died = tw.close()
    if died:
        problems.append((len(seq), "end", "the serving side died: %r" % (died[:1],)))
    problems = [p_ if len(p_) == 4 else (p_[0], p_[1], p_[2], "twin:" + p_[1].split("/")[0].split(":")[0]) for p_ in problems]
    return problems, tw


CLASS_INSTANCE_TARGETS = {
    "Pairs": (lambda: Pairs, lambda: Pairs(5), (9,)),
    "Vec": (lambda: Vec, lambda: Vec([3, 1, 2]), ((4, 5),)),
    "Shape-seq": (lambda: SHAPES["shape-seq"], lambda: SHAPES["shape-seq"](7), (3,)),
    "Shape-ops": (lambda: SHAPES["shape-ops"], lambda: SHAPES["shape-ops"](7), (3,)),
    "Shape-ctx": (lambda: SHAPES["shape-ctx"], lambda: SHAPES["shape-ctx"](7), (3,)),
}


def class_instance_case(cls_name, order, config_name):
    """a user class K and one of its instances v fetched over ONE connection, the class first or the instance first; the
    proxy type of the one must not serve the other: construct through the class, callable() on both, isinstance,
    __class__, `|` on the instance, len / iteration where defined - each compared with the same thing done locally.
    Returns (steps, problems)."""
    get_cls, make_inst, ctor_args = CLASS_INSTANCE_TARGETS[cls_name]
    K, v, v2 = get_cls(), make_inst(), make_inst()
    sess = Session(config_name)
    steps, problems = [], []
    try:
        if order == "class-first":
            Kp = sess.lend(K)
            vp = sess.lend(v)
        else:
            vp = sess.lend(v)
            Kp = sess.lend(K)

        def show(r, via_proxy):
            from rpyc.core import brine
            if brine.dumpable(r):
                return ("v", valtext.canon(mask(r)))
            if type(r) is tuple:
                return ("tuple", [show(x, via_proxy) for x in r])
            if via_proxy:
                if not sess.is_proxy(r):
                    return ("local-object", type(r).__name__)
                real = sess.behind(r)
                return ("the class",) if real is K else ("the instance",) if real is v else ("fresh", snap(real))
            return ("the class",) if r is K else ("the instance",) if r is v2 else ("fresh", snap(r))

        checks = [
            ("callable(K)", lambda k, x: callable(k)),
            ("callable(v)", lambda k, x: callable(x)),
            ("K(*args)", lambda k, x: k(*ctor_args)),
            ("len(K(*args)) / describe", lambda k, x: (lambda w: (safe(lambda: len(w)), safe(lambda: w.describe())))(k(*ctor_args))),
            ("isinstance(v, K)", lambda k, x: isinstance(x, k)),
            ("isinstance(K(*args), K)", lambda k, x: isinstance(k(*ctor_args), k)),
            ("v.__class__ is the class", lambda k, x: same_class(x.__class__, K, sess)),
            ("K.__name__", lambda k, x: k.__name__),
            ("v | 1", lambda k, x: x | 1),
            ("1 | v", lambda k, x: 1 | x),
            ("v |= 1", lambda k, x: operator.ior(x, 1)),
            ("len(v)", lambda k, x: len(x)),
            ("tuple(v)", lambda k, x: tuple(x)),
            ("K | 1", lambda k, x: k | 1),
            ("bool(v)", lambda k, x: bool(x)),
            ("hash(K) is an int", lambda k, x: type(hash(k)) is int),
        ]
        for label, fn in checks:
            (kp, valp), exp = outcome(lambda: fn(Kp, vp))
            if exp is not None and is_policy_denial(exp, config_name):
                steps.append((label, "refused by the configuration", None))
                continue
            (kt, valt), ext = outcome(lambda: fn(K, v2))
            rp = (kp, show(valp, True)) if kp == "ok" else (kp, valp)
            rt = (kt, show(valt, False)) if kt == "ok" else (kt, valt)
            steps.append((label, str(rp)[:160], str(rt)[:160]))
            if rp != rt:
                problems.append((len(steps) - 1, label, "proxy gives %r, the same thing done locally gives %r" % (rp, rt), "twin:class-and-instance"))
        if snap(v) != snap(v2):
            problems.append((len(steps), "end", "the instance's state %r differs from its twin's %r" % (snap(v), snap(v2)), "twin:class-and-instance"))
        if not sess.usable():
            problems.append((len(steps), "end", "the connection is not usable afterwards", "twin:class-and-instance"))
    except Exception as ex:  # noqa
        problems.append((len(steps), "setup", "could not fetch the class and the instance: %s" % type(ex).__name__, "twin:class-and-instance"))
    finally:
        died = sess.close()
    if died:
        problems.append((len(steps), "end", "the serving side died: %r" % (died[:1],), "twin:class-and-instance"))
    return steps, problems


def safe(fn):
    try:
        return fn()
    except Exception as ex:  # noqa
        return "!" + type(ex).__name__


def same_class(c, K, sess):
    """`v.__class__` names the class: the class itself (importable by name), or a proxy of it"""
    if c is K:
        return True
    return sess.is_proxy(c) and sess.behind(c) is K


def class_instance_cases():
    return [(n, o, cfg) for n in sorted(CLASS_INSTANCE_TARGETS) for o in ("class-first", "instance-first") for cfg in ("classic", "all-attrs", "public")]


_KEYS = {"a": 1, "b": 2, 3: None}
COMPARISON_PAIRS = {
    # name: (left factory, right factory); each factory is called once for the far side and once for the local twin
    "set == keys (only the right knows the left)": (lambda: {"a", "b", 3}, lambda: dict(_KEYS).keys()),
    "set == other keys": (lambda: {"a", "b"}, lambda: dict(_KEYS).keys()),
    "keys == set (the left knows the right)": (lambda: dict(_KEYS).keys(), lambda: {"a", "b", 3}),
    "set == items": (lambda: {("a", 1), ("b", 2), (3, None)}, lambda: dict(_KEYS).items()),
    "items == set": (lambda: dict(_KEYS).items(), lambda: {("a", 1)}),
    "frozenset value == keys": (lambda: frozenset(["a", "b", 3]), lambda: dict(_KEYS).keys()),
    "keys == frozenset value": (lambda: dict(_KEYS).keys(), lambda: frozenset(["a", "b", 3])),
    "set == set": (lambda: {1, 2}, lambda: {2, 1}),
    "set == list": (lambda: {1, 2}, lambda: [1, 2]),
    "Celsius == Fahrenheit (only the right knows the left)": (lambda: Celsius(100), lambda: Fahrenheit(212)),
    "Celsius == other Fahrenheit": (lambda: Celsius(100), lambda: Fahrenheit(50)),
    "Fahrenheit == Celsius (the left knows the right)": (lambda: Fahrenheit(212), lambda: Celsius(100)),
    "Celsius == Celsius": (lambda: Celsius(5), lambda: Celsius(5)),
    "Celsius == value": (lambda: Celsius(5), lambda: 5),
    "Vec == Pairs (neither knows the other)": (lambda: Vec([1]), lambda: Pairs(1)),
    # a class that defines _rpyc_getattr for its INSTANCES: the comparison method is looked up on the class object
    "Hooked == Hooked (the class brings its own access hooks)": (lambda: Hooked(3), lambda: Hooked(8)),
    "Hooked == other Hooked": (lambda: Hooked(3), lambda: Hooked(4)),
    "Hooked == value": (lambda: Hooked(3), lambda: 3),
    "Hooked == Vec (neither knows the other)": (lambda: Hooked(3), lambda: Vec([3])),
}
CMP_NAMES = [("==", "eq"), ("!=", "ne"), ("<", "lt"), ("<=", "le"), (">", "gt"), (">=", "ge")]
CMP_FUNCS = [("==", operator.eq), ("!=", operator.ne), ("<", operator.lt), ("<=", operator.le), (">", operator.gt), (">=", operator.ge)]


def comparison_case(name, config_name):
    """both operands live on the target's side (an immutable operand is passed by value): the six comparisons through
    the proxies against the same expressions on twins.  Where the left operand's type answers NotImplemented the
    interpreter must still get to ask the right operand's reflected method."""
    from rpyc.core import brine
    mk_l, mk_r = COMPARISON_PAIRS[name]
    sess = Session(config_name)
    steps, problems = [], []
    try:
        far_l, far_r, tw_l, tw_r = mk_l(), mk_r(), mk_l(), mk_r()
        pl = far_l if brine.dumpable(far_l) else sess.lend(far_l)
        pr = far_r if brine.dumpable(far_r) else sess.lend(far_r)
        for sym, f in CMP_FUNCS:
            (kp, vp), exp = outcome(lambda: f(pl, pr))
            sym_name = "__%s__" % dict(CMP_NAMES)[sym]
            if exp is not None and is_policy_denial(exp, config_name, "get", sym_name, type(tw_l)):
                steps.append((sym, "refused by the configuration", None))
                continue
            (kt, vt), ext = outcome(lambda: f(tw_l, tw_r))
            rp = (kp, valtext.canon(vp) if kp == "ok" and brine.dumpable(vp) else str(vp))
            rt = (kt, valtext.canon(vt) if kt == "ok" and brine.dumpable(vt) else str(vt))
            steps.append((sym, str(rp), str(rt)))
            if rp != rt:
                problems.append((len(steps) - 1, "%s: left %s right" % (name, sym),
                                 "through the proxies %r, on the targets %r" % (rp, rt), "twin:comparison"))
        if not sess.usable():
            problems.append((len(steps), "end", "the connection is not usable afterwards", "twin:comparison"))
    except Exception as ex:  # noqa
        problems.append((len(steps), "setup", "could not set the comparison up: %s" % type(ex).__name__, "twin:comparison"))
    finally:
        died = sess.close()
    if died:
        problems.append((len(steps), "end", "the serving side died: %r" % (died[:1],), "twin:comparison"))
    return steps, problems


def exception_class_case():
    """the same user exception class raised on two connections of one process: under the default configuration it
    arrives as the stand-in named after it (configuration, C09), under the classic configuration - afterwards - it must
    arrive as the class itself"""
    steps, problems = [], []
    for config_name, want_real in (("default", False), ("public", False), ("classic", True), ("default", False), ("classic", True)):
        sess = Session(config_name)
        try:
            p = sess.lend(Raiser())
            (k, v), ex = outcome(lambda: p.fail(1, "x"))
            if ex is not None and is_policy_denial(ex, config_name, "get", "fail", None):
                # `fail` is not readable under the default configuration: call through a callable handed over instead
                f = sess.lend(Raiser().fail)
                (k, v), ex = outcome(lambda: f(1, "x"))
            got = ("exc", type(ex).__name__, isinstance(ex, CustomError), tuple(ex.args)) if ex is not None else ("ok", repr(v))
            want = ("exc", "CustomError" if want_real else "props.c02.CustomError" if got[1:2] == ("props.c02.CustomError",) else "CustomError", want_real, (1, "x"))
            if not want_real:
                # a stand-in named after the class, or - configuration permitting - the class: only the name's last part
                got_cmp = (got[0], str(got[1]).split(".")[-1]) + tuple(got[3:])
                want_cmp = ("exc", "CustomError", (1, "x"))
            else:
                got_cmp, want_cmp = got, ("exc", "CustomError", True, (1, "x"))
            steps.append((config_name, str(got), str(want_cmp)))
            if got_cmp != want_cmp:
                problems.append((len(steps) - 1, "raise CustomError(1, 'x') under %s" % config_name,
                                 "the caller sees %r, expected %r (class name, is the class itself, args)" % (got, want_cmp),
                                 "twin:exception-class"))
        except Exception as ex2:  # noqa
            problems.append((len(steps), "setup", "could not run: %s" % type(ex2).__name__, "twin:exception-class"))
        finally:
            sess.close()
    return steps, problems


def caller_side_comparison_observation():
    """one operand local, one remote (a caller-side object as operand: OUTSIDE the property's operand discipline):
    recorded, never judged"""
    sess = Session("classic")
    out = []
    try:
        c_local, f_far = Celsius(100), Fahrenheit(212)
        fp = sess.lend(f_far)
        for sym, f in CMP_FUNCS[:2]:
            for label, a, b, ta, tb in (("local Celsius %s proxy(Fahrenheit)" % sym, c_local, fp, c_local, f_far),
                                        ("proxy(Fahrenheit) %s local Celsius" % sym, fp, c_local, f_far, c_local)):
                (kp, vp), _ = outcome(lambda: f(a, b))
                (kt, vt), _ = outcome(lambda: f(ta, tb))
                out.append("%s: %s" % (label, "as on the targets" if (kp, vp) == (kt, vt) else "proxy %r, targets %r" % ((kp, vp), (kt, vt))))
    except Exception as ex:  # noqa
        out.append("could not run: %s" % type(ex).__name__)
    finally:
        sess.close()
    return out


KEYWORD_NAMES = ["_self", "self", "args", "kwargs", "name", "cls"]


def proxy_parameter_names():
    """the NAMED parameters of the functions `netref._make_method` makes, read off their signatures (see c01)"""
    from props import c01
    return c01.proxy_parameter_names()


def keyword_names():
    return KEYWORD_NAMES + [n for n in proxy_parameter_names() if n not in KEYWORD_NAMES]


def keyword_names_case(config_name):
    """every way a call with keyword arguments reaches a target through a proxy, with keyword names a proxy's own
    methods might have taken for themselves: obj(**kw), obj.__call__(**kw), a bound method of a builtin that accepts
    arbitrary keywords (dict.update), the same method through the type, and a plain function"""
    def plain(*args, **kwargs):
        return (args, tuple(sorted(kwargs.items())))
    sess = Session(config_name)
    steps, problems = [], []
    try:
        far = dict(obj=SHAPES["shape-call"](1), d={"k": 0}, f=plain)
        twin = dict(obj=SHAPES["shape-call"](1), d={"k": 0}, f=plain)
        prox = dict((k, sess.lend(v)) for k, v in far.items())
        ways = [("obj(%s=1)", lambda w, n: w["obj"](**{n: 1})),
                ("obj.__call__(%s=1)", lambda w, n: w["obj"].__call__(**{n: 1})),
                ("d.update(%s=1)", lambda w, n: w["d"].update(**{n: 1})),
                ("type(d).update(d, %s=1)", lambda w, n: type(w["d"]).update(w["d"], **{n: 1})),
                ("f(0, %s=1)", lambda w, n: w["f"](0, **{n: 1})),
                ("f(_self=1, self=2, %s=3)", lambda w, n: w["f"](**dict({"_self": 1, "self": 2}, **{n: 3})))]
        from rpyc.core import brine
        for name in keyword_names():
            for label, fn in ways:
                (kp, vp), exp = outcome(lambda: fn(prox, name))
                if exp is not None and is_policy_denial(exp, config_name):
                    steps.append((label % name, "refused by the configuration", None))
                    continue
                (kt, vt), ext = outcome(lambda: fn(twin, name))
                rp = (kp, valtext.canon(vp) if kp == "ok" and brine.dumpable(vp) else str(vp))
                rt = (kt, valtext.canon(vt) if kt == "ok" and brine.dumpable(vt) else str(vt))
                steps.append((label % name, str(rp)[:120], str(rt)[:120]))
                if rp != rt:
                    problems.append((len(steps) - 1, label % name, "through the proxy %r, on the target %r" % (rp, rt), "twin:keyword-name"))
        if snap(far["d"]) != snap(twin["d"]):
            problems.append((len(steps), "end", "the dict's state %r differs from its twin's %r" % (snap(far["d"]), snap(twin["d"])), "twin:keyword-name"))
        if not sess.usable():
            problems.append((len(steps), "end", "the connection is not usable afterwards", "twin:keyword-name"))
    except Exception as ex:  # noqa
        problems.append((len(steps), "setup", "could not run: %s" % type(ex).__name__, "twin:keyword-name"))
    finally:
        died = sess.close()
    if died:
        problems.append((len(steps), "end", "the serving side died: %r" % (died[:1],), "twin:keyword-name"))
    return steps, problems


def policy_probe_case(config_name="public"):
    """a permitted name `q` with an `exposed_q` twin: `_check_attr` probes hasattr(obj, 'q') before the access, so a
    property with a side effect runs once more than directly (listed known finding KNOWN_POLICY_PROBE)"""
    sess = Session(config_name)
    steps, problems = [], []
    try:
        far, twin = Probed(), Probed()
        p = sess.lend(far)
        (kp, vp), _ = outcome(lambda: p.q)
        (kt, vt), _ = outcome(lambda: twin.q)
        steps.append(("p.q", "%r, the property ran %d x" % ((kp, vp), far.n), "%r, the property ran %d x" % ((kt, vt), twin.n)))
        if (kp, vp, far.n) != (kt, vt, twin.n):
            problems.append((0, "p.q where exposed_q exists", "through the proxy %r and the property ran %d x, directly %r and %d x"
                             % ((kp, vp), far.n, (kt, vt), twin.n), KNOWN_POLICY_PROBE))
    except Exception as ex:  # noqa
        problems.append((0, "setup", "could not run: %s" % type(ex).__name__, "twin:policy-probe"))
    finally:
        sess.close()
    return steps, problems


ACCESS_HOOK_STEPS = {
    "hooked": (lambda: Hooked(3), [
        ("p.level", lambda o: o.level), ("p._hidden", lambda o: o._hidden), ("p.double", lambda o: o.double),
        ("p.level = 9", lambda o: setattr(o, "level", 9)), ("p.extra = 'x'", lambda o: setattr(o, "extra", "x")),
        ("p.extra", lambda o: o.extra), ("del p.extra", lambda o: delattr(o, "extra")), ("del p.missing", lambda o: delattr(o, "missing")),
        ("p.bump(by=2)", lambda o: o.bump(by=2)), ("p == 11", lambda o: o == 11), ("p != 11", lambda o: o != 11),
        ("p < 3", lambda o: o < 3), ("p >= 11", lambda o: o >= 11), ("p == 'a'", lambda o: o == "a"), ("p.missing", lambda o: o.missing),
        ("hash(p)", lambda o: hash(o) == hash(("Hooked", 11))),
    ]),
    "autoviv": (lambda: Tree(), [
        ("t.count()", lambda o: o.count()), ("t.alpha", lambda o: o.alpha), ("t.alpha.beta", lambda o: o.alpha.beta),
        ("t.names()", lambda o: o.names()), ("t.x = 5", lambda o: setattr(o, "x", 5)), ("t.x", lambda o: o.x),
        ("del t.x", lambda o: delattr(o, "x")), ("del t.never", lambda o: delattr(o, "never")), ("hasattr(t, 'gamma')", lambda o: hasattr(o, "gamma")),
        ("t._private", lambda o: o._private), ("getattr(t, 'delta', None)", lambda o: getattr(o, "delta", None)),
        ("t == t.alpha", lambda o: o == o.alpha), ("t.count()", lambda o: o.count()),
    ]),
}


def access_hooks_case(which, config_name):
    """targets whose own attribute machinery could be mistaken for rpyc's access hooks: a class that defines the
    `_rpyc_*attr` hooks (delegating), and a namespace whose __getattr__ answers every name.  Every step is done through
    the proxy and on a twin; results and the deep state of the target are compared after each step"""
    from rpyc.core import brine
    mk, todo = ACCESS_HOOK_STEPS[which]
    sess = Session(config_name)
    steps, problems = [], []

    def show(kv, via_proxy):
        k, v = kv
        if k != "ok":
            return (k, v)
        if brine.dumpable(v):
            return (k, valtext.canon(v))
        if via_proxy:
            return (k, snap(sess.behind(v))) if sess.is_proxy(v) else (k, "not a proxy: " + repr(snap(v)))
        return (k, snap(v))

    try:
        far, twin = mk(), mk()
        p = sess.lend(far)
        for text, f in todo:
            rp, exp = outcome(lambda: f(p))
            rt, ext = outcome(lambda: f(twin))
            rp, rt = show(rp, True), show(rt, False)
            sp, st = snap(far), snap(twin)
            steps.append((text, str(rp)[:200], str(rt)[:200]))
            if rp != rt:
                problems.append((len(steps) - 1, text, "through the proxy %r, on the target %r" % (rp, rt), "twin:access-hooks"))
                break
            if sp != st:
                problems.append((len(steps) - 1, text, "afterwards the target's state is %r, the twin's %r" % (sp, st), "twin:access-hooks"))
                break
        if not sess.usable():
            problems.append((len(steps), "end", "the connection is not usable afterwards", "twin:access-hooks"))
    except Exception as ex:  # noqa
        problems.append((len(steps), "setup", "could not run: %s" % type(ex).__name__, "twin:access-hooks"))
    finally:
        died = sess.close()
    if died:
        problems.append((len(steps), "end", "the serving side died: %r" % (died[:1],), "twin:access-hooks"))
    return steps, problems


def instancecheck_case(which, config_name):
    """isinstance / issubclass with a PROXY OF A CLASS as second argument, against the same question asked of the
    classes themselves: instances of the class, of a subclass, of an unrelated class, builtin hierarchies (OrderedDict
    vs dict, anything vs object), and plain values; for a hierarchy the proxy's side can import by name and one it cannot"""
    sess = Session(config_name)
    steps, problems = [], []
    try:
        Base, Derived = (IBase, IDerived) if which == "importable" else local_hierarchy()
        far = dict(Base=Base, Derived=Derived, d=Derived(), b=Base(), od=collections.OrderedDict(), lst=[1],
                   dict=dict, object=object, int=int)
        prox = dict((k, sess.lend(v)) for k, v in far.items())
        qs = [("isinstance(d, Base)", "d", "Base", "sub"), ("isinstance(d, Derived)", "d", "Derived", ""),
              ("isinstance(b, Derived)", "b", "Derived", ""), ("isinstance(b, Base)", "b", "Base", ""),
              ("isinstance(od, dict)", "od", "dict", "sub"), ("isinstance(d, object)", "d", "object", "sub"),
              ("isinstance(lst, dict)", "lst", "dict", ""), ("isinstance(od, Base)", "od", "Base", ""),
              ("isinstance(5, Base)", 5, "Base", "value"), ("isinstance('s', Derived)", "s", "Derived", "value"),
              ("isinstance(5, int)", 5, "int", "value"), ("isinstance(None, object)", None, "object", "value")]
        for text, x, cls, tag in qs:
            xp, xt = (prox[x], far[x]) if type(x) is str and x in far else (x, x)
            (kp, vp), exp = outcome(lambda: isinstance(xp, prox[cls]))
            if exp is not None and is_policy_denial(exp, config_name):
                steps.append((text, "refused by the configuration", None))
                continue
            (kt, vt), ext = outcome(lambda: isinstance(xt, far[cls]))
            steps.append((text, str((kp, vp)), str((kt, vt))))
            if (kp, vp) != (kt, vt):
                if tag == "sub" and (kp, vp, kt, vt) == ("ok", False, "ok", True):
                    sig = SIG_ISINSTANCE_SUBCLASS
                elif tag == "value" and kp == "exc" and vp == "AttributeError" and "'NoneType'" in str(exp):
                    sig = SIG_ISINSTANCE_VALUE
                else:
                    sig = "twin:instancecheck"
                problems.append((len(steps) - 1, text, "through the class proxy %r, with the class itself %r" % ((kp, vp), (kt, vt)), sig))
        (kp, vp), exp = outcome(lambda: issubclass(prox["Derived"], prox["Base"]))
        (kt, vt), ext = outcome(lambda: issubclass(far["Derived"], far["Base"]))
        steps.append(("issubclass(Derived, Base)", str((kp, vp)), str((kt, vt))))
        if (kp, vp) != (kt, vt) and not (exp is not None and is_policy_denial(exp, config_name)):
            problems.append((len(steps) - 1, "issubclass(Derived, Base)", "through the proxies %r, directly %r" % ((kp, vp), (kt, vt)), "twin:instancecheck"))
        if not sess.usable():
            problems.append((len(steps), "end", "the connection is not usable afterwards", "twin:instancecheck"))
    except Exception as ex:  # noqa
        problems.append((len(steps), "setup", "could not run: %s" % type(ex).__name__, "twin:instancecheck"))
    finally:
        died = sess.close()
    if died:
        problems.append((len(steps), "end", "the serving side died: %r" % (died[:1],), "twin:instancecheck"))
    return steps, problems


def with_no_exit_case(config_name):
    """`with proxy:` on a target that has `__enter__` but no `__exit__`: directly the `with` statement refuses the object
    before anything runs; the proxy's type always has `__exit__` (BaseNetref defines it), so through the proxy `__enter__`
    and the body run first"""
    sess = Session(config_name)
    steps, problems = [], []
    try:
        far, twin = EnterOnly(), EnterOnly()
        p = sess.lend(far)

        def block(o, log):
            with o:
                log.append("body")
        (kp, vp), exp = outcome(lambda: block(p, far.log))
        (kt, vt), ext = outcome(lambda: block(twin, twin.log))
        rp, rt = (kp, vp, list(far.log)), (kt, vt, list(twin.log))
        steps.append(("with target-with-__enter__-only: pass", str(rp), str(rt)))
        if rp != rt and not (exp is not None and is_policy_denial(exp, config_name, "get", "__exit__", twin)):
            sig = SIG_WITH_NO_EXIT if rp == ("exc", "AttributeError", ["enter", "body"]) and rt == ("exc", "TypeError", []) else "twin:with-no-exit"
            problems.append((0, "with proxy", "through the proxy %r, directly %r (outcome, exception class, what ran on the target)" % (rp, rt), sig))
        if not sess.usable():
            problems.append((1, "end", "the connection is not usable afterwards", "twin:with-no-exit"))
    except Exception as ex:  # noqa
        problems.append((len(steps), "setup", "could not run: %s" % type(ex).__name__, "twin:with-no-exit"))
    finally:
        died = sess.close()
    if died:
        problems.append((len(steps), "end", "the serving side died: %r" % (died[:1],), "twin:with-no-exit"))
    return steps, problems


def data_model_observations():
    """behaviours outside the statement as modelled (see ASSUMPTIONS), measured every run and judged by nobody"""
    out = {}
    sess = Session("classic")
    try:
        def brief(fn):
            try:
                return "%r" % (fn(),)
            except Exception as ex:  # noqa
                return "raises %s" % type(ex).__name__

        class A(object):
            def __add__(self, o):
                return "A.__add__"

            def __eq__(self, o):
                return "A.__eq__"
            __hash__ = None

        class B(A):
            def __radd__(self, o):
                return "B.__radd__"

            def __eq__(self, o):
                return "B.__eq__"
        out["subclass priority of reflected methods, B(A) overriding __radd__ / __eq__: A() + B(), A() == B()"] = \
            "through two proxies: %s, %s; directly: %s, %s" % (brief(lambda: sess.lend(A()) + sess.lend(B())), brief(lambda: sess.lend(A()) == sess.lend(B())),
                                                               brief(lambda: A() + B()), brief(lambda: A() == B()))

        class NoContains(object):
            def __iter__(self):
                return iter([1, 2, 3])
            __contains__ = None
        out["a type with `__contains__ = None` (and __iter__): 2 in obj"] = \
            "through the proxy: %s; directly: %s" % (brief(lambda: 2 in sess.lend(NoContains())), brief(lambda: 2 in NoContains()))

        class Asked(object):
            def __init__(self):
                object.__setattr__(self, "asked", [])

            def __getattr__(self, n):
                self.asked.append(n)
                raise AttributeError(n)
        a = Asked()
        sess.lend(a)
        out["names a target's __getattr__ is asked for by merely handing it over"] = repr(sorted(set(a.asked)))
        import sys as _sys
        import types as _types
        mod = _types.ModuleType("c02_observed_module")
        exec("class Config(object): pass\nclass Outer(object):\n    class Config(object): pass\n", mod.__dict__)
        _sys.modules["c02_observed_module"] = mod
        try:
            nested = mod.Outer.Config()
            out["a nested class Outer.Config next to a module-level Config: isinstance(obj, module.Config)"] = \
                "through the proxy: %s; directly: %s" % (brief(lambda: isinstance(sess.lend(nested), mod.Config)), brief(lambda: isinstance(nested, mod.Config)))
        finally:
            _sys.modules.pop("c02_observed_module", None)
        lst = []
        out["list.append(10**5000) through a proxy"] = "%s; the target then holds %d items" % (brief(lambda: sess.lend(lst).append(10 ** 5000)), len(lst))
    except Exception as ex:  # noqa
        out["data-model observations"] = "could not run: %s" % type(ex).__name__
    finally:
        sess.close()
    return out


def fixed_cases():
    """deterministic cases run every time: (kind, parameters)"""
    out = [("class_instance", list(c)) for c in class_instance_cases()]
    out += [("comparison", [n, cfg]) for n in COMPARISON_PAIRS for cfg in ("classic", "default")]
    out += [("exception_class", [])]
    out += [("keyword_names", [cfg]) for cfg in ("classic", "all-attrs", "public")]
    out += [("policy_probe", ["public"])]
    out += [("access_hooks", ["hooked", cfg]) for cfg in ("classic", "all-attrs", "public", "default")]
    out += [("access_hooks", ["autoviv", "classic"])]
    out += [("instancecheck", [which, cfg]) for which in ("importable", "local") for cfg in ("classic", "all-attrs")]
    out += [("with_no_exit", [cfg]) for cfg in ("classic", "public")]
    return out


def run_fixed(kind, params):
    if kind == "class_instance":
        return class_instance_case(*params)
    if kind == "comparison":
        return comparison_case(*params)
    if kind == "exception_class":
        return exception_class_case()
    if kind == "keyword_names":
        return keyword_names_case(*params)
    if kind == "policy_probe":
        return policy_probe_case(*params)
    if kind == "access_hooks":
        return access_hooks_case(*params)
    if kind == "instancecheck":
        return instancecheck_case(*params)
    if kind == "with_no_exit":
        return with_no_exit_case(*params)
    raise ValueError(kind)


def with_exception_probe(config_name):
    """leaving `with proxy:` WITH an exception: outside the property; must not hang, connection stays usable"""
    sess = Session(config_name)
    obs = None
    try:
        target = Vec([1, 2])
        p = sess.lend(target)
        try:
            with p:
                raise ValueError("boom", 7)
        except Exception as ex:  # noqa
            obs = "body's ValueError('boom', 7) -> caller sees %s; target's __exit__ logged %r" % (type(ex).__name__, target.log[-1:] if target.log else None)
        ok = sess.usable()
    finally:
        sess.close()
    return ok, obs


# ---------------------------------------------------------------------------------------------- correspondence
def correspondence(ctx):
    c = Corr()
    c.rule = ("(a) every kind of proxy operation on real netrefs of 8 target kinds, and get/set/del of every LOCAL_ATTRS name: decoded request frames vs the model's "
              "wireOf; (b) seeded twin runs: sequences of <= 25 operations (attribute get/set/del, method calls with "
              "positional/keyword arguments, binary / reflected / in-place / unary operators, six comparisons, indexing and "
              "slicing incl. extended slices, plain / partial / buffered iteration over chunk x max_chunk x factor grids, "
              "len/str/repr/hash/bool/dir/format, conversions, copy/pickle, isinstance/__class__, with-blocks) over 18 target "
              "kinds: list, dict, set, bytearray, deque, generator (some raising), io.BytesIO, user classes (Vec, Pairs with "
              "exposed_ namesakes, Counting with failing reads, four same-named Shape classes, Hooked with delegating "
              "_rpyc_*attr hooks) under classic (rpyc's classic mode, read off a live SlaveService connection: prefix off) / "
              "all-attrs (every name allowed, prefix on) / public / default configurations, and an auto-vivifying namespace "
              "under classic; plus fixed deterministic cases; "
              "operands only immutable values or objects created on the target's side. Model comparisons: request frames, "
              "policy decisions (checkAttr), buffiter outcomes. Non-trivial: a sequence with at least one forwarded "
              "operation; distinct = (kind, configuration, multiset of step labels x outcome kinds).")
    ops = build_ops()
    # -- (a)
    wc = WireCheck()
    try:
        wc.run(ctx, c)
    except Exception as ex:  # noqa  (a connection on which not even a proxy can be obtained)
        c.disagreements.append(dict(case=dict(wire="setup"), op="wire", impl="the wire check could not run: %s: %s" % (type(ex).__name__, str(ex)[:200]), model="-"))
    flat_lines, index = [], []
    for k, ls in enumerate(wc.lines):
        for l in ls:
            flat_lines.append(l)
            index.append(k)
    # -- (b)
    r = Rng(ctx.seed).fork("c02")
    n_seq = ctx.budget(1000, 15000)
    deadline = time.time() + ctx.budget(45, 700)
    policy_records, buff_records = [], []
    import pipeline
    known_sigs = set(k.get("signature") for k in pipeline.load_known() if k.get("property") == ID and k.get("status") == "known")
    known_hits = collections.Counter()
    observations = collections.Counter()
    origin = collections.Counter()
    nseq = 0
    for k in range(n_seq):
        if time.time() > deadline:
            break
        kind = KINDS[k % len(KINDS)]
        config_name = config_for(kind, ["classic", "all-attrs", "public", "default"][r.below(4)])
        seed = r.next() % 100000
        seq = gen_sequence(r.fork("s%d" % k), kind, 3 + r.below(23), ops)
        problems, tw = run_sequence(kind, config_name, seed, seq, ops, skip_signatures=known_sigs)
        nseq += 1
        c.evaluations += len(tw.steps)
        policy_records += tw.policy_records
        buff_records += tw.buff_records
        observations.update(tw.observations)
        origin.update(tw.operand_origin)
        forwarded = 0
        sig = collections.Counter()
        for st in tw.steps:
            lab = st["label"].split(":")[0] if not st["label"].startswith("method:") else st["label"].split("/")[0]
            out = "denied" if st["denied"] else st["proxy"][0] if st["proxy"] else "?"
            c.count("step:%s:%s" % (st["label"].split(":")[0], out))
            sig[(lab, out)] += 1
            forwarded += 1
        c.count("sequences:%s:%s" % (kind, config_name))
        c.count("sequence-length:%s" % ("1-5" if len(tw.steps) < 6 else "6-15" if len(tw.steps) < 16 else "16-25"))
        if forwarded:
            c.signatures.add("%s:%s:%s" % (kind, config_name, sorted(sig.items())))
        for (idx, label, text, sig) in problems:
            if sig in known_sigs:
                known_hits[sig] += 1
                continue
            c.disagreements.append(dict(case=dict(kind=kind, config=config_name, seed=seed, seq=[[i, s] for i, s in seq], upto=idx),
                                        op="twin:" + label, impl=text[:700], model="(proxy == twin)"))
        if len(c.samples) < 8 and k % 131 == 7:
            c.samples.append(dict(kind=kind, config=config_name, steps=[(s["label"], s["operands"], str(s["proxy"])[:80]) for s in tw.steps[:8]]))
    for (fkind, params) in fixed_cases():
        steps, problems = run_fixed(fkind, params)
        c.evaluations += len(steps)
        c.count("fixed-case:%s%s" % (fkind, (":" + ":".join(str(x) for x in params[1:])) if fkind == "class_instance" else ""), len(steps))
        c.signatures.add("fixed:%s:%s" % (fkind, ":".join(str(x) for x in params)))
        for (idx, label, text, sig) in problems:
            if sig in known_sigs:
                known_hits[sig] += 1
                continue
            c.disagreements.append(dict(case=dict(fixed=[fkind, params]), op="%s:%s" % (fkind, label), impl=text[:700], model="(proxy == twin)"))
    for k_, v_ in data_model_observations().items():
        observations["%s: %s" % (k_, v_)] += 1
    for text in caller_side_comparison_observation():
        observations["comparison with a caller-side object as operand (outside the property): " + text] += 1
    try:
        ok, obs = with_exception_probe("classic")
    except Exception as ex:  # noqa
        ok, obs = False, "probe crashed: %s" % type(ex).__name__
    observations["with-block left WITH an exception (outside the property): " + (obs or "?")] += 1
    if not ok:
        c.disagreements.append(dict(case=dict(probe="with-exception"), op="with-exception", impl="connection unusable after leaving `with proxy:` with an exception", model="usable"))
    # -- model lines
    pol_lines = []
    seen = {}
    for rec in policy_records:
        key = rec[:5]
        if key not in seen:
            seen[key] = rec
            cfg, perm, nm, hn, ht = key
            pol_lines.append("fwd policy %s %s %s %s %s" % (cfg, perm, name_tok(nm), "T" if hn else "F", "T" if ht else "F"))
    buff_lines, buff_keys = [], {}
    for rec in buff_records:
        key = rec[:5]
        if key not in buff_keys:
            buff_keys[key] = rec
            chunk, maxchunk, factor, n, term = key
            buff_lines.append("fwd buffiter %d %d %d %d %s" % (chunk, maxchunk, factor, n, "-" if term is None else name_tok(term)))
    # the whole parameter grid on a 25-item list, model side vs implementation
    try:
        grid = grid_buffiter()
    except Exception as ex:  # noqa
        grid = []
        c.disagreements.append(dict(case=dict(buffiter="grid"), op="buffiter", impl="the grid could not run: %s" % type(ex).__name__, model="-"))
    for (chunk, maxchunk, factor, n, term, got, _complete) in grid:
        key = (chunk, maxchunk, factor, n, term)
        if key not in buff_keys:
            buff_keys[key] = (chunk, maxchunk, factor, n, term, got)
            buff_lines.append("fwd buffiter %d %d %d %d %s" % (chunk, maxchunk, factor, n, "-" if term is None else name_tok(term)))
    try:
        outs = run_driver(flat_lines + pol_lines + buff_lines, exe="drv_calls")
    except DriverError as ex:
        c.error = str(ex)
        return c
    wire_out = outs[:len(flat_lines)]
    pol_out = outs[len(flat_lines):len(flat_lines) + len(pol_lines)]
    buff_out = outs[len(flat_lines) + len(pol_lines):]
    # (a) compare
    per_case = collections.defaultdict(list)
    for k, o in zip(index, wire_out):
        per_case[k].append(o)
    for k, (whos, got) in enumerate(wc.impl):
        c.evaluations += 1
        outs_k = per_case.get(k, [])
        want = []
        for w, o in zip(whos, outs_k):
            if w == "L" or (w == "M" and o.startswith("local")):
                continue        # the model says: served by the netref object itself - no request may be seen
            want.append(("T" if w == "M" else w, canon_req(o)))
        local_ok = all(o.startswith("local") for w, o in zip(whos, outs_k) if w == "L")
        got_n = [(w, canon_req(t)) for (w, t) in got]
        same = len(want) == len(got_n) and all((ww == "*" or ww == gw) and wt == gt for (ww, wt), (gw, gt) in zip(want, got_n))
        c.count("wire:" + wc.descr[k].split(":")[1].split(" ")[0])
        c.signatures.add("wire:" + wc.descr[k])
        if not same or not local_ok:
            c.disagreements.append(dict(case=dict(wire=wc.descr[k]), op="wire", impl=repr(got_n)[:600],
                                        model=repr([(w, o) for w, o in zip(whos, outs_k)])[:600]))
    # policy compare
    for line, out in zip(pol_lines, pol_out):
        cfg, perm, nmtok, hn, ht = line.split()[2:7]
        rec = seen[[k for k in seen if "fwd policy %s %s %s %s %s" % (k[0], k[1], name_tok(k[2]), "T" if k[3] else "F", "T" if k[4] else "F") == line][0]]
        nm = rec[2]
        model_denied = out.startswith("err")
        model_renamed = out.startswith("ok") and out.split()[1] != name_tok(nm)
        c.evaluations += 1
        c.count("policy:%s:%s:%s" % (cfg, perm, "denied" if rec[5] else "allowed"))
        if model_renamed:
            observations["access answered by the exposed_ twin of the name (by design, not the same operation)"] += 1
            continue
        if model_denied != rec[5]:
            c.disagreements.append(dict(case=dict(policy=line), op="policy", impl="denied" if rec[5] else "allowed", model=out))
    # buffiter compare
    for line, out in zip(buff_lines, buff_out):
        key = [k for k in buff_keys if "fwd buffiter %d %d %d %d %s" % (k[0], k[1], k[2], k[3], "-" if k[4] is None else name_tok(k[4])) == line][0]
        got = buff_keys[key][5]
        c.evaluations += 1
        if got[0] == "err":
            want = "err " + (got[1] or "no exception")
        else:
            want = "ok %d %s" % (got[1], "-" if got[2] is None else name_tok(got[2]))
        c.count("buffiter:%s" % ("refused" if got[0] == "err" else "raising" if key[4] else "complete"))
        if out != want:
            c.disagreements.append(dict(case=dict(buffiter=line), op="buffiter", impl=want, model=out))
    for k, v in origin.items():
        c.extra.setdefault("operands_by_origin", {})[k] = v
    c.extra.setdefault("operands_by_origin", {})["caller-side mutable"] = 0
    c.extra["observations_outside_the_property"] = dict(observations)
    c.extra["sequences"] = nseq
    c.extra["known_finding_hits"] = dict(known_hits)
    c.extra["partial"] = "operator -> special method dispatch is CPython's data model: covered by the twin runs, not by the theorems"
    c.exhaustive = False
    return c


def canon_req(text):
    """`req h n PYVAL*` with values canonicalised (frozenset order)"""
    toks = text.split()
    if not toks or toks[0] != "req":
        return text
    from props.c01 import canon_pyval_tokens
    n = int(toks[2])
    i, out = 3, []
    try:
        for _ in range(n):
            s, i = canon_pyval_tokens(toks, i)
            out.append(s)
    except Exception:  # noqa
        return text
    return "req %s %d%s" % (toks[1], n, "".join(" " + x for x in out))


def grid_buffiter():
    """every (chunk, max_chunk, factor) of the grid on a 25-item list and on a raising generator, real code"""
    out = []
    sess = Session("classic")
    try:
        for chunk in CHUNKS:
            for maxchunk in MAXCHUNKS:
                for factor in FACTORS:
                    for n, fail in ((25, None), (0, None), (7, 4)):
                        if fail is None:
                            obj = list(range(n))
                            term = None
                            total = n
                        else:
                            obj = gen_squares(n, fail)
                            term = "ValueError"
                            total = fail
                        p = sess.lend(obj)
                        got, ex = run_buffiter(p, chunk, maxchunk, factor)
                        if factor >= 1 and chunk >= 1 and maxchunk >= 1:
                            res = ("ok", len(got), type(ex).__name__ if ex is not None else None)
                        else:
                            res = ("err", type(ex).__name__ if ex is not None else None) if not got else ("err", "items delivered before the refusal")
                        complete = ex is None and len(got) == total
                        out.append((chunk, maxchunk, factor, total, term, res, complete))
    finally:
        sess.close()
    return out


# ---------------------------------------------------------------------------------------------- oracle / search / replay
def oracle_sequence(kind, config_name, seed, seq, ops=None, skip=()):
    ops = ops or build_ops()
    problems, tw = run_sequence(kind, config_name, seed, [tuple(x) for x in seq], ops, skip_signatures=skip)
    return [p_ for p_ in problems if p_[3] not in skip]


def boundary_sequences(ops):
    """hand-picked sequences: every operation template once per kind under classic, buffiter corners"""
    out = []
    r = Rng(99)
    for kind in KINDS:
        cands = [i for i, o in enumerate(ops) if o.kinds is None or kind in o.kinds]
        for cfg in ("classic", "all-attrs", "public", "default"):
            seq = [(i, r.next()) for i in cands]
            out.append((kind, config_for(kind, cfg), 5, seq))
    return out


def buffiter_oracle():
    """the statement on the real code alone: for chunk>=1, max_chunk>=1, integer factor>=1 every item arrives; other
    integer parameters are either refused with ValueError before anything is delivered or - an implementation that clamps
    them - iterated completely: what must not happen is a silent end before the last item"""
    try:
        grid = grid_buffiter()
    except Exception:  # noqa
        return None
    for (chunk, maxchunk, factor, n, term, res, complete) in grid:
        if term is not None:
            continue
        if factor >= 1 and chunk >= 1 and maxchunk >= 1:
            if res != ("ok", n, None):
                return dict(kind="input", buffiter=dict(chunk=chunk, max_chunk=maxchunk, factor=factor, items=n)), \
                    "buffiter(proxy of list(range(%d)), chunk=%d, max_chunk=%d, factor=%d) delivered %r instead of all %d items" % (
                        n, chunk, maxchunk, factor, res, n), "buffiter-truncates"
        elif res != ("err", "ValueError") and not complete:
            return dict(kind="input", buffiter=dict(chunk=chunk, max_chunk=maxchunk, factor=factor, items=n)), \
                "buffiter(proxy of list(range(%d)), chunk=%d, max_chunk=%d, factor=%d): %r - neither refused with ValueError nor every item delivered" % (
                    n, chunk, maxchunk, factor, res), "buffiter-truncates"
    return None


def shrink_seq(kind, cfg, seed, seq, ops, skip=()):
    seq = list(seq)
    i = 0
    while i < len(seq) and len(seq) > 1:
        trial = seq[:i] + seq[i + 1:]
        try:
            if oracle_sequence(kind, cfg, seed, trial, ops, skip):
                seq = trial
                continue
        except Exception:  # noqa
            pass
        i += 1
    return seq


def oracle_search(ctx, corr, broken):
    deadline = time.time() + ctx.budget(60, 600)
    ops = build_ops()
    known = getattr(ctx, "known_signatures", ())
    found = buffiter_oracle()
    if found and found[2] not in known:
        return found
    for (fkind, params) in fixed_cases():
        steps, problems = run_fixed(fkind, params)
        problems = [p_ for p_ in problems if p_[3] not in known]
        if problems:
            return dict(kind="history", fixed=[fkind, params], steps=steps), \
                "%s %s: %s: %s" % (fkind, params, problems[0][1], problems[0][2][:400]), problems[0][3]
    r = Rng(ctx.seed).fork("c02-search")

    def candidates():
        for d in corr.disagreements[:60]:
            cs = d.get("case", {})
            if "seq" in cs:
                yield cs["kind"], cs["config"], cs["seed"], [tuple(x) for x in cs["seq"]]
        for b in boundary_sequences(ops):
            yield b
        k = 0
        while time.time() < deadline:
            k += 1
            kind = KINDS[k % len(KINDS)]
            yield kind, config_for(kind, ["classic", "all-attrs", "public", "default"][k % 4]), r.next() % 100000, gen_sequence(r.fork("q%d" % k), kind, 3 + r.below(23), ops)

    for kind, cfg, seed, seq in candidates():
        try:
            problems = oracle_sequence(kind, cfg, seed, seq, ops, known)
        except Exception:  # noqa
            continue
        if problems:
            upto = problems[0][0]
            seq = shrink_seq(kind, cfg, seed, list(seq[:upto + 1]), ops, known)
            problems2 = oracle_sequence(kind, cfg, seed, seq, ops, known) or problems
            sig = problems2[0][3]
            if sig in known:
                continue
            labels = describe_seq(kind, cfg, seed, seq, ops)
            return dict(kind="history", target=kind, config=cfg, seed=seed, seq=[[i, s] for i, s in seq], steps=labels), \
                "step %d (%s): %s" % (problems2[0][0], problems2[0][1], problems2[0][2][:500]), sig
    return None


def describe_seq(kind, cfg, seed, seq, ops):
    problems, tw = run_sequence(kind, cfg, seed, seq, ops, stop_at_first=False)
    return [(s["label"], s["values"], str(s["proxy"])[:120], str(s["twin"])[:120]) for s in tw.steps]


def known_probes(ctx):
    """defects of the code the check knows by signature: reproduced on the real code every run"""
    try:
        return _known_probes()
    except Exception:  # noqa  (the connection does not work at all: nothing to say about this finding)
        return []


def _known_probes():
    sess = Session("classic")
    try:
        p = sess.lend([1, 2])
        (k1, v1), _ = outcome(lambda: p | 5)
        (k2, v2), _ = outcome(lambda: [1, 2] | 5)
        differs = (k1, v1) != (k2, v2)
        text = ("`proxy_of([1, 2]) | 5` raises %s, `[1, 2] | 5` raises %s: the cached netref class of a builtin type carries "
                "the methods of the metaclass `type` (__or__, __ror__, __call__), so an unsupported `|` on a proxy of a "
                "builtin instance is forwarded and fails with AttributeError instead of TypeError" % (v1, v2))
    finally:
        sess.close()
    out = [(KNOWN_TYPE_METHODS, differs, text)]
    steps, problems = policy_probe_case("public")
    hit = [p_ for p_ in problems if p_[3] == KNOWN_POLICY_PROBE]
    # the same probes on a target with a dynamic __getattr__: while the `exposed_` prefix is on (not in classic mode), every
    # access through a proxy also looks `exposed_<name>` up on the target - an auto-vivifying namespace grows a stray node
    sess = Session("all-attrs")
    try:
        far, twin = Tree(), Tree()
        p = sess.lend(far)
        outcome(lambda: p.alpha)
        outcome(lambda: twin.alpha)
        stray = sorted(set(vars(far)) - set(vars(twin)))
    except Exception:  # noqa
        stray = None
    finally:
        sess.close()
    out.append((KNOWN_POLICY_PROBE, bool(hit) or bool(stray),
                "the policy's hasattr probes evaluate the target's attribute machinery: a permitted attribute `q` that has an "
                "`exposed_q` twin is evaluated once by _check_attr's hasattr(obj, 'q') probe and once by the access: "
                + (hit[0][2] if hit else "not reproduced")
                + "; a target with a dynamic __getattr__ sees a lookup of `exposed_<name>` on every access while the prefix is on: "
                + ("after `proxy.alpha` an auto-vivifying namespace holds %r, after `twin.alpha` only ['alpha']" % (sorted(vars(far)),)
                   if stray else "not reproduced")))
    for sig, (steps, problems), text in (
            (SIG_ISINSTANCE_SUBCLASS, instancecheck_case("local", "classic"),
             "isinstance(instance_of_a_SUBCLASS, proxy_of_the_base_class) answers False (directly True; also OrderedDict vs "
             "dict, anything vs object): Connection._handle_instancecheck answers False whenever the instance's own class is "
             "not in a cache of netref classes, instead of asking isinstance() about the object the id pack names"),
            (SIG_ISINSTANCE_VALUE, instancecheck_case("local", "classic"),
             "isinstance(value, proxy_of_a_class_that_cannot_be_imported_here) raises AttributeError: 'NoneType' object has "
             "no attribute 'instance' (directly False): BaseNetref.__instancecheck__ reads the class descriptor without "
             "checking that the class could be resolved"),
            (SIG_WITH_NO_EXIT, with_no_exit_case("classic"),
             "`with proxy:` on a target that has __enter__ but no __exit__ runs __enter__ and the body, then raises "
             "AttributeError; directly `with` raises TypeError before anything runs: BaseNetref defines __exit__ for every "
             "proxy, so the interpreter's check of the proxy's TYPE cannot see that the target's type lacks it")):
        hit = [p_ for p_ in problems if p_[3] == sig]
        out.append((sig, bool(hit), text + (": " + hit[0][1] + ": " + hit[0][2] if hit else ": not reproduced")))
    return out


def replay(case):
    out = dict(case=case)
    if "fixed" in case or "class_instance" in case:
        steps, problems = run_fixed(*case["fixed"]) if "fixed" in case else class_instance_case(*case["class_instance"])
        out["steps"] = steps
        out["oracle"] = ["%s: %s" % (p_[1], p_[2]) for p_ in problems] or "holds"
        return out
    if "buffiter" in case:
        b = case["buffiter"]
        sess = Session("classic")
        try:
            p = sess.lend(list(range(b["items"])))
            got, ex = run_buffiter(p, b["chunk"], b["max_chunk"], b["factor"])
        finally:
            sess.close()
        out["implementation"] = "%d of %d items, %s" % (len(got), b["items"], type(ex).__name__ if ex is not None else "no exception")
        try:
            out["model"] = run_driver(["fwd buffiter %d %d %d %d -" % (b["chunk"], b["max_chunk"], b["factor"], b["items"])], exe="drv_calls")[0]
        except DriverError as ex2:
            out["model"] = "driver: %s" % ex2
        return out
    ops = build_ops()
    seq = [tuple(x) for x in case["seq"]]
    problems, tw = run_sequence(case["target"], case["config"], case["seed"], seq, ops, stop_at_first=False)
    out["steps"] = [(s["label"], s["operands"], s["values"], str(s["proxy"])[:200], str(s["twin"])[:200]) for s in tw.steps]
    out["oracle"] = ["step %d (%s): %s [%s]" % p for p in problems] or "holds"
    return out
