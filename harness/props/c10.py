"""C10 — an object passed by reference lives at its owner exactly as long as the peer holds a proxy to it.

Correspondence: two real `Connection`s over the deterministic network in MANUAL mode (the harness decides when
each side serves one message) against the reference-count machine of lean/RpycModel/Box/Model.lean through
`drv_box`.  After every operation of a history the two sides are compared on: the owner's
`_local_objects._dict` (key -> stored count), the peer's live proxies and their `____refcount__`, which
proxies the peer application holds, the ready results, and the decoded contents of both in-flight queues
(message kind, references carried, release counts).  Every history ends with a closing phase (use every
held proxy, drop everything, deliver everything, close) that both sides run as ordinary operations.

Direct oracle (real code only, written from the property statement): live proxies always resolve to their
object, objects the peer can still reach stay alive although the owner's application forgot them, after the
peer dropped everything and all messages were delivered the owner's connection references none of them and
they are collectable, and closing empties both ends.
"""
import gc
import hashlib
import time
import weakref

from lineproto import run_driver, DriverError
from pipeline import Corr
from prng import Rng

ID = "C10"
LEAN_MODULE = "RpycModel.Props.C10"
NAMESPACE = "Rpyc.Props.C10"
GEN = ["Box.lean"]
DRIVERS = ["drv_box"]
TRUSTED = [
    "modelled, not verified: CPython runs a proxy's finalizer (and clears its weak cache entry) as soon as the last "
    "holder lets go — the model's `finalize` is the event 'the finalizer ran' (finalisation by the cyclic GC is not "
    "generated); `get_id_pack` is ASSUMED to be a stable injective key of a live object, also when `_handle_del` recomputes "
    "it (a proxy of another connection or an object with an `____id_pack__` attribute is keyed by foreign ids, which can "
    "collide: outside the claim); one side of a connection dispatches one message at a time (C12/C13 cover threads)",
    "harness: the peer application's sink/give/recv functions and the out-of-band hand-over of their proxies "
    "(real `_box` on one side, real `_unbox` on the other) that bootstraps a pair without a blocking round trip",
]
ASSUMPTIONS = [
    "lent objects under manual delivery: instances of builtin types (set, list, dict, function), builtin TYPE objects (list, "
    "dict) and classes created at run time; for the latter the proxy's netref class is prepared with the real "
    "get_methods/class_factory instead of the blocking HANDLE_INSPECT round trip, and one baton-mode scenario per run lends "
    "a run-time class, a builtin type and an instance with the real round trip; instances of user classes occur only there",
    "close is modelled as atomic: the harness lets the other side notice (one or two serve attempts) before comparing; "
    "the order in which the two ends reach `closed` is C11's subject",
    "one direction of lending is modelled (owner A, peer B); the other direction is the same code with roles exchanged; a "
    "message mixing hand-backs with the sender's own references, and references inside keyword arguments, occur in the "
    "baton scenarios only",
    "`_handle_instancecheck` builds a temporary netref on the SERVING side's connection that carries the id pack of one of "
    "that side's own objects; when it dies its `__del__` sends a release notice in the wrong direction (to the peer, for a "
    "key the peer's table normally does not hold: answered with KeyError to an async request nobody reads). It changes no "
    "count unless the peer's table holds the same id pack (both ends in one process and the same object lent both ways, or "
    "an address coincidence) — the key-injectivity assumption above; isinstance() between proxies is not in the histories "
    "(observed by the C07 builder on two honest ends)",
    "a message that `brine.load` cannot decode at the receiver: the receiver does not know which references it held and "
    "cannot release them (outside; the owner keeps them until close)",
    "`Connection._last_traceback` (the debugging aid that keeps the frames, hence the locals, of the last exception a handler "
    "or a failed reply raised, until the next one) is not counted as 'the connection references the object': the harness "
    "clears it before liveness checks",
    "close is atomic in the model (close_releases restates `_cleanup` clearing the tables); that the real ends get there for "
    "every way of ending — incl. a failing before_closed hook and a vanished peer — is checked on the real code after every history",
    "a nested serve() during `_unbox` (HANDLE_INSPECT of a not-yet-seen class) is modelled for a hand-back request as 'any "
    "finite sequence of machine operations between the table lookup and the handler'; on the real code it is exercised by "
    "one baton-mode scenario per run (reply form and request form), not by the manual-delivery histories",
]
EXPLANATION = ("Theorems: the counting invariant (stored+1 = references in flight + live proxy count + releases in flight; "
               "absent key = all zero; handed-back proxies in flight stay resolvable) holds initially and is preserved by "
               "every operation, hence after every finite history over send/fetch/back/finalize/deliver/close for any "
               "number of objects; corollaries alive_while_held, never_keyError, released_when_dropped, "
               "no_leak_at_quiescence, close_releases; application-level histories (hold/drop/collect) refine machine "
               "histories. The crossing race is replayed as an example. Non-atomic dispatch (a nested serve() during `_unbox`, "
               "with ANY operations in between): invariant_nested and never_keyError_nested for the order observed on the live "
               "`_unbox` (generated constant localRefsResolvedFirst), onePass_order_counterexample for the order before e881f31. "
               "Messages boxed and then refused by the serializer (sendFail / fetchBad): preserved because the registrations "
               "are taken back (generated constant failedSendReleases, failed_send_is_released), "
               "unreleased_failed_send_leaks is the counterexample for code that does not. Messages the receiver cannot unbox "
               "(splitHead j + deliveries; application-level dOfail j): preserved because a release goes out for every reference "
               "no proxy took over (generated constant failedUnboxReleases), unreleased_failed_unbox_leaks otherwise. The generated "
               "constants are decided INSIDE the named theorems: tripwires, each with a counterexample theorem for the other "
               "behaviour (uncounted_reception_leaks for 'found but not counted').")

N_OBJS = 3


_UNSENDABLE = {}


def unsendable(kind):
    """a plain value `_box` accepts and `brine.dump` refuses: an int beyond the interpreter's str() digit limit ("bad"),
    a tuple nested beyond the recursion limit ("deep")"""
    import sys
    if kind not in _UNSENDABLE:
        lim = sys.get_int_max_str_digits() if hasattr(sys, "get_int_max_str_digits") else 0
        if kind == "bad" and lim:
            _UNSENDABLE[kind] = 10 ** (lim + 10)
        else:
            v = ()
            for _ in range(sys.getrecursionlimit() * 3):
                v = (v,)
            _UNSENDABLE[kind] = v
    return _UNSENDABLE[kind]


class HarnessLayoutError(BaseException):
    """rpyc's PRIVATE bookkeeping no longer has the layout this harness reads (`_local_objects._dict`: key -> [object,
    stored count]; `_proxy_cache._dict`: key -> weak reference; a proxy's `____refcount__`).  That is a matter of the
    harness, not a finding about the property: it is raised through every `except Exception` of the harness and turned into
    an infrastructure error (exit 2) at the entry points."""


def lent_table(conn):
    """the owner's table: key -> [object, stored count]"""
    try:
        d = getattr(getattr(conn, "_local_objects"), "_dict")
    except AttributeError as ex:
        raise HarnessLayoutError("Connection. _local_objects . _dict: %s" % ex)
    if not isinstance(d, dict):
        raise HarnessLayoutError("Connection. _local_objects . _dict is a %s" % type(d).__name__)
    for v in d.values():
        if not (isinstance(v, list) and len(v) == 2 and type(v[1]) is int):
            raise HarnessLayoutError("a slot of _local_objects is %r, not [object, count]" % (type(v).__name__,))
        break
    return d


def proxy_table(conn):
    """the peer's proxy cache: key -> weak reference to the proxy"""
    try:
        d = getattr(getattr(conn, "_proxy_cache"), "_dict")
    except AttributeError as ex:
        raise HarnessLayoutError("Connection. _proxy_cache . _dict: %s" % ex)
    if not isinstance(d, dict):
        raise HarnessLayoutError("Connection. _proxy_cache . _dict is a %s" % type(d).__name__)
    return d


def refcount_of(proxy):
    """how many references a proxy stands for"""
    try:
        n = object.__getattribute__(proxy, "____refcount__")
    except AttributeError as ex:
        raise HarnessLayoutError("BaseNetref.____refcount__: %s" % ex)
    if type(n) is not int:
        raise HarnessLayoutError("BaseNetref.____refcount__ is a %s" % type(n).__name__)
    return n


def infrastructure(fn):
    """entry points of the check: a layout problem of the harness leaves as an ordinary exception (run.py: exit 2)"""
    import functools

    @functools.wraps(fn)
    def wrapper(*a, **kw):
        try:
            return fn(*a, **kw)
        except HarnessLayoutError as ex:
            raise RuntimeError("harness layout adapter: %s" % ex)
    return wrapper


class Blocked(Exception):
    """a step of the real code did not come to an end (a request nobody will ever answer)"""


def bounded(fn, seconds=20.0):
    """run fn() on a helper thread and wait at most `seconds` of wall time for it: ("ok", result), ("raised", exc) or
    ("blocked", None).  A blocked helper is abandoned (daemon thread); the deterministic network's sides are names, not
    threads, so the helper can act as side A."""
    import threading
    box = {}

    def body():
        try:
            box["ok"] = fn()
        except BaseException as ex:  # noqa
            box["raised"] = ex
    th = threading.Thread(target=body, daemon=True, name="bounded-step")
    th.start()
    th.join(seconds)
    if th.is_alive():
        return "blocked", None
    if isinstance(box.get("raised"), HarnessLayoutError):
        raise box["raised"]
    if "raised" in box:
        return "raised", box["raised"]
    return "ok", box.get("ok")


# what is lent.  The machine does not care what an object is; the code does in a few places (`get_id_pack` gives a
# class the instance id 0, `_netref_factory` takes another path for it, a finalizer could treat it differently).
KIND_MAKERS = {
    "set": lambda: {1, 2}, "list": lambda: [1, 2], "func": lambda: (lambda: 0), "dict": lambda: {"a": 1},
    "empty_list": lambda: [], "empty_dict": lambda: {}, "empty_set": lambda: set(),     # falsy on the owner's side
    "type_list": lambda: list, "type_dict": lambda: dict,            # builtin TYPE objects: id pack (name, id(cls), 0)
    "dynclass": lambda: type("Dyn", (object,), {"x": 1}),            # a class created at run time
}
IMMORTAL = ("type_list", "type_dict")                                 # builtin types never die: no liveness claim
PALETTES = {
    1: [["set"], ["type_list"], ["dynclass"], ["list"], ["func"], ["type_dict"], ["empty_list"], ["empty_set"]],
    2: [["set", "list"], ["type_list", "dynclass"], ["dynclass", "func"], ["dict", "type_dict"], ["empty_dict", "empty_set"]],
    3: [["set", "list", "func"], ["type_list", "dynclass", "set"], ["dynclass", "dict", "type_dict"],
        ["func", "type_list", "dynclass"], ["empty_list", "empty_set", "empty_dict"]],
}


def palette(n, i):
    ps = PALETTES[n]
    return ps[i % len(ps)]


# ---------------------------------------------------------------------------------------------- the real world
def flat(shape):
    """object indices of a shape in boxing order (None = a plain value)"""
    if isinstance(shape, (list, tuple)):
        out = []
        for x in shape:
            out += flat(x)
        return out
    return [] if shape is None or isinstance(shape, str) else [shape]


def has_marker(shape):
    if isinstance(shape, (list, tuple)):
        return any(has_marker(x) for x in shape)
    return isinstance(shape, str)


def to_tuple(shape):
    return tuple(to_tuple(x) for x in shape) if isinstance(shape, (list, tuple)) else shape


class World:
    """owner A and peer B, both real Connections; B's application = `held` + `results`"""

    def __init__(self, n=N_OBJS, kinds=None, class_liveness=True):
        import rpyc
        import simnet
        from rpyc.core import brine, consts, netref
        from rpyc.lib import get_id_pack
        self.brine, self.consts, self.netref = brine, consts, netref
        self.net = simnet.Net(manual=True)
        self._cm = self.net.installed()
        self._cm.__enter__()
        self.ca, self.cb = self.net.connect_pair(compress=False)
        self.n = n
        # manual delivery: nobody answers while a side waits.  A wait on an empty inbox therefore IS the time passing:
        # move the virtual clock to the wait's deadline, so that a synchronous request issued where none should be
        # (e.g. from inside `_unbox`) runs into its own timeout instead of spinning forever
        from rpyc.lib import Timeout
        clock, idle = self.net.clock, [0]

        def waited(op, stream, arg):
            if op != "poll" or stream.inbox or stream._closed or stream.peer._closed:
                idle[0] = 0
                return
            t = Timeout(arg)
            if t.finite:
                if t.tmax > clock.now:
                    clock.now = t.tmax
            else:
                idle[0] += 1
                if idle[0] > 2000:
                    idle[0] = 0
                    raise Blocked("a side waits without deadline for a message nobody will send")
        for st in self.net.streams.values():
            st.fault = waited
        self.kinds = list(kinds) if kinds else palette(n, 0)
        # a class is cyclic garbage: believing it dead takes a full collection (milliseconds); the correspondence asks for
        # that on a sample of its histories, the oracle and replays always (the table checks are made on every history)
        self.class_liveness = class_liveness
        self.objs = [KIND_MAKERS[kind]() for kind in self.kinds]
        self.ids = [id(o) for o in self.objs]
        self.packs = [get_id_pack(o) for o in self.objs]
        self.packs = [(str(p[0]), p[1], p[2]) for p in self.packs]
        self.key = {p: k for k, p in enumerate(self.packs)}
        self.wr = [None] * n
        self.forgot = False
        self.held = {}
        self.results = []          # ready AsyncResults B has not collected (in the order they became ready)
        self.kept = set()          # seqs of B's requests whose result B keeps
        self.waiting = []          # B's outstanding AsyncResults for those requests, oldest first: [seq, res, expired?]
        self.back_log = []         # identity checks recorded by A's recv
        self.closed = False
        self.err = []              # real-only observations that contradict the property
        self._qcache = {}
        w = self

        def sink(*xs):             # B: keeps every proxy it is sent
            w._hold(xs)

        def give(shape):           # A: returns its objects in the requested shape
            return w._fill(shape)

        def recv(x, k, echo):      # A: is handed its own object back
            ok = w._is_obj(x, k)
            w.back_log.append(ok)
            return x if echo else ok
        self._fns = (sink, give, recv)
        # hand-over without a round trip: real _box on the owning side, real _unbox on the other
        self.sink_p = self.ca._unbox(brine.load(brine.dump(self.cb._box(sink))))
        pg, pr = self.ca._box(give), self.ca._box(recv)
        self.give_p = self.cb._unbox(brine.load(brine.dump(pg)))
        self.recv_p = self.cb._unbox(brine.load(brine.dump(pr)))
        self.fn_packs = {(str(pg[1][0]), pg[1][1], pg[1][2]): "give", (str(pr[1][0]), pr[1][1], pr[1][2]): "recv"}
        # a proxy of a run-time class needs its netref class, which `_netref_factory` would fetch with a synchronous
        # HANDLE_INSPECT round trip; under manual delivery nothing may block, so the harness performs that exchange
        # up front with the real functions of both ends (`get_methods` = what `_handle_inspect` answers, `class_factory`
        # = what the requester builds) and leaves the result where `_netref_factory` looks for it
        from rpyc.lib import get_methods
        for k, kind in enumerate(self.kinds):
            if kind == "dynclass":
                methods = tuple(get_methods(netref.LOCAL_ATTRS, self.objs[k]))
                self.cb._netref_classes_cache[self.packs[k]] = netref.class_factory(self.packs[k], methods)

    # -- helpers used by the application functions
    def _hold(self, xs):
        if type(xs) is tuple:
            for x in xs:
                self._hold(x)
        elif isinstance(xs, self.netref.BaseNetref):
            k = self.key.get(tuple(xs.____id_pack__))
            if k is not None:
                self.held[k] = xs

    def _fill(self, shape):
        if type(shape) is tuple:
            return tuple(self._fill(x) for x in shape)
        if shape is None:
            return 5
        if shape == "bad":
            return unsendable("bad")
        if shape == "deep":
            return unsendable("deep")
        return self._obj(shape)

    def _obj(self, k):
        if self.forgot:
            raise RuntimeError("owner application forgot its objects")
        return self.objs[k]

    def _is_obj(self, x, k):
        return id(x) == self.ids[k] and not isinstance(x, self.netref.BaseNetref)

    # -- operations
    def _seq_of(self, conn, res):
        for s, cb in conn._request_callbacks.items():
            if cb is res:
                return s
        return None

    def op(self, o):
        """perform one op; returns the outcome text"""
        kind = o[0]
        c = self.consts
        try:
            if kind == "send":
                if self.closed:
                    self.ca.async_request(c.HANDLE_CALL, self.sink_p, (), ())
                    return "ok"
                self.ca.async_request(c.HANDLE_CALL, self.sink_p, self._fill(to_tuple(o[1])), ())
                return "ok"
            if kind == "sendFail":
                # a request whose value is boxed (its objects are registered) and then cannot be serialized
                try:
                    self.ca.async_request(c.HANDLE_CALL, self.sink_p, self._fill(to_tuple(o[1])), ())
                except EOFError:
                    raise
                except Exception:  # noqa
                    return "unsendable"
                return "ok"
            if kind == "fetchFail":
                # a request whose RESULT the owner will box and then not be able to send
                res = self.cb.async_request(c.HANDLE_CALL, self.give_p, (to_tuple(o[1]),), ())
                res.add_callback(self.results.append)
                self.kept.add(self._seq_of(self.cb, res))
                self.waiting.append([self._seq_of(self.cb, res), res, False])
                return "ok"
            if kind == "fetch":
                res = self.cb.async_request(c.HANDLE_CALL, self.give_p, (to_tuple(o[1]),), ())
                res.add_callback(self.results.append)
                self.kept.add(self._seq_of(self.cb, res))
                self.waiting.append([self._seq_of(self.cb, res), res, False])
                return "ok"
            if kind == "back":
                if self.closed:
                    return "closed"
                k, echo = o[1], o[2]
                if k not in self.held:
                    return "not-held"
                res = self.cb.async_request(c.HANDLE_CALL, self.recv_p, (self.held[k], k, echo), ())
                if echo:
                    res.add_callback(self.results.append)
                    self.kept.add(self._seq_of(self.cb, res))
                    self.waiting.append([self._seq_of(self.cb, res), res, False])
                return "ok"
            if kind == "drop":
                if self.closed:
                    return "closed"
                if o[1] not in self.held:
                    return "not-held"
                del self.held[o[1]]
                return "ok"
            if kind == "collect":
                if self.closed:
                    return "closed"
                if not self.results:
                    return "empty"
                res = self.results.pop(0)
                if res.error:                      # the request was answered with an exception: nothing to hold
                    return "ok"
                self._hold(res.value)
                return "ok"
            if kind == "expire":
                # the requester's AsyncResult expires before its reply is delivered (what `timed`, a `timeout=` or a sync
                # request's timeout amount to); the late reply will be dispatched and its value thrown away
                if self.closed:
                    return "closed"
                j = o[1]
                if j >= len(self.waiting) or self.waiting[j][2]:
                    return "disabled"
                self.waiting[j][1].set_expiry(0)
                self.waiting[j][2] = True
                if not self.waiting[j][1].expired:
                    self.err.append("set_expiry(0) did not expire the result")
                return "ok"
            if kind == "dOfail":
                # the peer's `_unbox` of the next message fails after j of its references (as when the class of the next
                # object cannot be inspected or the round trip times out): injected at exactly that point of the real walk
                if self.closed:
                    return "closed"
                head = (self.queue_text("B") or [""])[0].split()
                if not head or head[0] not in ("req", "reply") or (head[0] == "reply" and head[-1] != "T"):
                    return "disabled"
                nrefs = len(head) - (1 if head[0] == "req" else 2)
                j = o[1]
                if j >= nrefs:
                    return "disabled"
                orig, seen = self.cb._unbox, [0]

                def failing(package, *rest):
                    if rest and rest[0]:
                        try:
                            label = package[0]
                        except Exception:  # noqa
                            label = None
                        if label == c.LABEL_REMOTE_REF:
                            if seen[0] == j:
                                raise RuntimeError("the class of this object cannot be inspected")
                            seen[0] += 1
                    return orig(package, *rest)
                self.cb._unbox = failing
                try:
                    self.cb.poll()
                except RuntimeError:
                    pass
                finally:
                    del self.cb._unbox
                    orig = failing = None
                self.cb._last_traceback = None
                self.waiting = [w for w in self.waiting if w[0] in self.cb._request_callbacks]
                return "unreceived"
            if kind in ("dO", "dP"):
                conn = self.cb if kind == "dO" else self.ca
                mark = len(self.net.frames)
                head = (self.queue_text("A") or [""])[0] if kind == "dP" and not self.closed else ""
                served = conn.poll()
                if kind == "dO":
                    self.waiting = [w for w in self.waiting if w[0] in self.cb._request_callbacks]
                if not served:
                    return "empty"
                for who, data in self.net.frames[mark:]:
                    if who == ("B" if kind == "dO" else "A"):
                        msg = self.brine.load(data[5:-1])
                        if msg[0] == c.MSG_EXCEPTION:
                            if head.startswith("fetchbad"):
                                return "unsendable"        # the result could not be serialized: the requester is told so
                            try:
                                return str(msg[2][0][1])
                            except Exception:  # noqa
                                return "exception"
                return "ok"
            if kind == "close":
                first, second = (self.ca, self.cb) if o[1] == "A" else (self.cb, self.ca)
                if self.closed:
                    first.close()
                    return "closed"
                self.held.clear()
                del self.results[:]
                hook = o[2] if len(o) > 2 else None
                if hook:
                    # the application configured a `before_closed` hook to say goodbye: it returns ("ok"), fails on its
                    # own ("raise"), or talks to a peer that has vanished without a closing handshake ("eof")
                    calls = []
                    first._remote_root = first._remote_root or object()    # `close()` passes `self.root` to the hook
                    if hook == "eof":
                        (self.net.streams["B"] if first is self.ca else self.net.streams["A"]).close()

                    def before_closed(root, first=first, hook=hook):
                        calls.append(hook)
                        if hook == "raise":
                            raise ValueError("the hook failed")
                        if hook == "eof":
                            first.async_request(self.consts.HANDLE_PING, "bye")
                    first._config["before_closed"] = before_closed
                try:
                    first.close()
                except Exception:  # noqa  (a failing hook may surface; what was held must be released all the same)
                    pass
                if hook and not calls:
                    self.err.append("the configured before_closed hook was not called")
                for _ in range(300):                # let the other end notice
                    if second.closed:
                        break
                    try:
                        second.poll()
                    except EOFError:
                        pass
                self.held.clear()
                del self.results[:]
                del self.waiting[:]
                self.closed = True
                if not (first.closed and second.closed):
                    self.err.append("after close: closed flags are %r / %r" % (first.closed, second.closed))
                return "ok"
        except EOFError:
            return "closed"
        except Exception as ex:  # noqa  (the real code misbehaved: an outcome, not a harness crash)
            return "raised:" + type(ex).__name__.split(".")[-1]
        raise ValueError("unknown op %r" % (o,))

    # -- observation
    def _refs(self, label, out, local):
        c = self.consts
        lab, val = label
        if lab == c.LABEL_TUPLE:
            for item in val:
                self._refs(item, out, local)
        elif lab == c.LABEL_REMOTE_REF:
            out.append(self.key.get((str(val[0]), val[1], val[2]), "?"))
        elif lab == c.LABEL_LOCAL_REF:
            local.append(tuple(val))

    def _frames(self, side):
        """payloads of the frames waiting in `side`'s inbox"""
        buf = bytes(self.net.streams[side].inbox)
        import struct
        i, out = 0, []
        while i + 5 <= len(buf):
            n, comp = struct.unpack("!LB", buf[i:i + 5])
            payload = buf[i + 5:i + 5 + n]
            if comp:
                import zlib
                payload = zlib.decompress(payload)
            out.append(payload)
            i += 5 + n + 1
        return out

    def queue_text(self, side):
        """decode the frames waiting in `side`'s inbox into the model's notation"""
        out = []
        for payload in self._frames(side):
            text = self._qcache.get((side, payload))
            if text is None:
                text = self._queue_item(side, *self.brine.load(payload))
                self._qcache[(side, payload)] = text
            out.append(text)
        return out

    def _queue_item(self, side, msg, seq, args):
        c = self.consts
        out = []
        if True:
            if side == "B":                       # owner -> peer
                if msg == c.MSG_REQUEST:
                    handler, boxed = args
                    ids, local = [], []
                    self._refs(boxed, ids, local)
                    out.append("close" if handler == c.HANDLE_CLOSE else "req" + "".join(" %s" % k for k in ids))
                elif msg == c.MSG_REPLY:
                    ids, local = [], []
                    self._refs(args, ids, local)
                    out.append("reply" + "".join(" %s" % k for k in ids) + (" T" if seq in self.kept else " F"))
                else:
                    out.append("exc")
            else:                                 # peer -> owner
                if msg == c.MSG_REQUEST:
                    handler, boxed = args
                    ids, local = [], []
                    self._refs(boxed, ids, local)
                    if handler == c.HANDLE_DEL:
                        k = self.key.get((str(local[0][0]), local[0][1], local[0][2]), "?")
                        out.append("del %s %s" % (k, boxed[1][1][1]))
                    elif handler == c.HANDLE_CALL and self.fn_packs.get(local[0]) == "give":
                        shape = boxed[1][1][1][0]
                        out.append(("fetchbad" if has_marker(shape) else "fetch") + "".join(" %s" % k for k in flat(shape)))
                    elif handler == c.HANDLE_CALL and self.fn_packs.get(local[0]) == "recv":
                        inner = boxed[1][1][1]       # (LOCAL_REF k, VALUE k, VALUE echo)
                        k = self.key.get((str(inner[0][1][0]), inner[0][1][1], inner[0][1][2]), "?")
                        out.append("back %s %s" % (k, "T" if inner[2][1] else "F"))
                    elif handler == c.HANDLE_CLOSE:
                        out.append("close")
                    else:
                        out.append("request?%s" % handler)
                else:
                    # the peer's answer to a request of the owner, MSG_REPLY or MSG_EXCEPTION (when the peer could not
                    # unbox the request): either way it carries no reference of the owner's
                    out.append("reply")
        return out[0]

    def live_proxy(self, k):
        w = proxy_table(self.cb).get(self.packs[k])
        return w() if w is not None else None

    def snapshot(self, outcome):
        t, p = [], []
        for k in range(self.n):
            slot = lent_table(self.ca).get(self.packs[k])
            if slot is None:
                t.append("-")
            else:
                t.append(str(slot[1]))
                if id(slot[0]) != self.ids[k]:
                    self.err.append("table slot of object %d holds a different object" % k)
            px = self.live_proxy(k)
            p.append("-" if px is None else str(refcount_of(px)))
            del px
        if self.closed:
            o = q = []
        else:
            o, q = self.queue_text("B"), self.queue_text("A")
        return "%s t=%s p=%s h=%s r=%d w=%s o=[%s] q=[%s]%s" % (
            outcome, ",".join(t), ",".join(p), ",".join(str(k) for k in sorted(self.held)), len(self.results),
            "".join("x" if w[2] else "o" for w in self.waiting), ";".join(o), ";".join(q), " closed" if self.closed else "")

    # -- the statement's own observations (used by the oracle and, as extra checks, by the correspondence)
    def reachable_ids(self):
        """ids the peer application can still reach: held proxies and proxies inside ready results"""
        out = set(self.held)
        for res in self.results:
            if res.error:
                continue
            try:
                self._collect_ids(res.value, out)
            except Exception as ex:  # noqa
                self.err.append("a result the peer kept is an exception: %s" % type(ex).__name__.split(".")[-1])
        return out

    def _collect_ids(self, v, out):
        if type(v) is tuple:
            for x in v:
                self._collect_ids(x, out)
        elif isinstance(v, self.netref.BaseNetref):
            k = self.key.get(tuple(v.____id_pack__))
            if k is not None:
                out.add(k)

    def check_live_proxies(self):
        """every proxy the peer holds resolves, right now, to its object at the owner (real _box / _unbox)"""
        if self.closed:
            return
        for k in sorted(self.held):
            try:
                x = self.ca._unbox(self.brine.load(self.brine.dump(self.cb._box(self.held[k]))))
            except Exception as ex:  # noqa
                self.err.append("proxy of object %d does not resolve at the owner: %s" % (k, type(ex).__name__))
                continue
            if id(x) != self.ids[k]:
                self.err.append("proxy of object %d resolves to a different object" % k)
            del x

    def forget(self):
        """the owner's application drops its own references; from now on only the connection keeps lent objects"""
        for k, o in enumerate(self.objs):
            try:
                skip = self.kinds[k] in IMMORTAL or (self.kinds[k] == "dynclass" and not self.class_liveness)
                self.wr[k] = None if skip else weakref.ref(o)
            except TypeError:
                self.wr[k] = None
        self.objs = [None] * self.n
        self.forgot = True
        del o

    def alive(self, k):
        """None: the type has no weak references; otherwise whether the object still exists (a cycle is not a leak
        of the connection's: collect before believing it is alive)"""
        if self.wr[k] is None:
            return None
        if self.wr[k]() is None:
            return False
        return True

    def alive_after_gc(self, k):
        a = self.alive(k)
        if a:
            gc.collect()
            a = self.alive(k)
        return a

    def check_alive_iff_lent(self, where):
        for k in range(self.n):
            a = self.alive(k)
            if a is None:
                continue
            lent = self.packs[k] in lent_table(self.ca)
            if a and not lent:
                a = self.alive_after_gc(k)
            if a != lent:
                self.err.append("%s: object %d (%s) is %s but %s the owner's table" % (
                    where, k, self.kinds[k], "alive" if a else "dead", "in" if lent else "not in"))

    def teardown(self):
        try:
            self.held.clear()
            del self.results[:]
            self.sink_p = self.give_p = self.recv_p = None
            for c in (self.ca, self.cb):
                try:
                    c.close()
                except Exception:  # noqa
                    pass
        finally:
            self._cm.__exit__(None, None, None)

    # -- which ops make sense now (for the generators)
    def inbox(self, side):
        return len(self.net.streams[side].inbox) > 0


# ---------------------------------------------------------------------------------------------- histories
def op_text(o):
    kind = o[0]
    if kind in ("send", "fetch", "sendFail", "fetchFail"):
        return kind + "".join(" %d" % k for k in flat(o[1]))
    if kind == "back":
        return "back %d %s" % (o[1], "T" if o[2] else "F")
    if kind == "drop":
        return "drop %d" % o[1]
    if kind in ("expire", "dOfail"):
        return "%s %d" % (kind, o[1])
    if kind == "close":
        return "close"
    return kind


SHAPES = [lambda a, b: [a], lambda a, b: [a, b], lambda a, b: [a, [b, a]], lambda a, b: [[a], None, a],
          lambda a, b: [None], lambda a, b: [a, a, a], lambda a, b: [[[a]], [b, [a, b]]], lambda a, b: []]
BAD_SHAPES = [lambda a, b: [a, "bad"], lambda a, b: ["bad", a, b], lambda a, b: [a, [b, "bad", a]], lambda a, b: ["bad"],
              lambda a, b: [[a, a], b, "bad"]]
FETCH_SHAPES = [lambda a, b: a, lambda a, b: [a, b], lambda a, b: [a, [a]], lambda a, b: [], lambda a, b: [b, None, b]]


def random_op(r, w, n):
    """one op chosen from the state of the real world (mostly enabled ones)"""
    a, b = r.below(n), r.below(n)
    for _ in range(20):
        x = r.below(100)
        if x < 3:
            return ["sendFail", r.choice(BAD_SHAPES)(a, b)]
        if x < 6:
            return ["fetchFail", r.choice(BAD_SHAPES)(a, b)]
        if x < 22:
            return ["send", r.choice(SHAPES)(a, b)]
        if x < 32:
            return ["fetch", r.choice(FETCH_SHAPES)(a, b)]
        if x < 42:
            if w.held:
                return ["back", r.choice(sorted(w.held)), r.chance(1, 2)]
            if r.chance(1, 10):
                return ["back", a, False]
        elif x < 58:
            if w.held:
                return ["drop", r.choice(sorted(w.held))]
            if r.chance(1, 10):
                return ["drop", a]
        elif x < 64:
            if w.results or r.chance(1, 10):
                return ["collect"]
        elif x < 69:
            fresh = [j for j, e in enumerate(w.waiting) if not e[2]]
            if fresh:
                return ["expire", r.choice(fresh)]
            if r.chance(1, 6):
                return ["expire", len(w.waiting)]
        elif x < 72:
            if w.inbox("B"):
                return ["dOfail", r.below(3)]
        elif x < 83:
            if w.inbox("B") or r.chance(1, 12):
                return ["dO"]
        else:
            if w.inbox("A") or r.chance(1, 12):
                return ["dP"]
    return ["dP"]


def drain(w, run_op):
    for _ in range(400):
        if w.inbox("B"):
            run_op(["dO"])
        elif w.inbox("A"):
            run_op(["dP"])
        else:
            return
    w.err.append("messages keep flowing after 400 deliveries")


def closing_phase(w, run_op):
    """use every held proxy, drop everything, deliver everything (as ordinary ops); returns nothing.
    `run_op(o)` performs and records one op."""
    for k in sorted(w.held):
        run_op(["back", k, False])
    drain(w, run_op)
    for _ in range(50):
        if w.results:
            run_op(["collect"])
        elif w.held:
            run_op(["drop", sorted(w.held)[0]])
        elif w.inbox("A") or w.inbox("B"):
            drain(w, run_op)
        else:
            break


def final_phase(w, run_op, n, close_side, close_hook=None):
    """deliver what is in flight; the owner's application forgets its objects; the peer uses every proxy it holds,
    then drops everything; everything is delivered; close.  The statement's own observations are made on the way."""
    drain(w, run_op)
    reach = w.reachable_ids()
    w.ca._last_traceback = w.cb._last_traceback = None      # see below
    w.forget()
    w.check_alive_iff_lent("after the owner's application forgot its objects")
    for k in sorted(reach):
        if w.alive(k) is False:
            w.err.append("object %d (%s) died while the peer could still reach it" % (k, w.kinds[k]))
    before = len(w.back_log)
    used = len(w.held)
    closing_phase(w, run_op)
    if w.back_log[before:before + used] != [True] * used:
        w.err.append("a proxy used at the end did not reach its own object: %r" % (w.back_log[before:],))
    # `_last_traceback` keeps the frames (and so the locals) of the last exception a handler or a failed reply raised: a
    # debugging aid that is overwritten by the next one; it is not counted as "the connection references the object"
    w.ca._last_traceback = w.cb._last_traceback = None
    for k in range(n):
        if w.packs[k] in lent_table(w.ca):
            w.err.append("object %d (%s) still in the owner's table after everything was dropped and delivered" % (k, w.kinds[k]))
        if w.alive_after_gc(k):
            w.err.append("object %d (%s) not collectable after everything was dropped and delivered" % (k, w.kinds[k]))
    run_op(["close", close_side] + ([close_hook] if close_hook else []))
    for name, conn in (("A", w.ca), ("B", w.cb)):
        if lent_table(conn) or proxy_table(conn):
            w.err.append("after close, side %s still holds %d objects / %d proxies" % (
                name, len(lent_table(conn)), len(proxy_table(conn))))


HOOKS = [None, "ok", "raise", "eof"]


def run_history(ops, n=N_OBJS, gen=None, length=0, final=True, close_side="A", kinds=None, class_liveness=True,
                close_hook=None):
    """run a history on the real code. `ops` fixed prefix; then `gen(world)` supplies up to `length` more ops.
    Returns (ops actually run, snapshots, real-only findings, world stats)."""
    w = World(n, kinds, class_liveness)
    done, snaps = [], []

    class Abort(Exception):
        pass

    def run_op(o):
        out = w.op(o)
        done.append(o)
        try:
            snaps.append(w.snapshot(out))
            w.check_live_proxies()
        except Exception as ex:  # noqa
            snaps.append("%s UNOBSERVABLE:%s" % (out, type(ex).__name__))
            w.err.append("state could not be observed after %s: %r" % (op_text(o), ex))
            raise Abort()
        if out.startswith("raised:"):
            w.err.append("%s raised %s" % (op_text(o), out[7:]))
            raise Abort()
    try:
        try:
            for o in ops:
                run_op(o)
            for _ in range(length):
                run_op(gen(w))
        except Abort:
            return done, snaps, list(dict.fromkeys(w.err))
        if final and not w.closed:
            try:
                final_phase(w, run_op, n, close_side, close_hook)
            except Abort:
                pass
            except Exception as ex:  # noqa
                w.err.append("the closing phase could not be completed: %s" % type(ex).__name__.split(".")[-1])
        if w.closed:
            for name, conn in (("A", w.ca), ("B", w.cb)):
                if lent_table(conn) or proxy_table(conn):
                    w.err.append("after the connection ended, side %s still holds %d objects / %d proxies" % (
                        name, len(lent_table(conn)), len(proxy_table(conn))))
        return done, snaps, list(dict.fromkeys(w.err))
    finally:
        w.teardown()


def model_line(ops, n):
    return "box c10 %d " % n + " ; ".join(op_text(o) for o in ops)


def enabled_ops(w, n, alphabet):
    out = []
    for o in alphabet:
        kind = o[0]
        if kind in ("back", "drop") and o[1] not in w.held:
            continue
        if kind == "collect" and not w.results:
            continue
        if kind == "expire" and (len(w.waiting) <= o[1] or w.waiting[o[1]][2]):
            continue
        if kind == "dO" and not w.inbox("B"):
            continue
        if kind == "dP" and not w.inbox("A"):
            continue
        out.append(o)
    return out


def exhaustive(n, depth, alphabet, emit, deadline):
    """all histories of exactly `depth` enabled ops over `alphabet` (DFS by replay; every prefix is a prefix
    of some leaf, so every shorter history is covered too)"""
    count = [0]

    def rec(prefix):
        if time.time() > deadline:
            return False
        if len(prefix) == depth:
            emit(prefix)
            count[0] += 1
            return True
        w = World(n)
        try:
            for o in prefix:
                w.op(o)
            en = enabled_ops(w, n, alphabet)
        finally:
            w.teardown()
        for o in en:
            if not rec(prefix + [o]):
                return False
        return True
    complete = rec([])
    return count[0], complete


ALPHABET_1 = [["send", [0]], ["send", [0, [0]]], ["fetch", 0], ["back", 0, False], ["back", 0, True], ["drop", 0],
              ["collect"], ["expire", 0], ["dO"], ["dP"]]
ALPHABET_F = [["send", [0]], ["sendFail", [0, "bad"]], ["fetchFail", ["bad", 0]], ["drop", 0], ["collect"], ["dO"], ["dP"]]
ALPHABET_2 = [["send", [0]], ["send", [1, [0, 1]]], ["fetch", [1]], ["back", 0, True], ["back", 1, False],
              ["drop", 0], ["drop", 1], ["collect"], ["expire", 0], ["dO"], ["dP"]]

CORPUS = [
    # the crossing race of the statement: release notice in flight while the object is sent again
    [["send", [0]], ["dO"], ["drop", 0], ["send", [0]], ["dP"], ["dP"], ["dO"], ["dO"]],
    # fresh reference delivered before the release notice is processed
    [["send", [0]], ["dO"], ["drop", 0], ["send", [0]], ["dO"], ["dO"], ["dP"], ["dP"], ["dP"]],
    # many boxes, one proxy, one release
    [["send", [0, [1, 0], 0]], ["dO"], ["fetch", [0, 0]], ["dP"], ["dP"], ["dO"], ["collect"], ["back", 0, True],
     ["dP"], ["dO"], ["collect"], ["drop", 0], ["dP"]],
    # proxy handed back, dropped before the hand-back is delivered
    [["send", [2]], ["dO"], ["back", 2, True], ["drop", 2], ["dP"], ["dP"], ["dP"], ["dO"], ["dO"], ["dO"], ["collect"]],
    # a ready result is the only holder
    [["fetch", 1], ["dP"], ["dO"], ["send", [1]], ["dO"], ["drop", 1], ["collect"], ["drop", 1], ["dP"], ["dP"]],
    # not-enabled operations answer without touching anything
    [["drop", 0], ["collect"], ["back", 1, False], ["dO"], ["dP"], ["send", []], ["fetch", []], ["dP"], ["dO"], ["collect"]],
    # messages that are boxed and then cannot be serialized, in both directions, around live proxies and traffic
    [["sendFail", [0, "bad"]], ["fetchFail", [1, [2, "bad"]]], ["dP"], ["dO"], ["collect"]],
    [["send", [0]], ["sendFail", [0, [0, 1], "bad"]], ["dO"], ["fetchFail", ["bad", 0, 0]], ["dP"], ["dP"], ["expire", 0], ["dO"],
     ["drop", 0], ["dP"], ["sendFail", ["bad"]], ["fetchFail", ["bad"]], ["dP"], ["dO"], ["dO"]],
    [["sendFail", [1, 2, "deep"]], ["fetchFail", [0, "deep"]], ["dP"], ["dO"], ["send", [1]], ["dO"], ["drop", 1]],
    # messages the receiver cannot unbox: failure at the first / a middle / the last reference, of a request and of a reply,
    # with a proxy already held, with an expired waiter
    [["send", [0, 1, 0]], ["dOfail", 0], ["dP"], ["dP"], ["dP"], ["dP"], ["dO"], ["dO"], ["dO"]],
    [["send", [1]], ["dO"], ["send", [1, [2, 1], 0]], ["dOfail", 2], ["dP"], ["dP"], ["dP"], ["dP"], ["fetch", [2, [0, 2]]], ["dP"],
     ["dOfail", 1], ["collect"], ["dP"], ["dP"], ["dP"], ["drop", 1], ["dP"], ["dOfail", 0], ["dOfail", 7]],
    [["fetch", [0, 1]], ["fetch", 2], ["dP"], ["dP"], ["expire", 0], ["dOfail", 1], ["dOfail", 0], ["dP"], ["dP"], ["dP"], ["collect"]],
    # a reply for an expired result: unboxed, thrown away, its proxies die at once (nested, twice the same object)
    [["fetch", [0, [1, 0]]], ["dP"], ["expire", 0], ["dO"], ["dP"], ["dP"], ["dO"], ["dO"]],
    # expired while the reply is not even produced yet; a second, unexpired result behind it; a proxy held elsewhere
    [["send", [0]], ["dO"], ["fetch", 0], ["fetch", [2, 0]], ["expire", 0], ["expire", 0], ["expire", 3], ["dP"], ["dP"], ["dP"],
     ["dO"], ["dO"], ["collect"], ["drop", 0], ["dP"], ["dP"], ["drop", 0], ["drop", 2], ["dP"], ["dP"]],
    # an echoed hand-back whose result expired; the proxy is also inside a ready result
    [["fetch", 1], ["dP"], ["dO"], ["collect"], ["back", 1, True], ["fetch", [1]], ["expire", 0], ["dP"], ["dP"], ["dO"], ["dO"],
     ["drop", 1], ["collect"], ["expire", 0]],
    # the connection ends through close() with a before_closed hook that fails / meets a vanished peer, traffic in flight
    [["send", [0, 1]], ["dO"], ["fetch", 2], ["dP"], ["drop", 0], ["send", [2]], ["close", "A", "raise"], ["send", [1]], ["dP"]],
    [["send", [0, 1]], ["dO"], ["fetch", 2], ["dP"], ["drop", 0], ["send", [2]], ["close", "A", "eof"], ["dO"], ["drop", 1]],
    [["send", [1]], ["dO"], ["back", 1, True], ["dP"], ["close", "B", "raise"], ["dP"]],
    [["send", [1]], ["dO"], ["back", 1, True], ["dP"], ["close", "B", "eof"], ["collect"]],
    [["send", [0]], ["dO"], ["close", "A", "ok"], ["close", "B", "raise"]],
    # close with references, releases and results in flight, then operations on the closed pair
    [["send", [0, 1]], ["dO"], ["fetch", 2], ["dP"], ["drop", 0], ["send", [0]], ["close", "B"], ["send", [1]], ["dO"], ["dP"],
     ["drop", 1], ["collect"], ["back", 1, True], ["fetch", 0], ["expire", 0], ["close", "A"]],
]


# ---------------------------------------------------------------------------------------------- correspondence
def signature(snaps):
    return hashlib.sha1(" | ".join(snaps).encode()).hexdigest()[:16]


def nontrivial(snaps):
    """a proxy existed at some point"""
    for s in snaps:
        p = s.split(" p=")[1].split(" ")[0]
        if p.strip("-,"):
            return True
    return False


@infrastructure
def correspondence(ctx):
    c = Corr()
    c.rule = ("histories over 3 lent objects on two real connections with manual delivery; what is lent rotates over palettes "
              "of instances (set, list, dict, function; empty list/dict/set: falsy at their owner), builtin TYPE objects (list, dict: id pack with instance id 0) and "
              "classes created at run time (their netref class is prepared with the real get_methods/class_factory instead "
              "of the blocking INSPECT round trip; one baton-mode scenario per run does the real round trip): a fixed "
              "corpus (the crossing race both ways, multi-box, hand-back dropped in flight, result as only holder, "
              "disabled ops, close with traffic in flight), ALL histories of enabled ops up to a depth over a 1-object "
              "and a 2-object alphabet, and seeded random histories (length 8..40, shapes: alone, several, nested tuples, "
              "mixed with plain values, empty; messages whose `_unbox` fails at the receiver after j references; requests and replies that are boxed and then cannot be serialized — an int beyond the "
              "digit limit, a tuple nested too deep, in front of / behind / between the references; AsyncResults expiring before their reply is delivered); each followed by the closing phase (use every held proxy, drop all, "
              "deliver all, close from either side). Compared after EVERY op: outcome, owner table counts, proxy counts, "
              "held set, ready results, decoded contents of both queues. Non-trivial = a proxy existed at some point; "
              "distinct = distinct canonical output of the whole history.")
    r = Rng(ctx.seed).fork("c10")
    cases = []      # (ops, snaps, errs, tag)
    t0 = time.time()
    try:
        for i, ops in enumerate(CORPUS):
            for kinds in PALETTES[N_OBJS]:
                done, snaps, errs = run_history(ops, final=not any(o[0] == "close" for o in ops), close_side="AB"[i % 2],
                                                kinds=kinds, close_hook=HOOKS[(i + len(cases)) % 4])
                cases.append((done, snaps, errs, "corpus", N_OBJS, kinds))

        def emit_for(n, tag):
            def emit(prefix):
                kinds = palette(n, len(cases))
                done, snaps, errs = run_history(prefix, n=n, close_side="AB"[(len(cases) // 7) % 2], kinds=kinds,
                                                class_liveness=len(cases) % 8 == 0, close_hook=HOOKS[(len(cases) // 3) % 4])
                cases.append((done, snaps, errs, tag, n, kinds))
            return emit
        d1, d2 = ctx.budget((5, 4), (6, 6))
        n1, full1 = exhaustive(1, d1, ALPHABET_1, emit_for(1, "exhaustive-1obj"), t0 + ctx.budget(30, 400))
        n2, full2 = exhaustive(2, d2, ALPHABET_2, emit_for(2, "exhaustive-2obj"), time.time() + ctx.budget(30, 200))
        nf, fullf = exhaustive(1, d1, ALPHABET_F, emit_for(1, "exhaustive-failed-sends"), time.time() + ctx.budget(12, 200))
        c.extra["exhaustive_failed_sends"] = dict(depth=d1, histories=nf, complete=fullf)
        c.extra["exhaustive_1obj"] = dict(depth=d1, histories=n1, complete=full1)
        c.extra["exhaustive_2obj"] = dict(depth=d2, histories=n2, complete=full2)
        n_rand = ctx.budget(2000, 40000)
        rand_deadline = time.time() + ctx.budget(12, 420)
        done_rand = 0
        for i in range(n_rand):
            if time.time() > rand_deadline:
                break
            rr = r.fork("h%d" % i)
            length = rr.range(8, 40)
            kinds = palette(N_OBJS, i // 2)
            done, snaps, errs = run_history([], gen=lambda w: random_op(rr, w, N_OBJS), length=length,
                                            close_side="AB"[i % 2], kinds=kinds, class_liveness=i % 8 == 0,
                                            close_hook=HOOKS[(i // 2) % 4])
            cases.append((done, snaps, errs, "random", N_OBJS, kinds))
            done_rand += 1
        c.extra["random_histories"] = done_rand
    finally:
        pass
    lines = [model_line(done, n) for done, _s, _e, _t, n, _k in cases]
    try:
        outs = run_driver(lines, exe="drv_box")
    except DriverError as ex:
        c.error = str(ex)
        return c
    for (done, snaps, errs, tag, n, kinds), got in zip(cases, outs):
        model_snaps = got.split(" | ")
        c.count("histories:" + tag)
        for kind in kinds:
            c.count("lent:" + kind)
        c.count("ops", len(done))
        for o in done:
            c.count("op:" + o[0])
        for s in snaps:
            c.count("outcome:" + s.split(" ", 1)[0])
        c.evaluations += len(done)
        bad = None
        if len(model_snaps) != len(snaps):
            bad = dict(step=0, impl="%d snapshots" % len(snaps), model=got[:300])
        else:
            for i, (a, b) in enumerate(zip(snaps, model_snaps)):
                if a != b:
                    bad = dict(step=i, op=done[i], impl=a, model=b)
                    break
        if bad is None and errs:
            bad = dict(step=-1, impl="; ".join(errs)[:400], model="(statement-level observation; the model predicts none)")
        if bad:
            bad["case"] = dict(kind="history", n=n, ops=done, kinds=kinds)
            c.disagreements.append(bad)
        else:
            if nontrivial(snaps):
                c.signatures.add(signature(snaps))
            if len(c.samples) < 10 and (tag == "corpus" or c.evaluations % 1013 < 30):
                c.samples.append(dict(tag=tag, history=" ; ".join(op_text(o) for o in done)[:300], final=snaps[-1][:160],
                                      before_closing=snaps[max(0, len(snaps) - 12)][:160]))
    # baton-mode scenarios with run-time classes and the real INSPECT round trip (no model side)
    for name, fn in sorted(extras().items()):
        c.count("extra:" + name)
        c.evaluations += 1
        try:
            extra = fn()
        except Exception as ex:  # noqa
            extra = ["the scenario %s could not run: %r" % (name, ex)]
        for e in extra:
            c.disagreements.append(dict(case=dict(kind="extra", name=name), impl=e,
                                        model="(statement-level observation; the model predicts none)"))
    c.exhaustive = bool(full1 and full2 and fullf)
    return c


def extra_dynclass_baton():
    """lend a class created at run time with the REAL synchronous HANDLE_INSPECT round trip (side B served by its own
    thread), then also a builtin type and an instance of the class; drop the proxies; after the notices were processed
    the owner's table must not hold them and the class must be collectable.  Real code only."""
    import simnet
    from rpyc.core import brine
    from rpyc.lib import get_id_pack
    errs = []
    net = simnet.Net()
    with net.installed():
        ca, cb = net.connect_pair(compress=False)
        try:
            held = []

            def sink(*xs):
                held.append(xs)
                return len(held)

            def drop():
                del held[:]

            def ping():
                return None
            sink_p, drop_p, ping_p = [ca._unbox(brine.load(brine.dump(cb._box(f)))) for f in (sink, drop, ping)]
            Dyn = type("Dyn", (object,), {"x": 1})
            inst = Dyn()
            things = {"run-time class": Dyn, "builtin type": list, "instance of the run-time class": inst}
            packs = dict((name, tuple(get_id_pack(o))) for name, o in things.items())
            packs = dict((name, (str(pk[0]), pk[1], pk[2])) for name, pk in packs.items())
            sink_p(Dyn, (list, Dyn), inst)
            sink_p(Dyn)
            for name, pk in packs.items():
                if pk not in lent_table(ca):
                    errs.append("a lent %s is not in the owner's table while the peer holds its proxy" % name)
            wr = weakref.ref(Dyn)
            del Dyn, inst, things
            gc.collect()
            if wr() is None:
                errs.append("a lent run-time class died although the peer holds a proxy of it")
            drop_p()
            ping_p()
            ping_p()
            for name, pk in packs.items():
                if pk in lent_table(ca):
                    errs.append("a %s is still in the owner's table after the peer dropped every proxy and all release "
                                "notices were processed" % name)
            gc.collect()
            if wr() is not None:
                errs.append("a lent run-time class is not collectable after the peer dropped every proxy")
        except Exception as ex:  # noqa
            errs.append("the baton-mode class scenario raised %s: %s" % (type(ex).__name__.split(".")[-1], str(ex)[:100]))
        finally:
            sink_p = drop_p = ping_p = None
            net.shutdown([ca])
    return errs


def extra_release_overtakes():
    """A release notice must not overtake the reference it travels behind while that reference is being received.
    Baton mode, run-time classes (real HANDLE_INSPECT, whose nested serve() dispatches what is queued behind the
    package).  (1) reply form: B's `f(x)` returns `(Fresh(), x)` where `x` is B's only proxy of A's object — it dies
    when the request is done, so HANDLE_DEL travels right behind the reply.  (2) request form: B calls A's `g(Fresh2(),
    x)` asynchronously and lets `x` go before A serves the request.  The statement wants: the caller gets its own
    object (`is`), afterwards the owner's table does not hold it and it is collectable.  Real code only."""
    import simnet
    import rpyc
    from rpyc.core import brine
    from rpyc.lib import get_id_pack
    errs = []
    net = simnet.Net()
    with net.installed():
        ca, cb = net.connect_pair(compress=False)
        try:
            def fresh_class(name):
                return type(name, (object,), {"tag": name})
            log = {}

            def f(x):                                  # runs at B
                return (fresh_class("FreshInReply")(), x)

            def h(x, g):                               # runs at B: pass x on in a request and let go of it at once
                res = rpyc.async_(g)(fresh_class("FreshInRequest")(), x)
                log["pending"] = res
                return None

            def g(fresh, x):                           # runs at A
                log["g_got_proxy"] = isinstance(fresh, rpyc.BaseNetref)
                log["g_x"] = x
                return None

            def ping():
                return None
            f_p, h_p, ping_p = [ca._unbox(brine.load(brine.dump(cb._box(fn)))) for fn in (f, h, ping)]
            Thing = type("Thing", (object,), {})
            # (1) reply form
            t = Thing()
            pack = get_id_pack(t)
            pack = (str(pack[0]), pack[1], pack[2])
            try:
                r = f_p(t)
                if not (type(r) is tuple and len(r) == 2 and isinstance(r[0], rpyc.BaseNetref)):
                    errs.append("reply (fresh object, handed-back object): the fresh object did not arrive as a proxy")
                elif r[1] is not t:
                    errs.append("reply (fresh object, handed-back object): the handed-back object is not the original")
                del r
            except Exception as ex:  # noqa
                errs.append("reply (fresh object, handed-back object) with the release notice right behind it raised %s"
                            % type(ex).__name__.split(".")[-1])
            ping_p()
            if pack in lent_table(ca):
                errs.append("after the reply scenario the owner's table still holds the object")
            wr = weakref.ref(t)
            del t
            gc.collect()
            if wr() is not None:
                errs.append("after the reply scenario the object is not collectable")
            # (2) request forms: the handed-back proxy sits next to the fresh object, in a nested tuple behind it, and in a
            # keyword argument behind it; async send + drop, so the stream order is CALL, DEL, (reply to the INSPECT)
            def g_nested(fresh, pair):                 # runs at A
                log["g_got_proxy"] = isinstance(fresh, rpyc.BaseNetref)
                log["g_x"] = pair[0]
                return None

            def g_kw(fresh, k=None):                   # runs at A
                log["g_got_proxy"] = isinstance(fresh, rpyc.BaseNetref)
                log["g_x"] = k
                return None

            def h_nested(x, gfun):                     # runs at B
                log["pending"] = rpyc.async_(gfun)(fresh_class("FreshNested")(), (x,))
                return None

            def h_kw(x, gfun):                         # runs at B
                log["pending"] = rpyc.async_(gfun)(fresh_class("FreshKw")(), k=x)
                return None
            hn_p, hk_p = [ca._unbox(brine.load(brine.dump(cb._box(fn)))) for fn in (h_nested, h_kw)]
            for form, hp, gfun in (("positional", h_p, g), ("nested tuple", hn_p, g_nested), ("keyword argument", hk_p, g_kw)):
                t2 = Thing()
                pack2 = get_id_pack(t2)
                pack2 = (str(pack2[0]), pack2[1], pack2[2])
                what = "request (fresh object, handed-back object as %s)" % form
                try:
                    hp(t2, gfun)
                    ping_p()
                    ping_p()
                    if log.get("g_x") is not t2:
                        errs.append("%s: the handler did not receive the original object (got %s)" % (
                            what, type(log.get("g_x")).__name__))
                    if not log.get("g_got_proxy"):
                        errs.append("%s: the fresh object did not arrive as a proxy" % what)
                    pend = log.get("pending")
                    if pend is not None and pend.ready and pend.error:
                        errs.append("%s was answered with an exception" % what)
                except Exception as ex:  # noqa
                    errs.append("%s with the release notice right behind it raised %s" % (what, type(ex).__name__.split(".")[-1]))
                log.clear()
                ping_p()
                if pack2 in lent_table(ca):
                    errs.append("after the %s scenario the owner's table still holds the object" % what)
                del t2
            # (3) reply with the handed-back object in a nested tuple behind the fresh one
            def f_nested(x):                           # runs at B
                return (fresh_class("FreshInReplyNested")(), (x,))
            fn_p = ca._unbox(brine.load(brine.dump(cb._box(f_nested))))
            t3 = Thing()
            try:
                r = fn_p(t3)
                if not (type(r) is tuple and type(r[1]) is tuple and r[1][0] is t3):
                    errs.append("reply (fresh object, (handed-back object,)): the handed-back object is not the original")
                del r
            except Exception as ex:  # noqa
                errs.append("reply (fresh object, (handed-back object,)) with the release notice right behind it raised %s"
                            % type(ex).__name__.split(".")[-1])
            fn_p = hn_p = hk_p = None
        except Exception as ex:  # noqa
            errs.append("the overtaking scenario raised %s: %s" % (type(ex).__name__.split(".")[-1], str(ex)[:100]))
        finally:
            f_p = h_p = ping_p = None
            log.clear()
            net.shutdown([ca])
    return errs


def extra_same_object_during_inspect():
    """the same object of a not-yet-seen class in n messages sent back to back: the later ones are dispatched by the nested
    serve() of the first one's HANDLE_INSPECT round trip.  All receptions must be ONE proxy (`is`) whose `____refcount__`
    is n — the owner registered n references, the one release notice must release them all — and after the proxy is let
    go and the notice is delivered the owner's table no longer holds the object and it is collectable.  Single-threaded
    ends; real code only."""
    import rpyc
    import simnet
    from rpyc.core import brine
    errs = []
    net = simnet.Net()
    with net.installed():
        ca, cb = net.connect_pair(compress=False)
        try:
            got, hold, alive = [], [], []

            def keep(x):                 # runs at A
                got.append(x)
                return len(got)

            def twice(keep_fn, n):       # runs at B: one fresh-class object in n requests, sent back to back
                fresh = type("FreshTwice", (object,), {})()
                alive.append(weakref.ref(fresh))
                hold.append([rpyc.async_(keep_fn)(fresh) for _ in range(n)])
                return None

            def ping():
                return None
            twice_p, ping_p = [ca._unbox(brine.load(brine.dump(cb._box(f)))) for f in (twice, ping)]
            for n in (2, 3):
                del got[:]
                twice_p(keep, n)
                ping_p()
                ping_p()
                if len(got) != n:
                    errs.append("%d requests with the same fresh object: %d arrived" % (n, len(got)))
                elif not all(p is got[0] for p in got):
                    errs.append("the same remote object received %d times while its proxy is alive (the later messages "
                                "dispatched during the first one's INSPECT round trip) arrived as %d different proxies"
                                % (n, len(set(id(p) for p in got))))
                elif refcount_of(got[0]) != n:
                    errs.append("[implementation-tied] one proxy received %d times counts %d references" % (
                        n, refcount_of(got[0])))
                del got[:]
                ping_p()
                ping_p()
                left = [v[1] for k, v in lent_table(cb).items() if k[0].endswith("FreshTwice")]
                if left:
                    errs.append("received %d times, one proxy, dropped, release delivered: the owner's table still holds the "
                                "object (stored count %r)" % (n, left))
                del hold[:]
                cb._last_traceback = None
                gc.collect()
                if any(w() is not None for w in alive):
                    errs.append("received %d times, dropped, release delivered: the object is not collectable at its owner" % n)
                del alive[:]
        except Exception as ex:  # noqa
            errs.append("the inspect-window scenario raised %s: %s" % (type(ex).__name__.split(".")[-1], str(ex)[:100]))
        finally:
            twice_p = ping_p = None
            del got[:], hold[:]
            net.shutdown([ca])
    return errs



def extra_cache_hit_across_gc():
    """a proxy kept alive only by a reference cycle dies when the cyclic GC happens to run; forced here right after the
    1st / 2nd membership test `_unbox` makes on its proxy cache (what an allocation-triggered collection does at an
    arbitrary bytecode).  The object arriving again must be received all the same, and once every proxy is gone and
    the notices are delivered the owner's table is empty.  Manual delivery, builtin objects.  Real code only."""
    import simnet
    from rpyc.core import brine
    from rpyc.lib.colls import WeakValueDict

    class CollectAfterMembership(WeakValueDict):
        __slots__ = ("armed",)

        def __contains__(self, key):
            found = WeakValueDict.__contains__(self, key)
            if found and getattr(self, "armed", 0):
                self.armed -= 1
                if self.armed == 0:
                    gc.collect()
            return found
    errs = []
    net = simnet.Net(manual=True)
    with net.installed():
        ca, cb = net.connect_pair(compress=False)
        was = gc.isenabled()
        gc.disable()
        try:
            cache = CollectAfterMembership()
            cb._proxy_cache = cache
            obj = [1, 2]

            def receive():
                return cb._unbox(brine.load(brine.dump(ca._box(obj))))
            p = receive()
            cycle = [p]
            cycle.append(cycle)
            del p, cycle
            for nth in (1, 2):
                cache.armed = nth
                try:
                    p = receive()
                    cycle = [p]
                    cycle.append(cycle)
                    del p, cycle
                except Exception as ex:  # noqa
                    errs.append("an object arriving again while the cyclic GC collects its old proxy (right after membership "
                                "test %d of the cache) is not received: %s out of _unbox" % (nth, type(ex).__name__))
            cache.armed = 0
            gc.collect()
            for _ in range(8):
                ca.poll()
                cb.poll()
            left = [v[1] for k, v in lent_table(ca).items() if k[0] == "builtins.list"]
            if left:
                errs.append("after every proxy was collected and all notices delivered the owner's table still holds the "
                            "object (stored count %r)" % left)
        except Exception as ex:  # noqa
            errs.append("the cache-hit-across-GC scenario raised %s: %s" % (type(ex).__name__.split(".")[-1], str(ex)[:100]))
        finally:
            if was:
                gc.enable()
            for c in (ca, cb):
                try:
                    c.close()
                except Exception:  # noqa
                    pass
    return errs


class _Boom(object):
    def __getattr__(self, name):
        raise RuntimeError(name)


def extra_unreceivable_message():
    """references in a message the receiver cannot unbox: (1) a reply `(A(), B(), A())` where the class B cannot be
    inspected (its HANDLE_INSPECT raises at the owner) — the caller gets the exception; (2) a package with a stale LOCAL_REF
    in front of two fresh references.  Afterwards (a round trip later) the owner's table must hold none of the objects and
    they must be collectable: nobody holds a proxy of them and nothing is in flight.  Baton mode, real INSPECT.  Real code only."""
    import simnet
    from rpyc.core import brine, consts
    errs = []
    net = simnet.Net()
    with net.installed():
        ca, cb = net.connect_pair(compress=False)
        try:
            A = type("UnrecvA", (object,), {})
            B = type("UnrecvB", (object,), {"helper": _Boom()})
            alive = []

            def get():                    # runs at B
                objs = (A(), B(), A())
                alive.extend(weakref.ref(o) for o in objs)
                return objs

            def ping():
                return None
            get_p, ping_p = [ca._unbox(brine.load(brine.dump(cb._box(f)))) for f in (get, ping)]
            try:
                get_p()
                errs.append("a reply holding an object whose class cannot be inspected was delivered")
            except Exception:  # noqa  (the caller is told; that is fine)
                pass
            ping_p()
            ping_p()
            ca._last_traceback = cb._last_traceback = None
            gc.collect()
            left = sorted(k[0].split(".")[-1] for k in lent_table(cb) if "Unrecv" in k[0])
            if left:
                errs.append("objects of a reply the caller could not unbox stay in the owner's table: %s" % ", ".join(left))
            elif any(w() is not None for w in alive):
                errs.append("objects of a reply the caller could not unbox are not collectable at their owner")
            objs = [[1], [2]]
            package = (consts.LABEL_TUPLE, ((consts.LABEL_LOCAL_REF, ("no.Such", 1, 2)),) + tuple(ca._box(o) for o in objs))
            try:
                cb._unbox(brine.load(brine.dump(package)))
                errs.append("a package with a stale LOCAL_REF was unboxed")
            except KeyError:
                pass
            ping_p()
            ping_p()
            left = [k for k in lent_table(ca) if k[0] == "builtins.list"]
            if left:
                errs.append("the %d references of a package refused for a stale LOCAL_REF stay in the owner's table" % len(left))
        except Exception as ex:  # noqa
            errs.append("the unreceivable-message scenario raised %s: %s" % (type(ex).__name__.split(".")[-1], str(ex)[:100]))
        finally:
            get_p = ping_p = None
            net.shutdown([ca])
    return errs


class ZeroInt(int):
    pass


class Quiet(object):
    def __bool__(self):
        return False


class Hollow(object):
    def __len__(self):
        return 0


def extra_falsy_baton():
    """objects that are falsy at their owner (empty containers, an int-subclass 0, `__bool__` False, `__len__` 0), lent
    twice while the first proxy lives: the peer must see ONE proxy with count 2 (no request may be needed to find it in
    the cache), and after it let go the owner's table is empty.  Baton mode, real INSPECT.  Real code only."""
    import simnet
    from rpyc.core import brine
    from rpyc.lib import get_id_pack
    errs = []
    net = simnet.Net()
    with net.installed():
        ca, cb = net.connect_pair(compress=False)
        try:
            held = []

            def sink(x):
                held.append(x)
                first = held[0]
                return (x is first, refcount_of(x), len(held))

            def drop():
                del held[:]

            def ping():
                return None
            sink_p, drop_p, ping_p = [ca._unbox(brine.load(brine.dump(cb._box(f)))) for f in (sink, drop, ping)]
            for name, obj in (("empty list", []), ("empty dict", {}), ("empty set", set()), ("empty bytearray", bytearray()),
                              ("int-subclass 0", ZeroInt(0)), ("object with __bool__ False", Quiet()),
                              ("object with __len__ 0", Hollow()), ("non-empty list", [1])):
                pack = get_id_pack(obj)
                pack = (str(pack[0]), pack[1], pack[2])
                sink_p(obj)
                same, count, n = sink_p(obj)
                if not same:
                    errs.append("%s received again while its proxy is alive is a different proxy" % name)
                elif count != 2:
                    errs.append("[implementation-tied] %s received twice: the proxy counts %d references" % (name, count))
                slot = lent_table(ca).get(pack)
                if slot is None or slot[1] != 1:
                    errs.append("[implementation-tied] %s lent twice: owner's slot is %r" % (name, None if slot is None else slot[1]))
                drop_p()
                ping_p()
                ping_p()
                if pack in lent_table(ca):
                    errs.append("%s is still in the owner's table after the peer let go of it" % name)
        except Exception as ex:  # noqa
            errs.append("the falsy-object scenario raised %s: %s" % (type(ex).__name__.split(".")[-1], str(ex)[:100]))
        finally:
            sink_p = drop_p = ping_p = None
            net.shutdown([ca])
    return errs


def _bounded_extra(name, fn):
    def run():
        status, res = bounded(fn, 30.0)
        if status == "blocked":
            return ["the scenario %s did not come to an end: a request was never answered" % name]
        if status == "raised":
            return ["the scenario %s raised %r" % (name, res)]
        return res
    return run


def extras():
    table = {"dynclass-baton": extra_dynclass_baton, "release-overtakes-reference": extra_release_overtakes,
             "falsy-objects-baton": extra_falsy_baton, "same-object-during-inspect": extra_same_object_during_inspect,
             "cache-hit-across-gc": extra_cache_hit_across_gc, "unreceivable-message": extra_unreceivable_message}
    return dict((name, _bounded_extra(name, fn)) for name, fn in table.items())


# ---------------------------------------------------------------------------------------------- direct oracle
def oracle_history(ops, n=N_OBJS, close_side="A", kinds=None, ending=None):
    """the property statement evaluated on the real code for one history; None if it holds, else what failed.
    `ending` = [side, hook]: who closes at the end and with which before_closed hook"""
    try:
        has_close = any(o[0] == "close" for o in ops)
        if ending:
            close_side = ending[0]
        done, snaps, errs = run_history(ops, n=n, final=not has_close, close_side=close_side, kinds=kinds,
                                        close_hook=ending[1] if ending else None)
        # a request the peer made through a live proxy must never be answered with an exception
        for o, s in zip(done, snaps):
            out = s.split(" ", 1)[0]
            if out not in ("ok", "empty", "not-held", "closed", "disabled", "unsendable", "unreceived"):
                errs.append("op %s was answered with %s" % (op_text(o), out))
        return "; ".join(errs) if errs else None
    finally:
        pass


def shrink(ops, n, fails):
    """greedy delta debugging on the op list"""
    cur = list(ops)
    changed = True
    while changed:
        changed = False
        for i in range(len(cur)):
            cand = cur[:i] + cur[i + 1:]
            try:
                if fails(cand):
                    cur = cand
                    changed = True
                    break
            except Exception:  # noqa
                pass
    return cur


def strip_closing(ops):
    """the closing phase is re-derived when a history is replayed; keep only what precedes the final close"""
    if ops and ops[-1][0] == "close":
        return ops[:-1]
    return ops


def ending_of(ops):
    """[side, hook] of the close that ended a recorded history"""
    if ops and ops[-1][0] == "close":
        return [ops[-1][1], ops[-1][2] if len(ops[-1]) > 2 else None]
    return None


@infrastructure
def oracle_search(ctx, corr, broken):
    deadline = time.time() + ctx.budget(60, 600)
    r = Rng(ctx.seed).fork("c10-search")

    def found(ops, n, msg, kinds, ending=None):
        ops = shrink(ops, n, lambda cand: oracle_history(cand, n, kinds=kinds, ending=ending) is not None)
        msg = oracle_history(ops, n, kinds=kinds, ending=ending) or msg
        sig = "c10:" + msg.split(";")[0].split(":")[0][:60]
        if sig in getattr(ctx, "known_signatures", set()):
            return None
        return dict(kind="history", n=n, ops=ops, kinds=kinds, ending=ending), msg, sig
    # 1. disagreeing cases
    for d in corr.disagreements[:60]:
        case = d.get("case") or {}
        if case.get("kind") == "extra":
            continue
        ending = ending_of(case.get("ops") or [])
        ops = strip_closing(case.get("ops") or [])
        n = case.get("n", N_OBJS)
        kinds = case.get("kinds")
        try:
            msg = oracle_history(ops, n, kinds=kinds, ending=ending)
        except Exception as ex:  # noqa
            msg = None
        if msg:
            res = found(ops, n, msg, kinds, ending)
            if res:
                return res
        if time.time() > deadline:
            return None
    # 2. boundary corpus
    for j, ops in enumerate(CORPUS):
        for kinds in PALETTES[N_OBJS]:
            ending = ["AB"[j % 2], HOOKS[j % 4]]
            msg = oracle_history(ops, kinds=kinds, ending=ending)
            if msg:
                res = found(ops, N_OBJS, msg, kinds, ending)
                if res:
                    return res
    for name, fn in sorted(extras().items()):
        # exact counts (`____refcount__` == receptions, slot == boxes - 1) are how THIS implementation keeps the books; the
        # statement only asks for reachability while held and release afterwards: they do not make a violation by themselves
        errs = [e for e in fn() if not e.startswith("[implementation-tied]")]
        if errs and ("c10:" + name) not in getattr(ctx, "known_signatures", set()):
            return dict(kind="extra", name=name), "; ".join(errs), "c10:" + name
    # 3. fresh histories
    i = 0
    while time.time() < deadline:
        rr = r.fork("s%d" % i)
        i += 1
        kinds = palette(N_OBJS, i)
        ending = ["AB"[i % 2], HOOKS[i % 4]]
        done, snaps, errs = run_history([], gen=lambda w: random_op(rr, w, N_OBJS), length=rr.range(6, 30), kinds=kinds,
                                        close_side=ending[0], close_hook=ending[1])
        ops = strip_closing(done)
        msg = oracle_history(ops, kinds=kinds, ending=ending)
        if msg:
            res = found(ops, N_OBJS, msg, kinds, ending)
            if res:
                return res
    return None


@infrastructure
def replay(case):
    if case.get("kind") == "extra":
        return dict(case=case, implementation=extras()[case["name"]]() or "holds")
    ops, n, kinds, ending = case["ops"], case.get("n", N_OBJS), case.get("kinds"), case.get("ending")
    has_close = any(o[0] == "close" for o in ops)
    done, snaps, errs = run_history(ops, n=n, final=not has_close, kinds=kinds, close_side=ending[0] if ending else "A",
                                    close_hook=ending[1] if ending else None)
    model = run_driver([model_line(done, n)], exe="drv_box")[0].split(" | ")
    return dict(case=case, ops_run=[op_text(o) for o in done], implementation=snaps, model=model,
                first_difference=next((i for i, (a, b) in enumerate(zip(snaps, model)) if a != b), None),
                lent=kinds or palette(n, 0), oracle=oracle_history(ops, n, kinds=kinds, ending=ending) or "holds")
