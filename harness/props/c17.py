"""C17 — closing a server ends all its clients; departed clients leave nothing behind.

Correspondence: the REAL `ThreadedServer`, `ThreadPoolServer`, `OneShotServer` (in this process) and `ForkingServer`
(in a subprocess), over TCP (port 0) and unix sockets, with and without an authenticator, driven by operation
sequences with 1-4 clients (connect with good / failing / slow credentials - the authenticator blocked reading, the
credentials sent by a later operation, so that a close can fall in between -, call, graceful close, abrupt close, server
close at any point, closing again, further operations after the close; clients whose service's on_disconnect blocks and
that have left when the close comes; servers configured with a `before_closed` hook), against the bookkeeping automaton
`Rpyc.Srv` (lean/RpycModel/Srv/Server.lean) through `drv_server`.  After each operation the harness waits (ceiling
10 s, 3 ms polls — never a fixed sleep) until what it can observe of the real server equals what the model printed:
what the acting client saw, listener open, accept thread alive, len(server.clients), len(fd_to_conn), poll
registrations, queued descriptors, descriptors held by the server process beyond its baseline (/proc/self/fd),
live children, frames consumed, and per client: end-of-stream seen, index of its service instance, connect and
disconnect hook counts.  A case that does not reach the model's state is run a second time before it is believed.

Direct oracle (real code only, written from the statement): `oracle_case`.
"""
import time

import servers
from lineproto import run_driver, DriverError
from pipeline import Corr
from prng import Rng

ID = "C17"
LEAN_MODULE = "RpycModel.Props.C17"
NAMESPACE = "Rpyc.Props.C17"
GEN = ["Server.lean", "Wire.lean", "Brine.lean"]
DRIVERS = ["drv_server"]
TRUSTED = [
    "PARTIAL: the theorems are about the bookkeeping automaton (which tables, descriptors, hooks and shutdowns each "
    "operation causes, state by quiescent state); threads, sockets, poll(2), fork and SIGCHLD are real only in the "
    "correspondence, which samples them (op sequences with 1-4 clients on loopback / unix sockets) — kernel socket and "
    "process behaviour is modelled, not verified",
    "modelled, not verified: a shut-down socket delivers end-of-stream to its peer and wakes the thread blocked on it; "
    "closing the listener resets connections still in the listen queue; CPython closes a socket when its last reference "
    "dies (`closing(sock)` in `_authenticate_and_serve_client` is a no-op: release relies on this); a descriptor is "
    "identified with the client it belongs to (descriptor reuse by the OS is not modelled)",
    "the harness observes the real server through its public attributes (`clients`, `fd_to_conn`, `listener`), a "
    "recording wrapper around the pool's poll object, /proc/self/fd, service hooks, and a class-level wrapper around "
    "`Connection.serve` that counts consumed frames (installed at run time for the duration of a case, never in /repo)",
    "the server's listener is wrapped (servers.FaultyListener, for C16's injected accept() failures): its accept() is one "
    "poll(2) on the real listener plus a wake-up pipe of the wrapper's own, with the socket's own timeout - it blocks and is "
    "woken exactly when socket.accept() is (a connection, shutdown(), not a bare close()); trusted to be equivalent",
]
ASSUMPTIONS = [
    "a pool has at least one worker thread (`nbThreads >= 1`)",
    "the alphabet of the run-level theorems is the statement's: connect / call / graceful close / abrupt close / server "
    "close (plus connect with failing credentials when an authenticator is configured); of hostile behaviour (C16's "
    "subject) what matters to close() is covered by any-state theorems and the correspondence: clients holding an "
    "incomplete frame open (a thread / pool worker blocked in a read), clients inside the authenticator, blocking and "
    "raising disconnect hooks",
    "inside one operation of the server the harness reaches only through gates it can hold open from outside: a blocking "
    "on_disconnect, and (scenario `log-gate`, judged by the direct oracle on every run) a slow log sink passed through the "
    "public `logger=` parameter that holds the pool's accept thread at its 'Created connection' record while the client's "
    "first request is already on the wire; a newcomer for which no thread / child can be started (`f<k>`: modelled, theorem "
    "failed_spawn_leaves_nothing) and a server process holding ~1100 descriptors (option \"hifd\") are run on the real servers",
    "quiescent states only: a close() that races with accept() between `accept` and `clients.add`, or with a serving "
    "thread between closing its socket and discarding it (other than through the gated blocking hook), is sampled by the "
    "runtime, not enumerated",
    "slow credentials (a client inside the authenticator when close() runs, its credentials sent afterwards) are part of "
    "the correspondence, the oracle and the executable model for all four kinds; in Lean they are covered by the local "
    "theorem close_reaches_authenticating_client (any state, threaded / one-shot) rather than by the global invariant, "
    "whose alphabet has connect with good or failing credentials only",
    "a service whose on_disconnect blocks (`m<k>` ... `h<k>`): modelled for all kinds (phase `closing`; theorem "
    "close_passes_client_inside_disconnect_hook), run against the real threaded and pool servers (the hook of a forked child "
    "cannot be released by the harness; a one-shot server's accept thread would sit in it); a `before_closed` hook in the "
    "server's protocol_config (option \"bc\": invisible to the model) is run on all kinds, on the pool without a close while "
    "clients are connected (there `close()` asks every connected client for its root and waits sync_request_timeout for each "
    "that does not answer)",
    "descriptor release is judged after the cyclic garbage collector had a chance (a socket held by the traceback of the "
    "exception that ended its thread is freed by gc, not by the reference count)",
    "`no_residue` is stated for a running server; for a closed one `close_terminates_clients` says every client is "
    "terminated (poll registrations and queue entries of a pool whose close() has returned are reported as 0 by harness and driver: no thread looks at them any more)",
    "one-shot: a client rejected by the authenticator is the one connection the server takes",
    "KNOWN FINDING carried by the model: ForkingServer.close() closes the listener only; its children keep serving "
    "(C17_forking_counterexample, signature C17:forking:close-leaves-children-serving)",
]
EXPLANATION = ("Theorems for every operation sequence (unbounded length and client count) of every server kind: "
               "close_terminates_clients (threaded, pool, one-shot: listener closed, every client given end-of-stream, "
               "released, untracked, its disconnect hook run exactly once), close_idempotent, no_residue (no table, "
               "descriptor, queue entry or poll registration mentions a client that left), oneshot_exactly_one; for the "
               "forking server the statement is false on the pinned code (counterexample + partial theorem).")

KINDS = ["threaded", "pool", "oneshot", "forking"]
SIG_FORK = "C17:forking:close-leaves-children-serving"


# ---------------------------------------------------------------------------------------------- cases
def case_dict(kind, transport, auth, nb, toks, opts=()):
    d = dict(kind="history", server=kind, transport=transport, auth=bool(auth), nb=nb, ops=list(toks))
    if opts:
        d["opts"] = sorted(opts)      # harness-side configuration the model does not see (servers.Session)
    return d


def corpus():
    """boundary cases: run first, whatever the seed"""
    out = []
    for tr in ("tcp", "unix"):
        for kind in KINDS:
            # close with clients connected (F4 on the pool, the forking finding), closing twice, life after the close
            out.append(case_dict(kind, tr, False, 2, "c1:g p1 c2:g p2 X X p1 p2 c3:g".split()))
            # clients coming and going, gracefully and abruptly, then close
            out.append(case_dict(kind, tr, False, 2, "c1:g p1 g1 c2:g p2 a2 c3:g p3 X".split()))
        # close with nobody connected; close before anything
        out.append(case_dict("threaded", tr, False, 2, "X X c1:g".split()))
        out.append(case_dict("pool", tr, False, 1, "c1:g g1 X".split()))
        # failing authentication (the pool's accept thread does it itself), then a good client, then close
        for kind in KINDS:
            out.append(case_dict(kind, tr, True, 2, "c1:b c2:b c3:g p3 a3 c4:g X".split()))
        # slow credentials: the client is INSIDE the authenticator when close() runs; it sends them afterwards
        for kind in KINDS:
            out.append(case_dict(kind, tr, True, 2, "c1:g p1 c2:s X k2:g p2 p1".split()))
            out.append(case_dict(kind, tr, True, 2, "c1:s X k1:b".split()))
            out.append(case_dict(kind, tr, True, 2, "c1:s k1:g p1 c2:s k2:b c3:s a3 c4:g p4 X".split()))
        # a client resets (RST) or closes while INSIDE the authenticator; a connection reset right after the handshake with
        # an authenticator configured (TCP): nothing may remain of them
        for kind in KINDS:
            z = "z" if tr == "tcp" else "a"
            out.append(case_dict(kind, tr, True, 2, ("c1:s %s1 c2:g p2 c3:s %s3 c4:s a4 p2 g2 c5:g X" % (z, z)).split()))
            if tr == "tcp":
                out.append(case_dict(kind, tr, True, 2, "c1:r c2:r c3:g p3 c4:r c5:s z5 c6:r p3".split()))
                out.append(case_dict(kind, tr, False, 2, "c1:g c2:r c3:r p1 z1 c4:r c5:g p5 X".split()))
        # pool: a departed client's entry is keyed by its descriptor NUMBER; its on_disconnect blocks, a new client is given
        # the number meanwhile, the hook returns: only the departed client's own entry may go
        if tr == "tcp":
            for bye in ("a1", "g1"):
                out.append(case_dict("pool", tr, False, 2, ("c1:g m1 c2:g p2 %s c3:g:1 p3 h1 p3 p2 g3 X" % bye).split()))
            out.append(case_dict("pool", tr, False, 2, "c1:g m1 a1 h1 c2:g:1 p2 X".split()))
        # a client holds an incomplete frame open (its thread / a pool worker is blocked reading) when the server is closed:
        # close() returns, everybody is given end-of-stream, every hook runs; two such clients on a pool of two workers
        for kind in KINDS:
            out.append(case_dict(kind, tr, False, 2, "c1:g p1 c2:g i2:t p1 X X p1 c3:g".split()))
        out.append(case_dict("pool", tr, False, 2, "c1:g c2:g c3:g p3 i1:t i2:t X".split()))
        out.append(case_dict("pool", tr, True, 3, "c1:g c2:g i2:ht c3:g i3:t a3 p1 X".split()))
        # no thread / child process can be started for a new client (spawn() / os.fork() fail once, twice in a row): it is
        # turned away, nothing of it remains, the others go on, the next one is served
        for kind in ("threaded", "forking"):
            out.append(case_dict(kind, tr, tr == "unix", 2, "c1:g p1 f2 p1 c3:g p3 f4 f5 p3 p1 g1 c6:g p6 X".split()))
        # the server process holds about a thousand descriptors: its clients' sockets get numbers beyond 1024
        for kind in KINDS:
            if tr == "tcp":
                out.append(case_dict(kind, tr, False, 2, "c1:g p1 c2:g p2 p1 a1 c3:g p3 g2 X".split(), opts=["hifd"]))
        # an authenticator that hands back a NEW socket object (what SSL wrapping does): close() must find the socket the client
        # is served on; departures and rejections leave nothing
        for kind in KINDS:
            out.append(case_dict(kind, tr, True, 2, "c1:g p1 c2:b c3:g p3 a1 c4:s X k4:g p3".split(), opts=["wrap"]))
        # descriptor 0 is free in the server process: the first client's socket gets it (in-process kinds, tcp)
        if tr == "tcp":
            for kind in ("pool", "threaded"):
                out.append(case_dict(kind, tr, False, 2, "c1:g p1 c2:g p2 p1 a1 c3:g p3 g2 X".split(), opts=["fd0"]))
        # a service whose on_disconnect RAISES: every client is still closed by close(), every hook still runs once
        for kind in KINDS:
            out.append(case_dict(kind, tr, False, 2, "c1:g p1 c2:g p2 c3:g a1 X X".split(), opts=["rh"]))
        out.append(case_dict("pool", tr, False, 2, "c1:g c2:g c3:g c4:g p4 g2 X".split(), opts=["rh"]))
        # threaded: the thread of a departed client sits in its service's blocking on_disconnect - the connection closed, the
        # closed socket object still in server.clients - when the server is closed with others connected; then the hook returns
        byes = ("a1", "g1", "z1") if tr == "tcp" else ("a1", "g1")
        for bye in byes:
            out.append(case_dict("threaded", tr, False, 2, ("c1:g m1 c2:g p2 c3:g %s X X h1 p2 c4:g" % bye).split()))
        out.append(case_dict("threaded", tr, True, 2, "c1:g m1 c2:g m2 c3:g a1 p3 g2 h2 p3 X h1".split()))
        # the server's protocol_config carries a `before_closed` hook: connections that end by end-of-stream (abrupt departure,
        # reset, server close) and by the protocol's goodbye all run their disconnect hook and leave nothing
        z = "z" if tr == "tcp" else "a"
        for kind in ("threaded", "forking", "oneshot"):
            out.append(case_dict(kind, tr, False, 2, ("c1:g p1 a1 c2:g p2 c3:g p3 g2 c4:g %s3 p4 X X" % z).split(), opts=["bc"]))
        out.append(case_dict("pool", tr, False, 2, ("c1:g p1 a1 c2:g p2 c3:g p3 g2 c4:g %s3 p4 a4 X" % z).split(), opts=["bc"]))
        out.append(case_dict("threaded", tr, True, 2, "c1:g p1 c2:s c3:g X k2:g p1".split(), opts=["bc"]))
        # one-shot: a second connection waits in the listen queue and is reset when the server closes itself
        out.append(case_dict("oneshot", tr, False, 1, "c1:g c2:g p1 a1 c3:g".split()))
        out.append(case_dict("oneshot", tr, True, 1, "c1:b c2:g".split()))
    return out


def oracle_only_cases():
    """states in which the model says no more than "close() does not return yet" (`closeWaits`: it waits for application
    code): judged by the direct oracle on every run - the clients must be ended at once all the same, and close() returns
    when the hook does"""
    return [
        # a pool worker sits in the blocking on_disconnect of a client that left, when close() comes
        case_dict("pool", "tcp", False, 2, "c1:g m1 c2:g p2 c3:g a1 X h1".split()),
        # close() itself calls the blocking on_disconnect of a client that is still connected
        case_dict("pool", "tcp", False, 2, "c1:g m1 c2:g p2 c3:g X h1".split()),
        # the accept thread of a pool held in a slow log sink while it admits a client whose first request is already there
        dict(kind="scenario", scenario="log-gate", server="pool", transport="tcp", auth=False, nb=2, ops=[]),
        dict(kind="scenario", scenario="log-gate", server="pool", transport="unix", auth=False, nb=2, ops=[]),
    ] + [dict(kind="scenario", scenario="close-unstarted", server=k, transport="tcp", auth=False, nb=2, ops=[])
         for k in ("pool", "threaded", "oneshot")]


def scenario_case(case, ceiling=servers.CEILING):
    """scenarios that need the harness inside one operation of the server (not expressible as a sequence of quiescent states)"""
    if case.get("scenario") == "log-gate":
        return log_gate_scenario(case["transport"], ceiling)
    if case.get("scenario") == "close-unstarted":
        return close_unstarted_scenario(case["server"])
    raise ValueError("unknown scenario %r" % (case,))


def close_unstarted_scenario(kind):
    """close() of a server that was never started, twice: returns, the listener is closed"""
    import rpyc
    from rpyc.utils import server as S
    cls = dict(threaded=S.ThreadedServer, pool=S.ThreadPoolServer, oneshot=S.OneShotServer, forking=S.ForkingServer)[kind]
    try:
        srv = cls(rpyc.VoidService, hostname="127.0.0.1", port=0, auto_register=False, logger=servers.quiet_logger())
    except OSError as ex:
        raise servers.Infra("cannot bind: %s" % ex)
    try:
        for n in ("first", "second"):
            try:
                srv.close()
            except Exception as ex:  # noqa
                return ("the %s close() of a %s server that was never started raised %s: %s" % (n, kind, type(ex).__name__, ex),
                        "C17:%s:close-raises" % kind)
        if srv.listener.fileno() != -1:
            return "the listener of a closed, never-started server is open", "C17:%s:listener-open-after-close" % kind
        return None
    finally:
        try:
            srv.listener.close()
        except Exception:  # noqa
            pass


def log_gate_scenario(transport, ceiling):
    """ThreadPoolServer with a slow log sink (the public `logger=` parameter, DEBUG level): the accept thread is held at its
    "Created connection" record while it admits client 2; client 2's first request is already on the wire and the poller goes
    round three times; then the sink returns.  Client 2 must be served, and when it leaves nothing of it may remain."""
    import time as _t
    from rpyc.core import brine, consts
    sess = servers.Session("pool", transport, False, 2, opts=["loggate"])
    W = lambda pred: servers.wait_for(pred, ceiling) is not None   # noqa: E731
    try:
        h = sess.backend.log_handler
        if sess.do("c1:g") != "ok" or sess.do("p1") != "pong":
            return None                       # the plain case is everybody else's business
        h.arm()
        if sess.do("c2:g") != "ok":
            return None
        if not h.blocked.wait(3.0):
            h.open_gate()
            return None                       # this tree does not log that record: the window cannot be held open this way
        c2 = sess.clients[2]
        c2.send_raw(servers.ping_frame(seq=7))
        _t.sleep(0.35)                        # three rounds of the poller (0.1 s each) with the accept thread held
        h.open_gate()
        buf = b""
        t_end = _t.time() + min(ceiling, 4.0)
        while _t.time() < t_end and len(buf) < 6:
            if servers.readable_now(c2.sock):
                d = c2.sock.recv(4096)
                if not d:
                    break
                buf += d
            else:
                _t.sleep(0.005)
        ok = False
        try:
            n = int.from_bytes(buf[:4], "big")
            msg, seq, _args = brine.load(buf[5:5 + n])
            ok = msg == consts.MSG_REPLY and seq == 7
        except Exception:  # noqa
            ok = False
        if not ok:
            return ("client 2 sent its first request while the accept thread was still admitting it (held in the log sink at "
                    "'Created connection'); the request was never answered (%d bytes came back)" % len(buf),
                    "C17:pool:admitted-client-never-served")
        if sess.do("p1") != "pong":
            return "client 1 is no longer served", "C17:pool:admitted-client-never-served"
        sess.do("a2")

        def clean():
            s = _snap(sess)
            return s["c"] <= 1 and s["f"] <= 1 and s["p"] <= 1 and s["q"] == 0 and s["fds"] <= s["L"] + 1
        if not W(clean):
            return ("client 2 has left; with 1 client still connected the server holds %r" % (_snap(sess),),
                    "C17:pool:residue-after-client-left")
        hk = lambda: _hooks(sess).get(c2.peer)   # noqa: E731
        if not W(lambda: hk() is not None and hk()["d"] == hk()["c"] == 1):
            return "hooks of the departed client 2: %r" % (hk(),), "C17:pool:hook-not-run-once"
        return None
    finally:
        sess.close()


def gen_case(r):
    kind = r.choice(KINDS)
    transport = r.choice(["tcp", "unix"])
    auth = r.chance(1, 4)
    nb = r.choice([1, 2, 3])
    nclients = r.range(1, 4)
    toks, live, nextk = [], [], 1
    opts = ["bc"] if kind != "pool" and r.chance(1, 4) else []     # a `before_closed` hook in the server's protocol_config
    if r.chance(1, 6):
        opts.append("rh")                                          # the service's on_disconnect raises
    stuck = []                     # clients that sent an incomplete frame (all they can do now is leave)
    armed, hooked = [], []         # threaded: clients whose on_disconnect will block / that left and whose thread sits in it
    slow = []                      # connected without credentials so far (the authenticator is blocked reading)
    closed = 0
    n = r.range(3, 12)
    close_at = r.below(n + 2)          # may be beyond the end: no close at all
    for i in range(n):
        if closed and r.chance(1, 2):
            break                   # little happens after a close: one or two more operations at most
        if i == close_at or (closed and r.chance(1, 3)):
            toks.append("X")
            closed += 1
            continue
        x = r.below(100)
        if kind == "pool" and slow and x >= 22:
            # a pool whose accept thread is held by a stalled authentication: the next thing that happens is the end of that stall
            # (a client that connects meanwhile, talks and leaves before it is admitted races with its own admission: whether its
            # frames are still consumed depends on the kernel's buffers)
            x = r.below(22)
        if hooked and r.chance(1, 3):
            toks.append("h%d" % hooked.pop(0))
            continue
        if live and not closed and not (kind == "pool" and slow) and r.chance(1, 8) and (kind != "pool" or len(stuck) + 1 < nb):
            k = r.choice(live)
            live.remove(k)
            stuck.append(k)
            toks.append("i%d:%s" % (k, r.choice(["t", "ht", "et"])))
            continue
        if stuck and r.chance(1, 4):
            k = stuck.pop(0)
            toks.append(("z%d" if transport == "tcp" and r.chance(1, 3) else "a%d") % k)
            continue
        if kind == "threaded" and live and not closed and r.chance(1, 7):  # (threaded only: `slow` on a pool is handled above)
            k = r.choice(live)
            if k not in armed:
                armed.append(k)
                toks.append("m%d" % k)
                continue
        if slow and x < 22:
            k = r.choice(slow)
            slow.remove(k)
            y = r.below(4)
            toks.append(["k%d:g", "k%d:b", "a%d", "z%d" if transport == "tcp" else "a%d"][y] % k)
            if y == 0:
                live.append(k)
        elif transport == "tcp" and x < 30 and r.chance(1, 3):
            toks.append("c%d:r" % nextk)                   # connects and resets at once
            nextk += 1
        elif kind in ("threaded", "forking") and not closed and x >= 92:
            toks.append("f%d" % nextk)                     # no thread / child process can be started for it
            nextk += 1
        elif (not live or x < 28) and nextk <= nclients + closed:
            cred = "g"
            if auth and r.chance(1, 3):
                cred = "b"
            elif auth and r.chance(1, 3) and (kind != "pool" or not slow):
                cred = "s"
            toks.append("c%d:%s" % (nextk, cred))
            if cred == "g":
                live.append(nextk)
            elif cred == "s":
                slow.append(nextk)
            nextk += 1
        elif live and x < 62:
            toks.append("p%d" % r.choice(live))
        elif live and x < 80:
            k = r.choice(live)
            live.remove(k)
            toks.append("g%d" % k)
            if k in armed and not closed:
                hooked.append(k)
        elif live:
            k = r.choice(live)
            live.remove(k)
            toks.append(("z%d" if transport == "tcp" and r.chance(1, 3) else "a%d") % k)
            if k in armed and not closed:
                hooked.append(k)
    toks += ["h%d" % k for k in hooked]
    return case_dict(kind, transport, auth, nb, toks, opts)


def model_lines(case):
    line = "srv run %s %s %d %s" % (case["server"], "T" if case["auth"] else "F", case["nb"], " ".join(case["ops"]))
    out = run_driver([line], exe="drv_server")[0]
    if out in ("bad-op", "NOT-MODELLED"):
        raise DriverError("driver refused %r: %s" % (line, out))
    return out.split(" ; ")


def run_impl(case, expect=None, ceiling=servers.CEILING):
    # (a one-shot server's second client is never served: its calls cost their whole timeout, which is kept short there)
    return servers.run_case(case["server"], case["transport"], case["auth"], case["nb"], case["ops"], expect=expect,
                            ceiling=ceiling, opts=case.get("opts", ()),
                            call_timeout=0.6 if case["server"] == "oneshot" else servers.CALL_TIMEOUT)


def compare_case(case, ceiling=servers.CEILING):
    """(agree, lines, expected, index).  A case that disagrees is run once more before it is believed."""
    exp = model_lines(case)
    lines, bad = run_impl(case, exp, ceiling)
    if bad is None:
        return True, lines, exp, None
    lines2, bad2 = run_impl(case, exp, ceiling)
    if bad2 is None:
        return True, lines2, exp, None
    return False, lines2, exp, bad2


# ---------------------------------------------------------------------------------------------- correspondence
def signature_of(case, lines):
    """distinctness key: server kind, transport, authenticator, and the sequence of (operation kind, what the client saw)"""
    return "%s/%s/%s:%s" % (case["server"], case["transport"], "auth" if case["auth"] else "open",
                            " ".join(t[0] + "=" + l.split("|", 1)[0] for t, l in zip(case["ops"], lines)))


def correspondence(ctx):
    c = Corr()
    c.rule = ("corpus (close with clients connected / twice / before anything, clients coming and going, failing "
              "authentication, one-shot with a waiting second connection; every server kind x tcp/unix) + seeded random "
              "operation sequences (3-12 ops, 1-4 clients, close at a random point or never, operations after the close). "
              "An evaluation is one operation executed on the real server and compared with the model's state. "
              "A case is non-trivial if at least one client connected; distinct = distinct (server kind, transport, "
              "authenticator, sequence of (operation kind, client observation)).")
    r = Rng(ctx.seed).fork("c17")
    cases = corpus()
    if ctx.budget(True, False):
        # quick tier: of the boundary cases that exist for both transports the unix twins are run every other seed (all of
        # them in the thorough tier), so that seeded sequences get their share of the time
        keep, n = [], 0
        for case in cases:
            if case["transport"] == "unix":
                n += 1
                if (n + ctx.seed) % 2:
                    continue
            keep.append(case)
        c.count("quick-tier:unix-corpus-cases-left-to-other-seeds", len(cases) - len(keep))
        cases = keep
    ncases = len(cases) + ctx.budget(45, 720)
    deadline = time.time() + ctx.budget(40, 780)
    while len(cases) < ncases:
        cases.append(gen_case(r))
    believed = 0
    try:
        import pipeline
        known_now = set(k.get("signature") for k in pipeline.load_known()
                        if k.get("property") == ID and k.get("status") == "known")
        for case in oracle_only_cases():
            res = oracle_twice(case, known_now)
            c.count("oracle-only-cases")
            c.evaluations += len(case["ops"])
            if res is not None and res[1] not in known_now:
                believed += 1
                c.disagreements.append(dict(case=case, op_index=None, op="X", impl="%s [%s]" % res,
                                            model="not modelled beyond `closeWaits` (close() waits for application code): "
                                                  "judged by the direct oracle",
                                            note="direct oracle, twice"))
        for case in cases[:ncases]:
            if time.time() > deadline:
                c.count("stopped-at-deadline")
                break
            if not case["ops"]:
                continue
            agree, lines, exp, bad = compare_case(case)
            c.evaluations += len(lines)
            c.count("cases")
            c.count("kind:" + case["server"])
            c.count("transport:" + case["transport"])
            c.count("auth:" + ("yes" if case["auth"] else "no"))
            for o in case.get("opts", ()):
                c.count("option:" + o)
            for t, l in zip(case["ops"], lines):
                c.count("op:" + t[0])
                c.count("obs:" + l.split("|", 1)[0])
            if "X" in case["ops"]:
                c.count("close:with-%d-clients-connected" % min(3, sum(
                    1 for k in range(1, 9) if ("c%d:g" % k) in case["ops"][:case["ops"].index("X")]
                    and ("g%d" % k) not in case["ops"][:case["ops"].index("X")]
                    and ("a%d" % k) not in case["ops"][:case["ops"].index("X")])))
            if any(t.startswith("c") for t in case["ops"]):
                c.signatures.add(signature_of(case, lines))
            if not agree:
                believed += 1
                c.disagreements.append(dict(case=case, op_index=bad, op=case["ops"][bad],
                                            impl=lines[bad] if bad < len(lines) else "?", model=exp[bad],
                                            note="state not reached within %.0f s, twice" % servers.CEILING))
                if believed >= 3:
                    c.count("stopped-after-3-disagreements")
                    break
            elif len(c.samples) < 8 and (c.distribution["cases"] % 7 == 1):
                c.samples.append(dict(case=case, observed=lines))
    except DriverError as ex:
        c.error = str(ex)
    c.exhaustive = False
    return c


# ---------------------------------------------------------------------------------------------- direct oracle
def _snap(sess):
    s = sess.backend.snapshot()
    if sess.kind != "forking":
        s["fds"] -= sum(1 for cl in sess.clients.values() if cl.holds_fd())
    return s


def _hooks(sess):
    per = {}
    for what, peer, _inst in sess.backend.hook_table():
        d = per.setdefault(peer, dict(c=0, d=0))
        d[what] += 1
    return per


def oracle_case(case, known=(), ceiling=servers.CEILING):
    """The property restated on ONE operation sequence, evaluated on the real server only.
    Returns None if it holds, else (description, signature)."""
    if case.get("kind") == "scenario":
        return scenario_case(case, ceiling)
    kind = case["server"]
    sess = servers.Session(kind, case["transport"], case["auth"], case["nb"], opts=case.get("opts", ()))
    W = lambda pred: servers.wait_for(pred, ceiling) is not None   # noqa: E731
    try:
        closed = False
        served_first = None
        armed, in_hook = set(), set()      # on_disconnect armed to block / departed and still inside that hook
        released = set()
        pending_close = False
        for i, tok in enumerate(case["ops"]):
            t = tok[0]
            if t not in "cpgaXkzmhif":
                continue           # not an operation of this property
            obs = sess.do(tok)
            where = "after op %d (%s): " % (i, tok)
            if t == "X":
                holding = (armed - released) if kind == "pool" else set()
                if obs == "hang" and holding:
                    # application code holds close() up (a worker sits in a blocking on_disconnect and is joined, or close()
                    # itself has called one): the CLIENTS must have been ended all the same, and close() returns once the
                    # hooks do
                    for k, cl in sess.clients.items():
                        if cl.open and not W(cl.sees_eof):
                            return (where + "close() waits for the blocking on_disconnect of client(s) %s and client %d has "
                                    "not been given end-of-stream meanwhile" % (sorted(holding), k),
                                    "C17:pool:close-leaves-clients-connected")
                    closed = True
                    pending_close = True
                    continue
                if obs == "hang":
                    return where + "server.close() did not return", "C17:%s:close-hangs" % kind
                if obs != "-":
                    return where + "server.close() raised: %s" % obs, "C17:%s:close-raises" % kind
                first = not closed
                closed = True
                if not W(lambda: _snap(sess)["L"] == 0):
                    return where + "the listener is still open", "C17:%s:listener-open-after-close" % kind
                # the known finding (a forking server's children go on serving after close()) explains exactly two things:
                # clients of a closed forking server see no end-of-stream, and their disconnect hooks have not run yet.  What
                # the PARENT keeps (tracked sockets, descriptors) and hooks running twice are judged all the same
                fork_known = kind == "forking" and SIG_FORK in known
                if first:
                    for k, cl in sess.clients.items():
                        if not fork_known and cl.open and not W(cl.sees_eof):
                            sig = SIG_FORK if kind == "forking" else "C17:%s:close-leaves-clients-connected" % kind
                            return (where + "client %d did not observe end-of-stream within %.0f s of server.close()"
                                    % (k, ceiling)), sig
                    if fork_known:
                        hooks_ok = lambda: all(h["d"] <= h["c"] <= 1 for h in _hooks(sess).values())   # noqa: E731
                    else:
                        hooks_ok = lambda: all(h["d"] == h["c"] == 1 for h in _hooks(sess).values())   # noqa: E731
                    if not W(hooks_ok):
                        return (where + "disconnect hooks after close: %r" % (_hooks(sess),),
                                "C17:%s:hook-not-run-once" % kind)
                    if not W(lambda: _snap(sess)["c"] == 0 and _snap(sess)["f"] == 0 and _snap(sess)["fds"] <= 0):
                        return (where + "a closed server still holds %r" % (_snap(sess),),
                                "C17:%s:holds-entries-after-close" % kind)
                probe = servers.Client(99, sess)
                res = probe.connect("g")
                if res != "refused":
                    try:
                        probe.sock.close()
                    except Exception:  # noqa
                        pass
                    return where + "a closed server accepted a connection", "C17:%s:listener-open-after-close" % kind
                continue
            if t == "h":
                released.add(int(tok[1:]))
                if pending_close and not (armed - released):
                    res = getattr(sess.backend, "close_results", [])
                    if not W(lambda: all(bool(d) for d in res)):
                        return (where + "server.close() has not returned although no disconnect hook is blocking any more",
                                "C17:pool:close-hangs")
                    bad = [d[0] for d in res if d and d[0] != "ok"]
                    if bad:
                        return where + "server.close() raised: %s" % bad[0], "C17:pool:close-raises"
                    pending_close = False
                    if not W(lambda: _snap(sess)["c"] == 0 and _snap(sess)["f"] == 0 and _snap(sess)["fds"] <= 0):
                        return (where + "a closed server still holds %r" % (_snap(sess),),
                                "C17:pool:holds-entries-after-close")
            if closed and t == "p" and obs in ("pong", "ref") and not (kind == "forking" and SIG_FORK in known):
                sig = SIG_FORK if kind == "forking" else "C17:%s:close-leaves-clients-connected" % kind
                return where + "a closed server answered client %s" % tok[1:], sig
            if closed or obs == "skip":
                continue
            if t == "h":
                # the worker is back from the departed client's on_disconnect and has dropped "its" descriptor: every other
                # client is still connected and served (a round trip through the pool comes after that drop)
                for k2, cl2 in sess.clients.items():
                    if cl2.open and not cl2.eof and cl2.conn is not None:
                        r2 = cl2.call("ping")
                        if r2 != "pong":
                            return (where + "client %d, connected while client %s's on_disconnect was running, got %r"
                                    % (k2, tok[1:], r2)), "C17:pool:fd-reuse-drops-newcomer"
            if t == "m" and obs == "done":
                armed.add(int(tok[1:]))
            if t in "gaz" and int(tok[1:]) in armed:
                in_hook.add(int(tok[1:]))      # its entry stays until the hook returns: judged at `h`
                cl = sess.clients.get(int(tok[1:]))
                if cl is not None:
                    # go on only when that hook has been entered (the connection is closed by then: its number is free)
                    W(lambda: (_hooks(sess).get(cl.peer) or dict(d=0))["d"] >= 1)
                continue
            if t == "h":
                in_hook.discard(int(tok[1:]))
            if t == "f" and obs == "ok":
                cl = sess.clients.get(int(tok[1:]))
                if cl is not None and not W(cl.sees_eof):
                    return (where + "client %s, for which no thread / child process could be started, was not turned away "
                            "(no end-of-stream)" % tok[1:]), "C17:%s:unservable-client-kept" % kind
            if (t in "gazhf" and not in_hook) or (t == "c" and tok[-2:] in (":b", ":r") and not in_hook):
                # a client has left (or was rejected): within the ceiling nothing refers to it any more
                k = int(tok[1:].split(":")[0])
                cl = sess.clients.get(k)
                if t == "c" and tok.endswith(":b"):
                    if cl is None:
                        continue
                    if kind == "oneshot" and len(sess.clients) > 1:
                        continue          # a one-shot server busy with its one client leaves the others in the listen queue
                    if not W(cl.sees_eof):
                        return where + "rejected client %d saw no end-of-stream" % k, "C17:%s:rejected-client-kept" % kind

                def live():
                    return sum(1 for c2 in sess.clients.values() if c2.open and not c2.eof)

                def clean():
                    s = _snap(sess)
                    n = live()
                    fd_ok = s["fds"] <= s["L"] + (0 if kind == "forking" else n)
                    return s["c"] <= n and s["f"] <= n and s["p"] <= n and s["q"] == 0 and fd_ok and s["ch"] <= n
                if not W(clean):
                    s = _snap(sess)
                    sig = "C17:%s:residue-after-client-left" % kind
                    if kind == "pool" and t == "c" and s["c"] > live():
                        sig = "C17:pool:authfail-leaves-clients-entry"
                    return (where + "with %d client(s) still connected the server holds %r" % (live(), s)), sig
                if cl is not None and t in "gazh":
                    def hook_ok():
                        h = _hooks(sess).get(cl.peer)
                        if h is None:
                            return not cl.npings          # a client whose call was answered has been admitted: its hooks exist
                        return h["d"] == h["c"]
                    if not W(hook_ok):
                        return (where + "hooks of the departed client %d: %r" % (k, _hooks(sess).get(cl.peer)),
                                "C17:%s:hook-not-run-once" % kind)
                if kind == "oneshot":
                    first_served = next(iter(sess.clients), None)
                    if k == first_served:
                        if not W(lambda: _snap(sess)["L"] == 0 and _snap(sess)["A"] == 0):
                            return (where + "the one-shot server is still up after its client left",
                                    "C17:oneshot:not-closed-after-its-client")
                        closed = True
            if kind == "oneshot" and sum(h["c"] for h in _hooks(sess).values()) > 1:
                return where + "a one-shot server served more than one connection", "C17:oneshot:served-more-than-one"
        if closed and not pending_close:
            # whatever happened after the close (late credentials of a client that was inside the authenticator): the closed
            # server holds nothing and nobody is connected to it (the latter is what the forking finding excuses)
            if not W(lambda: _snap(sess)["c"] == 0 and _snap(sess)["f"] == 0 and _snap(sess)["fds"] <= 0):
                return ("at the end: a closed server holds %r" % (_snap(sess),)), "C17:%s:holds-entries-after-close" % kind
            if not W(lambda: all(h["d"] <= 1 and h["c"] <= 1 for h in _hooks(sess).values())):
                return ("at the end: hooks %r" % (_hooks(sess),)), "C17:%s:hook-not-run-once" % kind
            for k, cl in sess.clients.items():
                if kind == "forking" and SIG_FORK in known:
                    break
                if cl.open and not W(cl.sees_eof):
                    return ("at the end: client %d of a closed server never observed end-of-stream" % k,
                            "C17:%s:close-leaves-clients-connected" % kind)
        return None
    finally:
        sess.close()


def oracle_twice(case, known):
    res = oracle_case(case, known)
    if res is None:
        return None
    res2 = oracle_case(case, known)      # a failing case is repeated once before it is believed
    if res2 is None or res2[1] != res[1]:
        return None
    return res2


def shrink(case, sig, known, budget_s=60):
    """drop operations while the same failure persists (a shorter ceiling while minimising; the result is confirmed with
    the full one by the caller)"""
    t0 = time.time()
    ops = list(case["ops"])
    chunk = max(1, len(ops) // 2)
    while time.time() - t0 < budget_s:
        i = 0
        while i < len(ops) and time.time() - t0 < budget_s:
            cand = ops[:i] + ops[i + chunk:]
            res = oracle_case(dict(case, ops=cand), known, ceiling=2.5) if cand else None
            if res is not None and res[1] == sig:
                ops = cand
            else:
                i += chunk
        if chunk == 1:
            break
        chunk = max(1, chunk // 2)
    return dict(case, ops=ops)


def oracle_search(ctx, corr, broken):
    known = set(ctx.known_signatures)
    r = Rng(ctx.seed).fork("c17-search")
    deadline = time.time() + ctx.budget(60, 600)
    seen = []

    def candidates():
        if not any("unblocks_workers" in b or "spares_newcomer" in b for b in broken):
            for d in corr.disagreements[:20]:
                yield d["case"]
        cases = oracle_only_cases() + corpus()
        if any("unblocks_workers" in b for b in broken):
            # the obligation about close() and blocked workers: its scenarios first
            cases.sort(key=lambda c: 0 if any(t[0] == "i" for t in c["ops"]) and "X" in c["ops"] else 1)
        if any("spares_newcomer" in b for b in broken):
            # the obligation about reused descriptor numbers: its scenarios first
            cases.sort(key=lambda c: 0 if any(t[0] == "h" for t in c["ops"]) else 1)
        for case in cases:
            yield case
        while True:
            yield gen_case(r)
    for case in candidates():
        if time.time() > deadline:
            break
        if (not case["ops"] and case.get("kind") != "scenario") or case in seen:
            continue
        seen.append(case)
        res = oracle_twice(case, known)
        if res is None:
            continue
        msg, sig = res
        if sig in known:
            continue
        small = case if case.get("kind") == "scenario" else shrink(case, sig, known, 40)
        res = oracle_case(small, known)
        if res is not None and res[1] == sig:
            return small, res[0], sig
        return case, msg, sig
    return None


def known_probes(ctx):
    """the defect the model carries (C17_forking_counterexample), reproduced on the real server"""
    case = case_dict("forking", "tcp", False, 1, "c1:g p1 X p1".split())
    try:
        lines, _ = run_impl(case, None, 3.0)
    except servers.Infra:
        raise
    after = lines[-1].split("|", 1)[0]
    state = lines[-2].split("|")[2] if len(lines) >= 2 else ""
    fields = state.split()[0].split(":") if state.split() else ["", "E"]
    rep = after == "pong" and fields[1] == "-"
    text = ("ForkingServer.close() leaves its children serving: ops %s -> after close() client 1 saw no end-of-stream "
            "(%s) and its next call returned %r; signature %s" % (" ".join(case["ops"]), state.strip(), after, SIG_FORK))
    return [(SIG_FORK, rep, text)]


def replay(case):
    out = dict(case=case)
    if case.get("kind") == "scenario":
        res = scenario_case(case)
        out["oracle"] = "holds" if res is None else dict(failure=res[0], signature=res[1])
        return out
    try:
        exp = model_lines(case)
    except Exception as ex:  # noqa
        exp = ["model: %r" % (ex,)]
    lines, bad = run_impl(case, exp if len(exp) == len(case["ops"]) else None, servers.CEILING)
    out["model"] = exp
    out["implementation"] = lines
    out["first_disagreement"] = bad
    res = oracle_case(case)
    out["oracle"] = "holds" if res is None else dict(failure=res[0], signature=res[1])
    return out
