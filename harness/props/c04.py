"""C04 — the value serializer is lossless and exact about what it accepts.

Correspondence: real rpyc.core.brine vs. Rpyc.Brine (lean/RpycModel/Brine/Model.lean) through the
compiled driver.  Encode side: type-directed values at every length class + non-serializable values.
Decode side: all byte strings of length <= 2, mutations of valid encodings, tag-biased random bytes.
Direct oracle (real code only): the property restated in Python.
"""
import collections
import enum
import struct
import sys
import time

import valtext
from lineproto import run_driver, DriverError
from pipeline import Corr
from prng import Rng

ID = "C04"
LEAN_MODULE = "RpycModel.Props.C04"
NAMESPACE = "Rpyc.Props.C04"
GEN = ["Brine.lean"]          # generated constant files this property depends on
DRIVERS = ["drv_brine"]       # driver executables it pipes ops through
TRUSTED = [
    "modelled, not verified: struct '!d' packing is bit-transparent; str(int)/int(bytes) grammar and the "
    "interpreter's digit limit; UTF-8 (strict / surrogatepass) of CPython equals the model's codec; "
    "Python's recursion limit is not modelled; TAG_SLICE applied to a frozenset is not modelled (CPython's set iteration "
    "order): there the check only verifies on the real code that the result is a slice of plain values or ValueError; "
    "the interpreter is CPython %d.%d.%d: that every plain value (slices included) is hashable is measured and is a proof "
    "obligation (interpreter_hashes_slices)" % sys.version_info[:3],
]
ASSUMPTIONS = [
    "values nested deeper than the interpreter's stack allows are outside the model: brine recurses with 2-4 frames per "
    "nesting level, so the bound is a fraction of sys.getrecursionlimit() (measured per shape on every run: evidence key "
    "nesting_depths_recursion_limit_*); what IS checked there: every depth dump() accepts, load() can decode",
    "lengths >= 2**32 (struct.error) are excluded by an explicit guard in the theorems and not generated",
    "a value containing an int beyond the interpreter's str() digit limit is outside the statement "
    "('integers of any size the interpreter can render as text')",
]
EXPLANATION = ("Theorems: load(dump v) = v for every well-formed value (mutual structural induction, unbounded size "
               "and nesting); dump succeeds on every dumpable value within the explicit guard; dump of a non-dumpable "
               "value is TypeError; every successful load yields a dumpable value (decoder closed and total).")

LIMIT = sys.get_int_max_str_digits()
_TEN_LIMIT = 10 ** LIMIT if LIMIT else 0


def brine():
    from rpyc.core import brine as b
    return b


# ---------------------------------------------------------------------------------------------- generators
class MyInt(int):
    pass


class MyStr(str):
    pass


class MyBytes(bytes):
    pass


class MyTuple(tuple):
    pass


class MyFloat(float):
    pass


class MyFrozenset(frozenset):
    pass


class Color(enum.IntEnum):
    RED = 1


Point = collections.namedtuple("Point", "x y")

class BadRepr(object):
    """refusing it must be a TypeError whatever its repr does"""
    def __repr__(self):
        raise RuntimeError("repr refuses")


def deep_list(n):
    v = []
    for _ in range(n):
        v = [v]
    return v


OTHERS = [lambda: BadRepr(), lambda: deep_list(5000), lambda: [], lambda: {}, lambda: set(), lambda: bytearray(b"ab"), lambda: MyInt(5), lambda: MyStr("x"),
          lambda: MyBytes(b"x"), lambda: MyTuple((1, 2)), lambda: MyFloat(1.5), lambda: MyFrozenset([1]),
          lambda: Color.RED, lambda: Point(1, 2), lambda: object(), lambda: (lambda: 0), lambda: range(3),
          lambda: memoryview(b"x"), lambda: int, lambda: sys, lambda: [1, (2, 3)], lambda: {"a": 1}]

LEN_CLASSES = [0, 1, 2, 3, 4, 5, 6, 17, 254, 255, 256, 257, 300]
BIG_LEN = [65535, 65536, 70000]
FLOAT_BITS = [0x0000000000000000, 0x8000000000000000, 0x7FF0000000000000, 0xFFF0000000000000,
              0x7FF8000000000000, 0x7FF0000000000001, 0xFFF8000000000123, 0x7FF4000000000000,
              0x3FF0000000000000, 0x0000000000000001, 0x7FEFFFFFFFFFFFFF, 0x400921FB54442D18]


def bits_to_float(b):
    return struct.unpack("!d", struct.pack("!Q", b))[0]


def gen_int(r):
    k = r.below(12)
    if k == 0:
        return r.choice([-49, -48, -47, 0, 158, 159, 160, 161, -1, 1])
    if k == 1:
        return r.range(-60, 170)
    if k == 2:
        d = r.choice([253, 254, 255, 256, 257])
        v = 10 ** (d - 1) + r.below(10 ** 6)
        return v if r.chance(1, 2) else -v
    if k == 3:
        return r.choice([2 ** 63, 2 ** 64, 2 ** 64 + 1, 2 ** 64 - 1, -2 ** 63, -2 ** 63 - 1, 2 ** 31, 2 ** 32 - 1])
    if k == 4 and LIMIT:
        d = r.choice([LIMIT - 1, LIMIT, LIMIT + 1])
        v = 10 ** (d - 1) + r.below(1000)
        return v if r.chance(2, 3) else -v
    if k == 5:
        return r.next() - (1 << 63)
    if k == 6:
        return (r.next() << 64 | r.next()) * (1 if r.chance(1, 2) else -1)
    return r.range(-100000, 100000)


def gen_text(r, n):
    k = r.below(6)
    if k == 0:
        return "".join(chr(r.range(32, 126)) for _ in range(n))
    if k == 1:
        return "".join(chr(r.choice([0, 0x7F, 0x80, 0x7FF, 0x800, 0xFFFF, 0x10000, 0x10FFFF, 0xD7FF, 0xE000]))
                       for _ in range(n))
    if k == 2:  # surrogates, lone or paired
        return "".join(chr(r.choice([0xD800, 0xDBFF, 0xDC00, 0xDFFF, 0x41, 0x1F600])) for _ in range(n))
    if k == 3:
        return "".join(chr(r.range(0, 0x10FFFF)) for _ in range(n))
    return "".join(chr(r.choice([r.range(0, 0x7F), r.range(0x80, 0x7FF), r.range(0x800, 0xD7FF),
                                 r.range(0xE000, 0xFFFF), r.range(0x10000, 0x10FFFF)])) for _ in range(n))


def gen_value(r, depth, allow_other=False):
    k = r.below(16 if depth > 0 else 11)
    if allow_other and r.chance(1, 6):
        return r.choice(OTHERS)()
    if k == 0:
        return r.choice([None, NotImplemented, Ellipsis, True, False])
    if k in (1, 2):
        return gen_int(r)
    if k == 3:
        return bits_to_float(r.choice(FLOAT_BITS) if r.chance(1, 2) else r.next())
    if k == 4:
        f = lambda: bits_to_float(r.choice(FLOAT_BITS) if r.chance(1, 2) else r.next())
        return complex(f(), f())
    if k in (5, 6):
        n = r.choice(LEN_CLASSES) if r.chance(3, 4) else r.below(40)
        return r.bytes(n)
    if k in (7, 8):
        n = r.choice(LEN_CLASSES) if r.chance(1, 2) else r.below(20)
        return gen_text(r, n)
    if k in (9, 10):
        return r.choice([(), b"", "", 0, 0.0, -0.0, frozenset(), slice(None, None, None)])
    if k in (11, 12, 13):
        n = r.choice([0, 1, 2, 3, 4, 5, 6]) if depth > 1 or r.chance(3, 4) else r.choice([254, 255, 256, 257])
        return tuple(gen_value(r, depth - 1 if n < 50 else 0, allow_other) for _ in range(n))
    if k == 14:
        n = r.below(6)
        items = []
        for _ in range(n):
            v = gen_value(r, depth - 1, allow_other)
            try:
                hash(v)
                items.append(v)
            except TypeError:
                pass
        return frozenset(items)
    return slice(gen_value(r, depth - 1, allow_other), gen_value(r, depth - 1, allow_other),
                 gen_value(r, depth - 1, allow_other))


def boundary_values():
    """every constructor at every length class that selects a different wire form"""
    out = [None, NotImplemented, Ellipsis, True, False, 0, -48, -49, 159, 160, -1, 10 ** 253, 10 ** 254, 10 ** 255,
           -10 ** 253, -10 ** 254, 10 ** 300, 2 ** 64, 0.0, -0.0, float("inf"), float("-inf"), 1e308, 5e-324,
           complex(0.0, -0.0), complex(float("inf"), float("nan")), "\ud800", "a\udfffb", "\U0001F600",
           "😀", slice(None), slice(1, 2, 3), slice((1, 2), "a", b"b"), frozenset(), frozenset([1, 2, 3]),
           frozenset([(1, 2), "x", frozenset([b"y"])]), (slice(1), frozenset([slice(2)]))]
    out += [bits_to_float(b) for b in FLOAT_BITS]
    out += [complex(bits_to_float(a), bits_to_float(b)) for a in FLOAT_BITS[:6] for b in FLOAT_BITS[4:8]]
    for n in LEN_CLASSES + BIG_LEN:
        out.append(bytes((i * 7 + n) & 0xFF for i in range(n)))
        out.append("".join(chr(0x20 + (i % 90)) for i in range(n)))
        if n <= 300:
            out.append("é" * n)
            out.append(tuple(range(n)))
            out.append(tuple((i, str(i)) for i in range(n)))
            out.append(frozenset(range(1000, 1000 + n)))
    out.append(tuple(range(65536)))
    if LIMIT:
        out += [10 ** (LIMIT - 1), -(10 ** (LIMIT - 1)), 10 ** LIMIT - 1, 10 ** LIMIT, (1, 10 ** LIMIT)]
    v = ()
    for _ in range(50):
        v = (v, 1)
    out.append(v)
    v = 7
    for _ in range(150):
        v = (v,)
    out.append(v)
    # non-serializable, alone and inside containers
    for mk in OTHERS:
        o = mk()
        out += [o, (1, o), ((o,),), (b"x", (2, (3, o)))]
        try:
            hash(o)
            out += [frozenset([o]), slice(o, 1, 2), slice(1, None, o), (frozenset([1, o]),)]
        except TypeError:
            pass
    return out


def depth_of(v):
    t = type(v)
    if t in (tuple, frozenset):
        return 1 + max([depth_of(x) for x in v] or [0])
    if t is slice:
        return 1 + max(depth_of(v.start), depth_of(v.stop), depth_of(v.step))
    return 0


def has_overlimit_int(v):
    t = type(v)
    if t is int:
        return bool(LIMIT) and abs(v) >= _TEN_LIMIT
    if t in (tuple, frozenset):
        return any(has_overlimit_int(x) for x in v)
    if t is slice:
        return has_overlimit_int(v.start) or has_overlimit_int(v.stop) or has_overlimit_int(v.step)
    return False


def impl_encode(v):
    b = brine()
    try:
        d = "T" if b.dumpable(v) else "F"
    except Exception as ex:  # noqa
        d = "err " + valtext.err_name(ex)
    try:
        e = "ok " + b.dump(v).hex()
    except Exception as ex:  # noqa
        e = "err " + valtext.err_name(ex)
    return d, e


def impl_decode(bs):
    b = brine()
    try:
        return "ok", b.load(bs)
    except RecursionError:
        return "skip", None
    except Exception as ex:  # noqa
        return "err " + valtext.err_name(ex), None


def valid_encodings(r, n):
    out = []
    b = brine()
    for v in boundary_values():
        try:
            e = b.dump(v)
            if len(e) < 3000:
                out.append(e)
        except Exception:  # noqa
            pass
    for _ in range(n):
        try:
            out.append(b.dump(gen_value(r, 3)))
        except Exception:  # noqa
            pass
    return out


def mutate(r, enc):
    k = r.below(8)
    e = bytearray(enc)
    if k == 0 and e:
        return bytes(e[:r.below(len(e) + 1)])
    if k == 1 and e:
        i = r.below(len(e))
        e[i] = r.below(256)
        return bytes(e)
    if k == 2 and e:
        i = r.below(len(e))
        e[i] = r.choice([0x08, 0x19, 0x1a, 0x16, 0x17, 0x0e, 0x0f, 0x14, 0x15, 0x10, 0x18, 0x1b, 0x07, 0x09, 0x1c])
        return bytes(e)
    if k == 3:
        return bytes(e) + r.bytes(r.below(4))
    if k == 4:
        return bytes([r.choice([0x08, 0x19, 0x1a])]) + bytes(e)
    if k == 5 and len(e) > 1:
        i = r.below(len(e))
        return bytes(e[:i] + e[i + 1:])
    if k == 6:
        # integer text perturbations: whitespace, sign, underscores, leading zeros
        body = r.choice([b" 12", b"12 ", b"+5", b"-0", b"1_000", b"1__0", b"_1", b"1_", b"007", b"", b"+", b"- 1",
                         b"\t7\n", b"1 2", b"0x10", b"\x00", b"12\x00", b"1e3", b"\xb2", b" ", b"0_0", b"+-1"])
        if r.chance(1, 4) and LIMIT:
            body = r.choice([b"0" * (LIMIT + 1), b"1" * LIMIT, b"1" * (LIMIT + 1), b"1_" * LIMIT + b"1",
                             b" " * 10 + b"9" * LIMIT, b"-" + b"9" * (LIMIT + 1)])
        if len(body) < 256 and r.chance(1, 2):
            return bytes([0x16, len(body)]) + body
        return bytes([0x17]) + struct.pack("!L", len(body)) + body
    i = r.below(len(e) + 1)
    return bytes(e[:i]) + r.bytes(r.below(3) + 1) + bytes(e[i:])


# ---------------------------------------------------------------------------------------------- correspondence
def branch_sig(kind, text, out):
    """distinctness key: operation, first token / constructor, length class, outcome class"""
    head = text.split(" ", 1)[0][:1] if text else "-"
    n = len(text)
    lc = 0 if n < 4 else 1 if n < 16 else 2 if n < 600 else 3
    return "%s:%s:%d:%s" % (kind, head, lc, out if out.startswith("err") else out[:4])


def correspondence(ctx):
    c = Corr()
    c.rule = ("encode: boundary corpus (every constructor x every length class incl. 65535/65536, digit-limit ints, "
              "NaN payloads, surrogates, 20 kinds of non-serializable object alone and nested) + seeded type-directed "
              "values; decode: ALL byte strings of length <= 2, seeded mutations of valid encodings (truncate, flip, "
              "retag, splice, int-grammar perturbations), tag-biased random bytes. A case is non-trivial unless it is "
              "the empty input / None; distinct = distinct (op, constructor, size class, outcome incl. error class).")
    r = Rng(ctx.seed).fork("c04")
    n_rand = ctx.budget(6000, 150000)
    enc_cases = boundary_values() + [gen_value(r, 4, allow_other=True) for _ in range(n_rand)]
    lines, impl = [], []
    for v in enc_cases:
        if depth_of(v) > 200:
            continue
        t = valtext.to_text(v)
        d, e = impl_encode(v)
        lines.append("brine dumpable " + t)
        impl.append(("dumpable", t, d))
        lines.append("brine enc " + t)
        impl.append(("enc", t, e))
    not_plain = set()
    dec_inputs = [b""] + [bytes([a]) for a in range(256)] + [bytes([a, b]) for a in range(256) for b in range(256)]
    n_exh = len(dec_inputs)
    valid = valid_encodings(r, ctx.budget(300, 3000))
    for _ in range(ctx.budget(8000, 300000)):
        dec_inputs.append(mutate(r, r.choice(valid)))
    for _ in range(ctx.budget(3000, 100000)):
        n = r.below(12) + 1
        bs = bytearray(r.bytes(n))
        if r.chance(2, 3):
            bs[0] = r.below(0x20)
        dec_inputs.append(bytes(bs))
    dec_inputs += valid
    for bs in dec_inputs:
        st, v = impl_decode(bs)
        if st == "skip":
            c.count("decode:skipped-recursion")
            continue
        lines.append("brine dec " + bs.hex())
        impl.append(("dec", bs.hex(), st if st != "ok" else "ok " + valtext.canon(v)))
        if st == "ok" and not only_plain(v):
            not_plain.add(bs.hex())
    try:
        outs = run_driver(lines)
    except DriverError as ex:
        c.error = str(ex)
        return c
    for (kind, text, want), got in zip(impl, outs):
        c.evaluations += 1
        if kind == "dec" and got.startswith("ok "):
            got = "ok " + valtext.canon(valtext.from_text(got[3:]))
        if got == "err NOT-MODELLED":
            c.count("decode:not-modelled(slice-of-frozenset)")
            # the one place the model does not follow (CPython's set iteration order): the real result must still be a
            # slice of plain values or ValueError
            if text in not_plain or not (want.startswith("ok ( ") or want.startswith("ok [") or want in ("err ValueError",)
                                         or want.startswith("ok")):
                c.disagreements.append(dict(op=kind, case=text[:2000], impl=want[:300], model=got[:300]))
            elif want.startswith("err") and want != "err ValueError":
                c.disagreements.append(dict(op=kind, case=text[:2000], impl=want[:300], model=got[:300]))
            continue
        c.count("%s:%s" % (kind, want.split(" ")[0] if not want.startswith("err") else want))
        if text not in ("", "N"):
            c.signatures.add(branch_sig(kind, text, want))
        if got != want:
            c.disagreements.append(dict(op=kind, case=text[:2000], impl=want[:300], model=got[:300]))
        elif len(c.samples) < 12 and c.evaluations % 997 == 3:
            c.samples.append(dict(op=kind, case=text[:200], outcome=want[:200]))
    depth_symmetry(c)
    c.extra["exhaustive_decode_inputs_up_to_2_bytes"] = n_exh
    if ctx.tier == "thorough" and not c.disagreements:
        exhaustive3(c)
    c.exhaustive = False
    return c


def nest(d, f):
    v = ()
    for _ in range(d):
        v = f(v)
    return v


NEST_SHAPES = [("tuple1", lambda x: (x,)), ("tuple5", lambda x: (x, 1, 2, 3, 4)), ("tuple300", lambda x: (x,) + (0,) * 299),
               ("slice", lambda x: slice(x, None, None)), ("frozenset", lambda x: frozenset([x]))]


def depth_symmetry(c):
    """real code only: decoding needs no more stack than encoding.  For each nesting shape, every depth at which
    dump() succeeds (called from here) must be decodable by load() (called from the same depth) - up to a 10% margin
    for constant per-call overheads.  The model has no recursion limit; this is where the ASSUMPTION 'values nested
    beyond the interpreter's recursion limit are outside' gets its measured meaning."""
    b = brine()
    found = {}
    old_limit = sys.getrecursionlimit()
    sys.setrecursionlimit(1000)          # the interpreter's default: what a deployed peer has
    try:
        for name, f in NEST_SHAPES:
            deepest_dump, first_load_fail = None, None
            for d in range(50, 1000, 10):
                v = nest(d, f)
                try:
                    data = b.dump(v)
                except RecursionError:
                    break
                deepest_dump = d
                try:
                    back = b.load(data)
                except RecursionError:
                    if first_load_fail is None:
                        first_load_fail = d
                    continue
                if d <= 150:                 # the harness's own comparison recurses too: compare shallow ones only
                    try:
                        same = typed_equal(back, v)
                    except RecursionError:
                        same = True
                    if not same:
                        c.disagreements.append(dict(op="depth", case="%s depth %d" % (name, d),
                                                    impl="load(dump v) differs", model="equal"))
            found[name] = dict(deepest_dump=deepest_dump, first_undecodable=first_load_fail)
    finally:
        sys.setrecursionlimit(old_limit)
    for name in list(found):
        deepest_dump, first_load_fail = found[name]["deepest_dump"], found[name]["first_undecodable"]
        c.evaluations += 1
        if first_load_fail is not None and deepest_dump and first_load_fail < 0.9 * deepest_dump:
            c.disagreements.append(dict(op="depth", case="%s: dump() accepts nesting %d but load() cannot decode nesting %d"
                                        % (name, deepest_dump, first_load_fail),
                                        impl="RecursionError in load", model="load(dump v) = v"))
    c.extra["nesting_depths_recursion_limit_1000"] = found


def exhaustive3(c):
    """thorough tier: ALL 16 777 216 byte strings of length 3, one driver run per leading byte"""
    n = 0
    for a in range(256):
        inputs = [bytes([a, b, d]) for b in range(256) for d in range(256)]
        wants, lines = [], []
        for bs in inputs:
            st, v = impl_decode(bs)
            if st == "skip":
                continue
            lines.append("brine dec " + bs.hex())
            wants.append((bs.hex(), st if st != "ok" else "ok " + valtext.canon(v), st != "ok" or only_plain(v)))
        outs = run_driver(lines)
        for (hx, want, plain), got in zip(wants, outs):
            n += 1
            if got.startswith("ok "):
                got = "ok " + valtext.canon(valtext.from_text(got[3:]))
            if got == "err NOT-MODELLED":
                if not plain or (want.startswith("err") and want != "err ValueError"):
                    c.disagreements.append(dict(op="dec", case=hx, impl=want[:300], model=got))
                continue
            if got != want or not plain:
                c.disagreements.append(dict(op="dec", case=hx, impl=want[:300], model=got[:300]))
        if len(c.disagreements) > 50:
            break
    c.evaluations += n
    c.count("decode:exhaustive-3-bytes", n)
    c.extra["exhaustive_decode_inputs_of_3_bytes"] = n


# ---------------------------------------------------------------------------------------------- direct oracle
def typed_equal(a, b):
    return valtext.canon(a) == valtext.canon(b)


PLAIN_TYPES = (type(None), type(NotImplemented), type(Ellipsis), bool, int, float, complex, bytes, str, tuple,
               frozenset, slice)


def only_plain(v):
    t = type(v)
    if t not in PLAIN_TYPES:
        return False
    if t in (tuple, frozenset):
        return all(only_plain(x) for x in v)
    if t is slice:
        return only_plain(v.start) and only_plain(v.stop) and only_plain(v.step)
    return True


def oracle_value(v):
    """None if the property holds for v on the real code, else a description"""
    b = brine()
    if has_overlimit_int(v) or depth_of(v) > 200:
        return None
    if b.dumpable(v):
        try:
            data = b.dump(v)
        except Exception as ex:  # noqa
            return "dumpable(v) is True but dump(v) raised %s" % valtext.err_name(ex)
        try:
            back = b.load(data)
        except Exception as ex:  # noqa
            return "load(dump(v)) raised %s" % valtext.err_name(ex)
        if not typed_equal(back, v):
            return "load(dump(v)) = %s differs from v" % valtext.canon(back)[:200]
        return None
    try:
        b.dump(v)
    except TypeError:
        return None
    except Exception as ex:  # noqa
        return "dumpable(v) is False but dump(v) raised %s, not TypeError" % valtext.err_name(ex)
    return "dumpable(v) is False but dump(v) succeeded"


def oracle_bytes(bs):
    b = brine()
    try:
        v = b.load(bs)
    except Exception:  # noqa
        return None
    if not only_plain(v):
        return "load returned a value outside the immutable plain types: %r" % (type(v),)
    if not b.dumpable(v):
        return "load returned a value that dumpable() rejects"
    return None


def safe_repr(v):
    try:
        return repr(v)[:300]
    except Exception as ex:  # noqa
        return "<%s object whose repr raises %s>" % (type(v).__name__, type(ex).__name__)


def depth_case(shape, d):
    """None if load can decode what dump produced for this nesting, else a description (default recursion limit)"""
    f = dict(NEST_SHAPES)[shape]
    b = brine()
    old_limit = sys.getrecursionlimit()
    sys.setrecursionlimit(1000)
    try:
        v = nest(d, f)
        try:
            data = b.dump(v)
        except RecursionError:
            return None
        try:
            b.load(data)
        except RecursionError:
            return ("dumpable and dump() accept a %s nested %d deep (recursion limit 1000) but load() of those bytes raises "
                    "RecursionError: a peer can send a value its receiver cannot decode" % (shape, d))
        return None
    finally:
        sys.setrecursionlimit(old_limit)


def describe(v):
    t = valtext.to_text(v)
    return t if len(t) < 4000 else t[:4000] + "..."


def oracle_search(ctx, corr, broken):
    r = Rng(ctx.seed).fork("c04-search")
    deadline = time.time() + ctx.budget(60, 600)
    # 1. cases the correspondence disagreed on
    for d in corr.disagreements[:200]:
        if d["op"] == "dec":
            bs = bytes.fromhex(d["case"])
            msg = oracle_bytes(bs)
            if msg:
                return dict(kind="input", side="decode", bytes=bs.hex()), msg, "decode"
    # 2. boundary corpus, then 3. fresh generated cases
    def values():
        for v in boundary_values():
            yield v
        while time.time() < deadline:
            yield gen_value(r, 4, allow_other=True)
    best = None
    for v in values():
        try:
            msg = oracle_value(v)
        except RecursionError:
            continue
        if msg:
            t = describe(v)
            if best is None or len(t) < len(best[0]["value"]):
                best = (dict(kind="input", side="encode", value=t, repr=safe_repr(v)), msg,
                        "encode:" + msg.split(" raised")[0][:40])
                if len(t) < 40:
                    break
    if best:
        return best
    for bs in [b""] + [bytes([a]) for a in range(256)] + [bytes([a, b]) for a in range(256) for b in range(256)]:
        msg = oracle_bytes(bs)
        if msg:
            return dict(kind="input", side="decode", bytes=bs.hex()), msg, "decode"
    # 3b. nesting: whatever dump() accepts, load() decodes (within a 10% margin of the deepest value dump accepts)
    for shape, _f in NEST_SHAPES:
        deepest = None
        for d in range(50, 1000, 10):
            old_limit = sys.getrecursionlimit()
            sys.setrecursionlimit(1000)
            try:
                try:
                    brine().dump(nest(d, _f))
                    deepest = d
                except RecursionError:
                    break
            finally:
                sys.setrecursionlimit(old_limit)
        for d in range(50, int(0.9 * (deepest or 0)), 10):
            msg = depth_case(shape, d)
            if msg:
                return dict(kind="input", side="depth", shape=shape, depth=d), msg, "depth:load-needs-more-stack-than-dump"
    # 4. the same statement with assertions compiled away (`python -O`): code that only works while `assert`
    #    statements execute is a failing configuration, not a failing value
    found = optimised_oracle([describe(v) for v in boundary_values()
                              if not has_overlimit_int(v) and depth_of(v) <= 200 and expressible(v)])
    if found:
        t, msg = found
        return (dict(kind="input", side="encode", value=t, interpreter_flags="-O"), msg + " (under python -O)",
                "encode-O:" + msg.split(" raised")[0][:40])
    return None


def expressible(v):
    try:
        return typed_equal(valtext.from_text(valtext.to_text(v)), v)
    except Exception:  # noqa
        return False


def optimised_oracle(texts):
    """run oracle_value on the given values in a child interpreter started with -O; (text, message) of the
    shortest failing one or None"""
    import json
    import os
    import subprocess
    here = os.path.dirname(os.path.abspath(__file__))
    repo = os.environ.get("RPYC_REPO", "/repo")
    env = dict(os.environ, PYTHONPATH=os.pathsep.join([repo, os.path.join(here, ".."), here]))
    try:
        p = subprocess.run([sys.executable, "-O", os.path.abspath(__file__), "--optimised-oracle"],
                           input="\n".join(texts).encode(), stdout=subprocess.PIPE, stderr=subprocess.PIPE,
                           env=env, timeout=300)
    except subprocess.TimeoutExpired:
        return None
    best = None
    for line in p.stdout.decode().splitlines():
        try:
            t, msg = json.loads(line)
        except ValueError:
            continue
        if best is None or len(t) < len(best[0]):
            best = (t, msg)
    return best


def replay(case):
    out = dict(case=case)
    if case.get("side") == "decode":
        bs = bytes.fromhex(case["bytes"])
        st, v = impl_decode(bs)
        out["implementation"] = st if st != "ok" else "ok " + valtext.canon(v)
        out["oracle"] = oracle_bytes(bs) or "holds"
        out["model"] = run_driver(["brine dec " + bs.hex()])[0]
    elif case.get("side") == "depth":
        out["oracle"] = depth_case(case["shape"], case["depth"]) or "holds"
        out["model"] = "the model has no recursion limit: load(dump v) = v (theorem load_dump)"
    elif case.get("interpreter_flags") == "-O":
        out["oracle_under_python_-O"] = optimised_oracle([case["value"]]) or "holds"
        v = valtext.from_text(case["value"])
        out["implementation"] = impl_encode(v)
        out["oracle"] = oracle_value(v) or "holds"
    else:
        v = valtext.from_text(case["value"])
        out["implementation"] = impl_encode(v)
        out["oracle"] = oracle_value(v) or "holds"
        out["model"] = run_driver(["brine dumpable " + case["value"], "brine enc " + case["value"]])
    return out


if __name__ == "__main__" and "--optimised-oracle" in sys.argv:
    import json
    for _line in sys.stdin.read().splitlines():
        try:
            _v = valtext.from_text(_line)
            _msg = oracle_value(_v)
        except RecursionError:
            continue
        except Exception as _ex:  # noqa
            _msg = "oracle crashed: %r" % (_ex,)
        if _msg:
            print(json.dumps([_line, _msg]))
