"""C19 — bytes on the wire are those of the published 5.x protocol.

Three parties are compared on the same cases:
  * the REAL code (rpyc.core.brine / channel / protocol from the tree under check, in-process),
  * the PUBLISHED format as Lean definitions (lean/RpycModel/Spec/Published.lean) through the compiled
    driver `drv_spec` (ops `spec enc|encx|const|frame|recv|msg`, and `brine dec` = the model of the real decoder),
  * an independently written Python reference codec and peer (harness/refcodec.py; imports nothing from rpyc).

(0) constants: every TAG_* of brine, every name of rpyc.core.consts, the channel constants, against the
    published value (Lean table and refcodec table).
(a) values: real `brine.dump` bytes = Lean `specEnc` bytes = refcodec bytes on C04's generators; refcodec
    encodings in NON-shortest legal forms must `brine.load` (and decode in the model) to the same value.
(b) packets: the byte stream of the real `Channel.send` = the published frame (zlib's output is taken from the
    real run; length field, flag and trailer are compared); reference frames compressed at other zlib levels,
    compressed below the threshold or uncompressed above it are accepted by the real `Channel.recv`; large highly
    compressible payloads (blank / repeated 64-byte record, 1 MiB+1 .. 8 MiB, zlib levels 1/6/9, ratios up to ~1000:1,
    plus 2 MiB incompressible) as raw packets and as ping arguments echoed by a real Connection (real code vs
    refcodec only, not through the Lean driver).
(d) one message per packet: a real Connection whose first stream write is gated while 2..4 further requests are issued
    from other threads (they queue), then released: every packet on the wire must reference-decode to exactly one
    message with no trailing bytes, each request once; and a packet whose payload is a message followed by a second
    message / garbage / a forged reply given to a real serving Connection: only the first message is acted on (as the
    model's load, theorem one_message_per_packet).  Two independent connections: channel A's send pre-empted before
    every bytecode instruction by a complete send on channel B (C05's instruction-level runner, judged here by the
    reference decoder): every packet's header must describe its own payload.
(e) every builtin exception class raised without arguments by a real serving Connection (one request each): every
    response must be a published exception message (EXC_STOP_ITERATION only for StopIteration, else the tuple).
(c) conversations: a real Connection talks to refcodec's peer and exercises EVERY published handler 1..20 (ping,
    close, getroot, getattr, delattr, setattr, call, callattr, repr, str, cmp, hash, dir, pickle (refused), del,
    inspect, buffiter, old slicing, leaving a `with proxy:` block (CTXEXIT), isinstance across the connection), plus
    keyword-argument calls (CALL and CALLATTR, kwargs as a tuple of pairs; also omitted), built-in and custom remote
    exceptions with the attrs / traceback positions of the dumped tuple checked: every packet the real side emits is decoded with the reference decoder,
    checked against the published message layout and re-encoded (bytes equal; also rebuilt by the Lean
    `Msg.wire`); the peer answers in non-shortest forms and at other zlib levels and the real side must produce
    the expected Python values.  Vice versa the reference peer composes the requests and a real Connection
    serves them.
Direct oracle (real code vs refcodec only): bytes equal the reference encoder's; reference-encoded bytes load to
the same value; packets have the published layout; conversations succeed.
"""
import time
import zlib

import refcodec
import valtext
from lineproto import run_driver, DriverError
from pipeline import Corr
from prng import Rng
from props import c04

ID = "C19"
LEAN_MODULE = "RpycModel.Props.C19"
NAMESPACE = "Rpyc.Props.C19"
GEN = ["Brine.lean", "Consts.lean", "Recorded.lean", "Wire.lean"]   # Wire.lean only through frame_eq_wire_model (C05's model)
DRIVERS = ["drv_spec"]
TRUSTED = [
    "ADMITTED: the published format is a hand transcription of the 5.0.x release by the same author as the model "
    "(lean/RpycModel/Spec/Published.lean incl. the per-handler argument layouts, reply shapes and the dumped-exception "
    "tuple; independently re-typed in harness/refcodec.py); only the brine docstring's printed example is an external "
    "test vector",
    "ADMITTED: Spec/Code.lean (what Channel.send/recv, _send, _box, _unbox, _async_request, _dispatch_request, _dispatch "
    "do to bytes) is hand-written over the regenerated constants. Ten of the theorems are therefore DEFINITIONAL given "
    "gen_eq_published and carry no tie to the code of their own: box_layout, msg_layout_request, msg_layout_reply, "
    "msg_layout_exception, msg_layout_wire, request_wire, reply_wire, exception_wire, dispatch_reads_published, "
    "unbox_reads_published; gen_eq_published repackages the per-group lemmas; struct_formats_published is a generator "
    "GUARD (literal true or Inexpressible). The tie of Code.lean to the code is (a) the generated facts: Gen/Recorded.lean "
    "(what the live _box, _unbox, the live call sites incl. async_/timed, _dispatch_request under the quiet and the "
    "default configuration, and _dispatch did on fixed probes at regeneration time: theorems recorded_*), "
    "Gen/Consts.lean handlerArity (inspect.signature: counts, not parameter order) and callSites (AST, with a "
    "coverage lower bound), and (b) this correspondence. Below (kind, seq, args) the Lean statements are about those "
    "finitely many probes, not quantified",
    "modelled, not verified: zlib is a parameter of the frame theorems (only `inflate (deflate b) = b` is assumed of "
    "the receiver's zlib); struct '!d' bit transparency; str(int) = canonical decimal; CPython's strict UTF-8 = the "
    "model's codec",
    "the semantics of the handlers beyond their argument layout (what getattr/call/... DO) is C01/C02/C06/C07's subject; "
    "here: number, arity, argument kinds, reply shape where fixed, and the conversation outcomes with the reference peer",
]
ASSUMPTIONS = [
    "KNOWN FINDING C19:lone-surrogate-text-uses-surrogatepass: dumpable text with a lone surrogate is transmitted in a "
    "form the published format does not define (theorem C19_emits_only_published_counterexample; the full-strength "
    "statement C19_emits_only_published is FALSE of this tree; enc_eq_specEnc / C19_emits_only_published_partial hold on "
    "ScalarText values). Such values are judged by the correspondence and counted under that signature",
    "nesting: the theorems quantify over all nesting depths of the MODEL; the code recurses per level (brine dump/load: a "
    "tuple nested ~500 deep raises RecursionError under the default recursion limit, so such a conforming packet is "
    "refused and such a value not encoded). Values nested deeper than 200 are not judged by the correspondence (counted "
    "as value:not-judged:nested-deeper-than-200 / value:skipped-recursion)",
    "integers beyond the interpreter's int<->str digit limit are outside the statement (a published peer may send "
    "them; this interpreter's int()/str() refuse them: ValueError) — theorem hypotheses `Renderable` / `Parsable`",
    "lengths >= 2**32 are refused by both sides with the packer's error (proved, not generated)",
    "the recorded probes (Gen/Recorded.lean) are finitely many fixed inputs: they tie the model's shape to the code, the "
    "quantified statements are about the model",
]
EXPLANATION = (
    "Theorems (Rpyc.Props.C19). Quantified over all values / byte strings / payloads of the model: enc_eq_specEnc, "
    "enc_eq_specEnc_any_text, enc_shortest, enc_in_grammar, dec_complete, dec_complete_stream, one_message_per_packet, "
    "frame_layout, frame_eq_wire_model, recv_accepts_conforming_frame, C19_emits_only_published_partial; "
    "C19_emits_only_published_counterexample (known finding: lone-surrogate text). Generated-vs-published tables "
    "(decide): tags_published, load_registry_published, imm_window_published, msg_kinds_published, labels_published, "
    "handlers_published, handler_routing_published, exc_published, frame_consts_published, consts_complete, "
    "handler_arity_published, call_sites_fit_published, call_sites_cover_published, doc_sample_published/_dump. "
    "Recorded live behaviour on fixed probes (decide): recorded_probes_ran, operations_use_published_handlers, "
    "recorded_requests_conform, recorded_requests_match_model, recorded_box_matches_model, recorded_unbox_matches_model, "
    "recorded_responses_published, recorded_exceptions_published, recorded_replies_have_published_shape, "
    "recorded_dispatch_matches_model. Definitional over the hand-written Spec/Code.lean (no tie of their own, see "
    "trusted_base): box_layout, msg_layout_request/reply/exception, msg_layout_wire, request_wire, reply_wire, "
    "exception_wire, dispatch_reads_published, unbox_reads_published; gen_eq_published repackages; "
    "struct_formats_published is a generator guard. `evaluations` counts cases run on the real code; the same cases "
    "evaluated by the Lean driver are `driver_lines`.")

LIMIT = c04.LIMIT


# ---- fast text forms (valtext.canon / valtext.to_text / c04.has_overlimit_int recompute 10 ** 4000 for every integer)
import struct as _struct
_BIG = 10 ** 4000
_OVER = 10 ** LIMIT if LIMIT else None
_SINGLE = {type(None): "N", type(NotImplemented): "X", type(Ellipsis): "E"}


def _int_text(v):
    return str(v) if -_BIG < v < _BIG else valtext._bigstr(v)


def canon(v):
    """= valtext.canon"""
    t = type(v)
    if t in _SINGLE:
        return _SINGLE[t]
    if t is bool:
        return "T" if v else "F"
    if t is int:
        return "I" + _int_text(v)
    if t is float:
        return "D" + _struct.pack("!d", v).hex()
    if t is complex:
        return "C" + _struct.pack("!d", v.real).hex() + ":" + _struct.pack("!d", v.imag).hex()
    if t is bytes:
        return "B" + v.hex()
    if t is str:
        return "S" + ",".join(map(str, map(ord, v)))
    if t is tuple:
        return "( " + "".join(canon(x) + " " for x in v) + ")"
    if t is frozenset:
        return "{ " + "".join(x + " " for x in sorted(canon(x) for x in v)) + "}"
    if t is slice:
        return "[ %s %s %s ]" % (canon(v.start), canon(v.stop), canon(v.step))
    return "O:" + t.__name__


def to_text(v):
    """= valtext.to_text (frozensets in iteration order; refcodec.FSet in wire order)"""
    out = []

    def go(x):
        t = type(x)
        if t is int:
            out.append("I" + _int_text(x))
        elif t is tuple:
            out.append("(")
            for y in x:
                go(y)
            out.append(")")
        elif t is frozenset or t is refcodec.FSet:
            out.append("{")
            for y in tuple(x):
                go(y)
            out.append("}")
        elif t is slice:
            out.append("[")
            go(x.start)
            go(x.stop)
            go(x.step)
            out.append("]")
        elif t is bytes:
            out.append("B" + x.hex())
        elif t is str:
            out.append("S" + ",".join(map(str, map(ord, x))))
        else:
            out.append(valtext.to_text(x))
    go(v)
    return " ".join(out)


def has_overlimit_int(v):
    t = type(v)
    if t is int:
        return _OVER is not None and (v >= _OVER or v <= -_OVER)
    if t in (tuple, frozenset):
        return any(has_overlimit_int(x) for x in v)
    if t is slice:
        return has_overlimit_int(v.start) or has_overlimit_int(v.stop) or has_overlimit_int(v.step)
    return False


def rp():
    import rpyc
    from rpyc.core import brine, channel, consts, protocol, stream
    return rpyc, brine, channel, consts, protocol, stream


# ---------------------------------------------------------------------------------------------- helpers
def has_surrogate(v):
    t = type(v)
    if t is str:
        return any(0xD800 <= ord(c) <= 0xDFFF for c in v)
    if t in (tuple, frozenset):
        return any(has_surrogate(x) for x in v)
    if t is slice:
        return has_surrogate(v.start) or has_surrogate(v.stop) or has_surrogate(v.step)
    return False


def hexarg(b):
    return b.hex() if b else "-"


class Ref:
    """a request argument that is a reference to an object of the receiver"""
    def __init__(self, id_pack):
        self.id_pack = id_pack


class RemoteRef:
    """a request argument that is a reference to an object of the sender (the reference peer's own object)"""
    def __init__(self, id_pack):
        self.id_pack = id_pack


def to_text_ordered(v):
    return to_text(v)


class Policy:
    """chooses among the legal forms of a node; records what it chose"""
    def __init__(self, r, mode):
        self.r, self.mode, self.used = r, mode, {}

    def __call__(self, kind, cands):
        if self.mode == "longest":
            k = max(range(len(cands)), key=lambda i: len(cands[i]))
        elif self.mode == "shortest":
            k = min(range(len(cands)), key=lambda i: len(cands[i]))
        else:
            k = self.r.below(len(cands))
        key = "%s:tag%02x" % (kind, cands[k][0]) if cands[k][0] < 0x20 else "%s:imm" % kind
        self.used[key] = self.used.get(key, 0) + 1
        return k


# ---------------------------------------------------------------------------------------------- (0) constants
def live_constants():
    _rpyc, brine, channel, consts, _p, _s = rp()
    out = {}
    for k, v in vars(brine).items():
        if k.startswith("TAG_"):
            out[k] = v[0] if isinstance(v, bytes) and len(v) == 1 else repr(v)
    for k, v in vars(consts).items():
        if not k.startswith("_"):
            out[k] = v
    imm = brine.IMM_INTS
    out["IMM_LO"], out["IMM_HI"] = min(imm), max(imm) + 1
    out["IMM_BASE"] = imm[min(imm)][0] - min(imm)
    C = channel.Channel
    out["COMPRESSION_THRESHOLD"], out["COMPRESSION_LEVEL"] = C.COMPRESSION_THRESHOLD, C.COMPRESSION_LEVEL
    out["FRAME_HEADER_SIZE"] = C.FRAME_HEADER.size
    out["FLUSHER"] = C.FLUSHER
    return out


def const_cases():
    live = live_constants()
    cases = []
    for name in sorted(live):
        v = live[name]
        want = "ok " + (hexarg(v) if isinstance(v, bytes) else str(v))
        ref = refcodec.CONSTS.get(name)
        if name in ("IMM_LO", "IMM_HI", "IMM_BASE"):
            ref = {"IMM_LO": refcodec.IMM_FIRST, "IMM_HI": refcodec.IMM_LAST + 1, "IMM_BASE": refcodec.IMM_OFFSET}[name]
        elif name == "COMPRESSION_THRESHOLD":
            ref = refcodec.COMPRESSION_THRESHOLD
        elif name == "COMPRESSION_LEVEL":
            ref = refcodec.COMPRESSION_LEVEL
        elif name == "FRAME_HEADER_SIZE":
            ref = refcodec.HEADER_SIZE
        elif name == "FLUSHER":
            ref = refcodec.TRAILER
        refs = "ok " + (hexarg(ref) if isinstance(ref, bytes) else str(ref)) if ref is not None else "err unknown"
        cases.append(("spec const " + name, want, refs))
    # published names the tree no longer defines
    for name in sorted(refcodec.CONSTS):
        if name not in live:
            cases.append(("spec const " + name, "missing in rpyc", "ok %d" % refcodec.CONSTS[name]))
    return cases


# ---------------------------------------------------------------------------------------------- (a) values
def impl_dump(v):
    brine = rp()[1]
    try:
        return "ok " + brine.dump(v).hex()
    except RecursionError:
        return "skip"
    except Exception as ex:  # noqa
        return "err " + valtext.err_name(ex)


def ref_dump(v, choose=None):
    try:
        return "ok " + refcodec.encode(v, choose).hex()
    except refcodec.NotEncodable:
        return "err not-encodable"


def in_published_domain(v):
    """values the published format can express and this interpreter can render"""
    return refcodec.encodable(v) and not has_overlimit_int(v)


def value_stream(r, n):
    for v in c04.boundary_values():
        yield v
    for _ in range(n):
        yield c04.gen_value(r, 4, allow_other=r.chance(1, 8))


SIG_SURROGATE = "C19:lone-surrogate-text-uses-surrogatepass"


def surrogate_text_judgement(v):
    """A dumpable value whose text holds a lone surrogate: the published format has no encoding for it (text = UTF-8).
    None if the real encoder refuses it at the sender (what 5.0.x did); else a description of what it transmits."""
    brine = rp()[1]
    try:
        data = brine.dump(v)
    except (UnicodeEncodeError, TypeError, ValueError, RecursionError):
        return None
    try:
        refcodec.decode(data)
    except refcodec.FormatError as ex:
        return ("dump(v) transmits %s, which is not a sentence of the published format (reference decoder: %s; a strict 5.0.x "
                "_load_unicode raises UnicodeDecodeError out of serve())" % (data.hex()[:80], ex))
    return None


def check_value_real(v, r):
    """direct oracle for one value on the real code and refcodec only; None or a description"""
    brine = rp()[1]
    if c04.depth_of(v) > 200 or has_overlimit_int(v):
        return None
    if has_surrogate(v) and brine.dumpable(v):
        return surrogate_text_judgement(v)
    if not in_published_domain(v):
        return None
    want = refcodec.encode(v)
    try:
        got = brine.dump(v)
    except Exception as ex:  # noqa
        return "dump(v) raised %s; the published encoding is %s" % (valtext.err_name(ex), want.hex()[:120])
    if got != want:
        return "dump(v) = %s differs from the published encoding %s" % (got.hex()[:120], want.hex()[:120])
    for mode in ("longest", "random", "random"):
        bs = refcodec.encode(v, Policy(r, mode))
        try:
            back = brine.load(bs)
        except Exception as ex:  # noqa
            return "load(%s) raised %s; it is a legal (%s-form) encoding of v" % (bs.hex()[:120], valtext.err_name(ex), mode)
        if canon(back) != canon(v):
            return "load(%s) = %s, a legal (%s-form) encoding of v" % (bs.hex()[:120], canon(back)[:120], mode)
    return None


# ---------------------------------------------------------------------------------------------- (b) packets
class CaptureStream:
    """the minimum `Channel` needs of a stream"""
    def __init__(self, chunk, inbox=b""):
        self.MAX_IO_CHUNK = chunk
        self.writes = []
        self.inbox = bytearray(inbox)
        self.closed = False

    def write(self, data):
        self.writes.append(bytes(data))

    def read(self, count):
        if len(self.inbox) < count:
            raise EOFError("short")
        d = bytes(self.inbox[:count])
        del self.inbox[:count]
        return d

    def close(self):
        self.closed = True


FRAME_SIZES = [0, 1, 5, 2999, 3000, 3001, 3002, 4000, 63993, 63994, 63995, 63999, 64000, 64001, 70000]


def frame_payloads(r, quick):
    sizes = list(FRAME_SIZES) + [r.range(0, 6000) for _ in range(6 if quick else 60)] + \
        [r.range(60000, 68000) for _ in range(2 if quick else 20)]
    out = []
    for n in sizes:
        out.append(bytes((i * 31 + n) % 7 for i in range(n)))          # compressible
        if n in (3001, 64000) or r.chance(1, 4):
            out.append(r.bytes(n))                                      # incompressible: zlib output longer than input
    return out


def real_send(data, compress, chunk=64000):
    channel = rp()[2]
    st = CaptureStream(chunk)
    channel.Channel(st, compress).send(data)
    return b"".join(st.writes), len(st.writes)


def real_recv(stream_bytes, compress=True):
    channel = rp()[2]
    st = CaptureStream(64000, stream_bytes)
    try:
        d = channel.Channel(st, compress).recv()
    except Exception as ex:  # noqa
        return "err " + valtext.err_name(ex), None, None
    return "ok", d, bytes(st.inbox)


def check_send_real(data, compress):
    """direct oracle for Channel.send; None or description"""
    try:
        wire, _nw = real_send(data, compress)
    except Exception as ex:  # noqa
        return "Channel.send raised %s" % valtext.err_name(ex)
    may_compress = compress and len(data) > refcodec.COMPRESSION_THRESHOLD
    if len(wire) < 6:
        return "packet of %d bytes is shorter than header + trailer" % len(wire)
    n, flag = int.from_bytes(wire[:4], "big"), wire[4]
    if flag not in (0, 1) or (flag == 1 and not may_compress):
        return ("compression flag %d on a packet of %d bytes (compress=%s); published: zlib is used only above %d bytes, and only "
                "when compression is on" % (flag, len(data), compress, refcodec.COMPRESSION_THRESHOLD))
    if len(wire) != 5 + n + 1:
        return "length field says %d, the packet has %d bytes (published: 4-byte big-endian length, flag, payload, newline)" % (n, len(wire))
    if wire[-1:] != b"\n":
        return "packet ends with %r, published: newline" % wire[-1:]
    payload = wire[5:-1]
    try:
        back = zlib.decompress(payload) if flag else payload
    except zlib.error:
        return "payload is flagged compressed but is not a zlib stream"
    if back != data:
        return "payload does not carry the data"
    return None


def check_recv_real(data, level, force, rest=b"\x01\x02"):
    f = refcodec.frame(data, True, level, force)
    st, got, left = real_recv(f + rest)
    if st != "ok":
        return "Channel.recv raised %s on a conforming packet (zlib level %s, force=%s, %d bytes)" % (st[4:], level, force, len(data))
    if got != data:
        return "Channel.recv returned other data for a conforming packet (zlib level %s, force=%s, %d bytes)" % (level, force, len(data))
    if left != rest:
        return "Channel.recv consumed %d bytes beyond the packet" % (len(rest) - len(left))
    return None


# -- large, highly compressible packets (boundary corpus, run every time; real code vs refcodec only: multi-MiB payloads
#    are not pushed through the Lean driver).  The format allows any zlib level; levels >= 4 reach ~1000:1 on repetitive
#    data, so a conforming peer's packet may inflate to a thousand times its size.
MIB = 1 << 20
BIG_KINDS = ("blank", "record64", "random")
BIG_RECV = [(kind, n, level) for kind in ("blank", "record64") for n in (MIB + 1, 2 * MIB, 4 * MIB, 8 * MIB)
            for level in (1, 6, 9)] + [("random", 2 * MIB, 6)]
BIG_PING = [("server", "blank", 8 * MIB, 9), ("server", "record64", 4 * MIB, 6), ("server", "record64", MIB + 1, 1),
            ("server", "blank", 2 * MIB, 6), ("server", "random", 2 * MIB, 6),
            ("client", "record64", 8 * MIB, 9), ("client", "blank", MIB + 1, 6)]
_big_cache = {}


def big_payload(kind, n):
    key = (kind, n)
    if key not in _big_cache:
        if kind == "blank":
            d = b"\x00" * n
        elif kind == "record64":
            rec = bytes((i * 37 + 11) % 251 for i in range(64))
            d = (rec * (n // 64 + 1))[:n]
        else:
            d = Rng(n).bytes(n)
        _big_cache[key] = d
    return _big_cache[key]


def check_big_recv(kind, n, level):
    """None or a description; also returns the compression ratio of the reference packet"""
    data = big_payload(kind, n)
    f = refcodec.frame(data, True, level)
    ratio = len(data) / max(1, len(f) - 6)
    st, got, left = real_recv(f + b"\x07")
    if st != "ok":
        return ("Channel.recv raised %s on a conforming packet: %d bytes of %s data compressed at zlib level %d to %d bytes (%.0f:1)"
                % (st[4:], n, kind, level, len(f) - 6, ratio)), ratio
    if got != data or left != b"\x07":
        return "Channel.recv returned other data for a conforming packet (%d bytes of %s data, zlib level %d)" % (n, kind, level), ratio
    return None, ratio


def check_big_ping(direction, kind, n, level):
    """a ping whose argument is a large compressible byte string, echoed by a real Connection (direction=server:
    the reference peer asks at zlib level `level`; direction=client: the real side asks, the peer answers at that level)"""
    rpyc, _b, channel, consts, _p, _s = rp()
    data = big_payload(kind, n)
    peer = refcodec.RefPeer(compress=True, level=level)
    st = make_loop_stream()
    consumed = [0]
    if direction == "server":
        conn = make_service()._connect(channel.Channel(st, True), dict(SERVER_CONFIG))
        seq, pkt = peer.compose("PING", refcodec.box_value((data,)))
        st.inbox += pkt
        try:
            while st.inbox and not conn.closed:
                conn.serve(0)
        except Exception as ex:  # noqa
            return "serving a ping of %d bytes of %s data sent at zlib level %d raised %s%r; the request is never answered" % (
                n, kind, level, type(ex).__name__, ex.args[:1])
        finally:
            back = bytes(st.out)
        peer.feed(back)
        msg = peer.pending.get(seq)
        try:
            conn.close()
        except Exception:  # noqa
            pass
        if peer.problems:
            return "; ".join(peer.problems)[:300]
        if msg is None:
            return "a ping of %d bytes of %s data sent at zlib level %d got no response" % (n, kind, level)
        if msg[0] != "reply" or msg[2] != (refcodec.LABEL_VALUE, data):
            return "a ping of %d bytes of %s data sent at zlib level %d was answered with %s" % (n, kind, level, msg[0])
        return None

    def pump():
        out = bytes(st.out[consumed[0]:])
        consumed[0] = len(st.out)
        if out:
            st.inbox += peer.feed(out)
    st.pump = pump
    conn = rpyc.VoidService()._connect(channel.Channel(st, True), {})
    try:
        got = conn.sync_request(consts.HANDLE_PING, data)
    except BaseException as ex:  # noqa
        return "a ping of %d bytes of %s data, echoed by a conforming peer at zlib level %d, raised %s%r at the real client" % (
            n, kind, level, type(ex).__name__, ex.args[:1])
    finally:
        try:
            conn.close()
        except Exception:  # noqa
            pass
    if got != data:
        return "a ping of %d bytes echoed by a conforming peer at zlib level %d returned other data" % (n, level)
    return None


# -- (d) one message per packet: sends queued behind a gated write; trailing bytes inside a packet's payload
def check_queued_sends(n_queued=2, big_first=False, compress=True):
    """A real Connection: thread T1's stream.write is gated, `n_queued` further requests are issued from other threads
    meanwhile (they queue in `_send_queue` and return), then the gate opens.  Every packet on the wire is checked with
    the independent reference decoder: exactly one message per packet, no trailing bytes; each request exactly once."""
    import threading
    rpyc, _b, channel, consts, _p, _s = rp()
    st = make_loop_stream()
    gate, entered = threading.Event(), threading.Event()
    plain_write = st.write
    first = [True]

    def gated_write(data):
        if first[0]:
            first[0] = False
            entered.set()
            gate.wait(10)
        plain_write(data)
    st.write = gated_write
    conn = rpyc.VoidService()._connect(channel.Channel(st, compress), {})
    datas = [("first " * (2000 if big_first else 1))] + ["queued-%d" % k for k in range(n_queued)]
    errors = []

    def send(d):
        try:
            conn.async_request(consts.HANDLE_PING, d)
        except Exception as ex:  # noqa
            errors.append("%s%r" % (type(ex).__name__, ex.args[:1]))
    t1 = threading.Thread(target=send, args=(datas[0],), daemon=True)
    t1.start()
    problems = []
    try:
        if not entered.wait(10):
            return ["the first request never reached the stream"], []
        others = [threading.Thread(target=send, args=(d,), daemon=True) for d in datas[1:]]
        for t in others:
            t.start()
            t.join(10)                      # returns at once: the send lock is taken, the message stays queued
            if t.is_alive():
                problems.append("a sender blocked although another thread holds the send lock")
    finally:
        gate.set()
    t1.join(10)
    if t1.is_alive():
        problems.append("the gated sender did not finish")
    problems += ["sender raised " + e for e in errors]
    wire = bytes(st.out)
    seen, rest, k = [], wire, 0
    while rest:
        try:
            payload, rest = refcodec.unframe(rest)
        except (refcodec.FormatError, zlib.error) as ex:
            problems.append("packet %d: %s" % (k, ex))
            break
        try:
            val = refcodec.decode(payload)
        except refcodec.FormatError as ex:
            problems.append("packet %d is not ONE encoded message (published: one message per packet): %s" % (k, ex))
            seen.append(None)
            k += 1
            continue
        try:
            m = refcodec.parse_message(val)
            seen.append(m)
        except refcodec.FormatError as ex:
            problems.append("packet %d: %s" % (k, ex))
        k += 1
    pings = sorted(m[3][1][0] for m in seen if m and m[0] == "request" and m[2] == refcodec.HANDLERS["PING"])
    if not problems and pings != sorted(datas):
        problems.append("the %d requests issued are not each on the wire exactly once as a packet of their own: %d packets, "
                        "pings %r" % (len(datas), len(seen), [p[:12] for p in pings]))
    conn._closed = True
    return problems, [len(wire), len(seen)]


def check_trailing_in_packet(kind, compress=True):
    """A conforming packet = ONE message.  A packet whose payload is a message followed by further bytes (a second
    encoded message, or garbage) is given to a real serving Connection: at most the first message may be acted on
    (the pinned `brine.load` ignores what follows the value; so does the model's `Brine.load`)."""
    _rpyc, _b, channel, _c, _p, _s = rp()
    R = refcodec
    st = make_loop_stream()
    conn = make_service()._connect(channel.Channel(st, compress), dict(SERVER_CONFIG))
    m1 = R.encode(R.request(41, R.HANDLERS["PING"], R.box_value(("first",))))
    tail = {"message": R.encode(R.request(42, R.HANDLERS["PING"], R.box_value(("second",)))),
            "garbage": b"\x07\x09\xff", "reply": R.encode(R.reply(41, R.box_value("forged")))}[kind]
    st.inbox += R.frame(m1 + tail, compress)
    problems = []
    try:
        while st.inbox and not conn.closed:
            conn.serve(0)
    except Exception as ex:  # noqa
        problems.append("serving a packet with %d trailing bytes raised %s%r" % (len(tail), type(ex).__name__, ex.args[:1]))
    peer = R.RefPeer()
    peer.feed(bytes(st.out))
    problems += peer.problems
    answered = sorted(peer.pending)
    if answered != [41]:
        problems.append("a packet carrying one message followed by %s (%d bytes) produced responses for seq %r; published: one "
                        "packet = one message, so exactly the first (seq 41) is answered" % (kind, len(tail), answered))
    elif peer.pending[41][:1] != ("reply",) or peer.pending[41][2] != (R.LABEL_VALUE, "first"):
        problems.append("the first message of the packet was not answered with its own data: %r" % (peer.pending[41],))
    try:
        conn.close()
    except Exception:  # noqa
        pass
    return problems, m1 + tail, m1


QUEUED_CASES = [(2, False, True), (3, False, True), (2, True, True), (4, True, False)]
TRAILING_KINDS = ("message", "garbage", "reply")


# ---------------------------------------------------------------------------------------------- (c) conversations
class Stalled(Exception):
    """the real side waits for bytes that will never come"""


def make_loop_stream():
    Stream = rp()[5].Stream

    class LoopStream(Stream):
        MAX_IO_CHUNK = 64000

        def __init__(self):
            self.inbox = bytearray()
            self.out = bytearray()
            self._closed = False
            self.pump = None

        def close(self):
            self._closed = True

        @property
        def closed(self):
            return self._closed

        def fileno(self):
            if self._closed:
                raise EOFError("closed")
            return 0

        def write(self, data):
            if self._closed:
                raise EOFError("closed")
            self.out += data

        def read(self, count):
            if len(self.inbox) < count and self.pump:
                self.pump()
            if self._closed or len(self.inbox) < count:
                self._closed = True
                raise EOFError("end of stream")
            d = bytes(self.inbox[:count])
            del self.inbox[:count]
            return d

        def poll(self, timeout):
            if self._closed:
                raise EOFError("closed")
            if not self.inbox and self.pump:
                self.pump()
            if not self.inbox:
                raise Stalled("nothing to read and the peer has nothing to say")
            return True
    return LoopStream()


def conv_value(r, depth=2):
    """a value of the published domain, small enough for a conversation"""
    for _ in range(50):
        v = c04.gen_value(r, depth)
        if in_published_domain(v) and c04.depth_of(v) < 20 and len(to_text(v)) < 20000:
            return v
    return 0


def same(a, b):
    return canon(a) == canon(b)


def no_refs(b):
    """a boxed tree of LABEL_VALUE / LABEL_TUPLE only (by value as a whole or item by item: both are published)"""
    if b[0] == refcodec.LABEL_VALUE:
        return True
    return b[0] == refcodec.LABEL_TUPLE and all(no_refs(x) for x in b[1])


def audit_real_frames(stream_bytes, compress, problems, frames):
    """every packet the real side wrote: reference-decode, layout, re-encode, flag rule"""
    try:
        pk = refcodec.packets(stream_bytes)
    except (refcodec.FormatError, zlib.error) as ex:
        problems.append("real side's byte stream is not a sequence of published packets: %s" % ex)
        return
    for flag, _payload, data in pk:
        if flag == 1 and not (compress and len(data) > refcodec.COMPRESSION_THRESHOLD):
            problems.append("packet of %d bytes is compressed (compress=%s); published: zlib only above %d bytes"
                            % (len(data), compress, refcodec.COMPRESSION_THRESHOLD))
        try:
            val = refcodec.decode(data, keep_order=True)
            msg = refcodec.parse_message(val)
        except refcodec.FormatError as ex:
            problems.append("real packet %s..: %s" % (data.hex()[:60], ex))
            continue
        if refcodec.encode(val) != data:
            problems.append("real packet %s.. is not in shortest form" % data.hex()[:60])
        frames.append((msg[0], val, data))


def run_client_conversation(seed, idx):
    """the real Connection is the client, refcodec's peer serves.  Returns dict(problems, frames, ops, forms)."""
    rpyc, _b, channel, consts, _p, _s = rp()
    r = Rng(seed).fork("c19-client-%d" % idx)
    pol = Policy(r, r.choice(["random", "random", "longest", "shortest"]))
    compress = r.chance(3, 4)
    extra = {"v0": conv_value(r), "v1": conv_value(r, 3)}
    peer = refcodec.RefPeer(choose=pol, compress=r.chance(3, 4), level=r.choice([1, 1, 6, 9, 0]),
                            force=r.choice([None, None, None, True, False]), extra_attrs=extra)
    st = make_loop_stream()
    consumed = [0]

    def pump():
        data = bytes(st.out[consumed[0]:])
        consumed[0] = len(st.out)
        if data:
            st.inbox += peer.feed(data)
    st.pump = pump
    problems, ops, frames = [], [], []
    conn = rpyc.VoidService()._connect(channel.Channel(st, compress), {})

    def step(name, fn, expect=None, raises=None, check_exc=None):
        try:
            got = fn()
        except Stalled as ex:
            problems.append("%s: stalled (%s)" % (name, ex))
            ops.append((name, "stalled"))
            return None
        except BaseException as ex:  # noqa
            if raises is not None and type(ex).__name__ == raises[0] and (raises[1] is None or ex.args == raises[1]):
                ops.append((name, "raised " + raises[0]))
                if check_exc is not None:
                    bad = check_exc(ex)
                    if bad:
                        problems.append("%s: %s" % (name, bad))
                return None
            problems.append("%s: raised %s%r, expected %s" % (name, type(ex).__name__, ex.args[:2], raises or "a value"))
            ops.append((name, "raised " + type(ex).__name__))
            return None
        if raises is not None:
            problems.append("%s: returned %s, expected %s" % (name, canon(got)[:80], raises[0]))
        elif expect is not None and not same(got, expect[0]):
            problems.append("%s: got %s, expected %s" % (name, canon(got)[:120], canon(expect[0])[:120]))
        ops.append((name, "ok"))
        return got

    script = ["ping", "pingv", "attr", "attr", "extra", "add", "echo", "call", "fail", "stop", "missing", "big", "del",
              "kwargs", "custom", "async", "foreign", "setdel", "strrepr", "hashcmp", "dir", "pickle", "buffiter", "oldslice", "with", "isinstance"]
    r.shuffle(script)
    if idx % FULL_EVERY != 0:              # every FULL_EVERY-th conversation runs the whole script: all 20 handlers
        script = script[:r.range(6, len(script))]
    root = step("getroot", lambda: conn.root)
    for op in script:
        if root is None and op not in ("ping", "pingv", "big"):
            continue
        if op == "ping":
            text = "".join(chr(r.range(32, 0x2FF)) for _ in range(r.choice([0, 1, 4, 5, 255, 256, 300])))
            step("ping", lambda: conn.ping(text))
        elif op == "pingv":
            v = conv_value(r, 3)
            step("ping-value", lambda: conn.sync_request(consts.HANDLE_PING, v), expect=(v,))
        elif op == "big":
            n = r.choice([2900, 3100, 5000, 64100])
            data = bytes((i * 7) % 11 for i in range(n))
            step("ping-%d-bytes" % n, lambda: conn.sync_request(consts.HANDLE_PING, data), expect=(data,))
        elif op == "attr":
            name = r.choice(["answer", "name", "blob", "pair"])
            step("getattr " + name, lambda: getattr(root, name), expect=(peer.attrs[name],))
        elif op == "extra":
            name = r.choice(["v0", "v1"])
            step("getattr " + name, lambda: getattr(root, name), expect=(extra[name],))
        elif op == "add":
            a, b = (r.range(-10 ** 6, 10 ** 6), r.range(-300, 300)) if r.chance(1, 2) else ("ab", "cdé")
            step("callattr add", lambda: root.add(a, b), expect=(a + b,))
        elif op == "echo":
            args = tuple(conv_value(r) for _ in range(r.below(6)))
            step("callattr echo/%d" % len(args), lambda: root.echo(*args), expect=(args,))
        elif op == "call":
            x = conv_value(r)
            f = step("getattr fn", lambda: root.fn)
            if f is not None:
                step("call fn", lambda: f(x), expect=((x, x),))
                del f
        elif op == "fail":
            step("callattr fail", lambda: root.fail(), raises=("KeyError", ("k",)))
        elif op == "stop":
            step("callattr stop", lambda: root.stop(), raises=("StopIteration", None))
        elif op == "missing":
            step("getattr missing", lambda: root.missing, raises=("AttributeError", None))
        elif op == "del":
            g = step("getattr fn", lambda: root.fn)
            del g
        elif op == "kwargs":
            b, cc = r.range(-5, 500), conv_value(r)
            step("call kw(1, c=, b=)", lambda: root.kw(1, c=cc, b=b), expect=((1, b, cc),))
            step("callattr kw(2, b=)", lambda: type(root).kw(root, 2, b=b), expect=((2, b, 0),))
        elif op == "async":
            b, cc = r.range(-5, 500), conv_value(r)
            step("async_ kw(1, b=)", lambda: rpyc.async_(root.kw)(1, b=b).value, expect=((1, b, 0),))
            step("timed kw(2, c=)", lambda: rpyc.timed(root.kw, 5)(2, c=cc).value, expect=((2, 0, cc),))
        elif op == "foreign":
            # a proxy that belongs to ANOTHER connection is, for this one, an object like any other: REMOTE_REF
            class Peer2(refcodec.RefPeer):
                ROOT = ("refpeer2.Root", 910001, 1)
            peer2, st2, seen2 = Peer2(), make_loop_stream(), [0]

            def pump2():
                out = bytes(st2.out[seen2[0]:])
                seen2[0] = len(st2.out)
                if out:
                    st2.inbox += peer2.feed(out)
            st2.pump = pump2
            conn2 = rpyc.VoidService()._connect(channel.Channel(st2, True), {})
            other = step("second connection's root", lambda: conn2.root)
            if other is not None:
                before = len(peer.remote_seen)
                res = step("callattr echo(foreign proxy, 5)", lambda: root.echo(other, 5))
                if res is not None and not (type(res) is tuple and len(res) == 2 and res[0] is other and res[1] == 5):
                    problems.append("echo(foreign proxy): the object did not come back as itself: %r" % (type(res),))
                if peer.remote_seen[before:] != [Peer2.ROOT]:
                    problems.append("echo(foreign proxy): the peer received %r, published: one LABEL_REMOTE_REF carrying the "
                                    "proxy's id_pack %r" % (peer.remote_seen[before:], Peer2.ROOT))
            other = res = None
            try:
                conn2.close()
            except Exception:  # noqa
                pass
        elif op == "custom":
            def chk(ex):
                if getattr(ex, "code", None) != 7:
                    return "attribute `code` of the dumped exception was not applied (attrs position)"
                if "refpeer.CustomError: m" not in str(getattr(ex, "_remote_tb", "")):
                    return "the traceback text of the dumped exception did not arrive (tb position): %r" % (
                        getattr(ex, "_remote_tb", None),)
                return None
            step("call custom", lambda: root.custom(), raises=("refpeer.CustomError", ("m", 3)), check_exc=chk)
        elif op == "setdel":
            v = conv_value(r)

            def setit():
                root.tmp = v
            step("setattr tmp", setit)
            step("getattr tmp", lambda: root.tmp, expect=(v,))

            def delit():
                del root.tmp
            step("delattr tmp", delit)
            step("getattr tmp (deleted)", lambda: root.tmp, raises=("AttributeError", None))
        elif op == "strrepr":
            step("str", lambda: str(root), expect=("<refpeer object 1>",))
            step("repr", lambda: repr(root), expect=("<refpeer object 1>",))
        elif op == "hashcmp":
            step("hash", lambda: hash(root), expect=(1,))
            step("cmp eq", lambda: root == 42, expect=(True,))
            step("cmp ne", lambda: root != 42, expect=(False,))
        elif op == "dir":
            step("dir", lambda: tuple(dir(root)), expect=(tuple(sorted(peer.DIR)),))
        elif op == "pickle":
            step("pickle", lambda: root.__reduce_ex__(2), raises=("ValueError", None))
        elif op == "buffiter":
            from rpyc.utils.helpers import buffiter
            chunk = r.choice([1, 2, 3, 7, 10])
            step("buffiter/%d" % chunk, lambda: tuple(buffiter(root.it, chunk)), expect=(peer.ITEMS,))
        elif op == "oldslice":
            sq = step("getattr seq", lambda: root.seq)
            if sq is not None:
                a, b = r.range(0, 5), r.range(5, 10)
                step("oldslicing", lambda: type(sq).__getslice__(sq, a, b), expect=(peer.SEQ_ITEMS[a:b],))
                del sq
        elif op == "with":
            cx = step("getattr ctx", lambda: root.ctx)
            if cx is not None:
                before = len(peer.ctx_log)

                def block():
                    with cx as entered:
                        return entered
                step("with-block", block, expect=(1,))
                if peer.ctx_log[before:] != ["enter", ("exit", None)]:
                    problems.append("with-block: the peer saw %r, expected __enter__ by CALLATTR then CTXEXIT (ctx, None)"
                                    % (peer.ctx_log[before:],))
                del cx
        elif op == "isinstance":
            K = step("getattr Klass", lambda: root.Klass)
            if K is not None:
                step("isinstance", lambda: isinstance(root, K), expect=(True,))
                del K
    root = None
    step("close", conn.close)
    try:
        pump()
    except Exception as ex:  # noqa
        problems.append("draining after close: %r" % (ex,))
    problems += peer.problems
    if not peer.closed and not peer.problems:
        problems.append("the peer never received HANDLE_CLOSE")
    audit_real_frames(bytes(st.out), compress, problems, frames)
    return dict(direction="client", problems=problems, frames=frames, ops=ops, forms=pol.used,
                handlers=sorted(peer.handled))


class CustomErr(Exception):
    """a non-builtin exception raised by the real service"""


class Box:
    """a plain object behind the real service: settable attribute, fixed str/repr/hash, == 5"""
    def __eq__(self, other):
        return other == 5

    def __hash__(self):
        return 1234

    def __repr__(self):
        return "Box!"

    def __str__(self):
        return "a box"


class Seq:
    def __getitem__(self, key):
        return tuple(range(10))[key]


class Ctx:
    def __init__(self):
        self.log = []

    def __enter__(self):
        self.log.append("enter")
        return 1

    def __exit__(self, *exc):
        self.log.append(("exit",) + tuple(exc))
        return False


SERVER_CONFIG = {"allow_public_attrs": True, "allow_setattr": True, "allow_delattr": True}
FULL_EVERY = 10


def make_service():
    rpyc = rp()[0]

    class Svc(rpyc.Service):
        exposed_answer = 42
        exposed_name = "real"
        exposed_Klass = Box

        def __init__(self):
            self.exposed_box = Box()
            self.exposed_seq = Seq()
            self.exposed_ctx = Ctx()

        def exposed_it(self):
            return iter(range(7))

        def exposed_kw(self, a, b=0, c=0):
            return (a, b, c)

        def exposed_apply(self, f, x):
            return f(x)

        def exposed_raise_builtin(self, name):
            import builtins
            raise getattr(builtins, name)()

        def exposed_custom(self):
            e = CustomErr("m", 3)
            e.code = 7
            raise e

        def exposed_add(self, a, b):
            return a + b

        def exposed_echo(self, *a):
            return a

        def exposed_stop(self):
            raise StopIteration

        def exposed_fail(self):
            raise KeyError("k")
    return Svc()


def run_server_conversation(seed, idx):
    """refcodec's peer composes the requests, a real Connection serves them."""
    _rpyc, _b, channel, _c, _p, _s = rp()
    r = Rng(seed).fork("c19-server-%d" % idx)
    pol = Policy(r, r.choice(["random", "random", "longest", "shortest"]))
    compress = r.chance(3, 4)
    peer = refcodec.RefPeer(choose=pol, compress=r.chance(3, 4), level=r.choice([1, 6, 9, 0]),
                            force=r.choice([None, None, True, False]))
    st = make_loop_stream()
    svc = make_service()
    allow_pickle = r.chance(1, 2)
    conn = svc._connect(channel.Channel(st, compress), dict(SERVER_CONFIG, allow_pickle=allow_pickle))
    consumed = [0]
    problems, ops, frames = [], [], []
    answered = set()
    replies = []
    R = refcodec

    def pump():
        """deliver what the real side wrote to the peer, and the peer's answers (to requests the real side issues
        while serving: INSPECT, CALL, DEL) back"""
        out = bytes(st.out[consumed[0]:])
        consumed[0] = len(st.out)
        if out:
            st.inbox += peer.feed(out)
    st.pump = pump

    def rpc(name, handler, boxed, want=None, want_exc=None, no_reply=False):
        seq, pkt = peer.compose(handler, boxed)
        st.inbox += pkt
        try:
            while st.inbox and not conn.closed:
                conn.serve(0)
        except EOFError:
            pass
        except Exception as ex:  # noqa
            problems.append("%s: serving raised %s%r" % (name, type(ex).__name__, ex.args[:1]))
            ops.append((name, "serve raised"))
            return None
        pump()
        if st.inbox:                        # responses to requests the real side issued while serving (DEL, ...)
            try:
                while st.inbox and not conn.closed:
                    conn.serve(0)
            except Exception as ex:  # noqa
                problems.append("%s: serving the peer's responses raised %s%r" % (name, type(ex).__name__, ex.args[:1]))
        problems.extend(peer.problems)
        del peer.problems[:]
        msg = peer.pending.pop(seq, None)
        if no_reply:
            ops.append((name, "no reply expected"))
            return None
        if msg is None:
            problems.append("%s: no response with seq %d" % (name, seq))
            ops.append((name, "no response"))
            return None
        ops.append((name, msg[0]))
        answered.add(R.HANDLERS[handler])
        if msg[0] == "reply":
            replies.append((R.HANDLERS[handler], msg[2]))
        if want_exc is not None:
            if msg[0] != "exception":
                problems.append("%s: expected exception %s, got %r" % (name, want_exc, msg[:3]))
            elif want_exc == "StopIteration":
                if not (msg[2] == R.EXC_STOP_ITERATION or (type(msg[2]) is tuple and msg[2][0] == ("builtins", "StopIteration"))):
                    problems.append("%s: StopIteration travelled neither as EXC_STOP_ITERATION nor as its tuple: %r" % (name, msg[2]))
            elif not (type(msg[2]) is tuple and msg[2][0] == (want_exc[2] if len(want_exc) > 2 else "builtins", want_exc[0])
                      and (want_exc[1] is None or msg[2][1] == want_exc[1])):
                problems.append("%s: expected %s, got %r" % (name, want_exc, msg[2][:2] if type(msg[2]) is tuple else msg[2]))
            else:
                # positions 2 and 3 of the dumped exception: ((attribute, value), ...) and the traceback text
                attrs, tb = msg[2][2], msg[2][3]
                names = [a[0] for a in attrs if type(a) is tuple and len(a) == 2 and type(a[0]) is str]
                if type(attrs) is not tuple or len(names) != len(attrs) or "_remote_version" not in names:
                    problems.append("%s: attrs position of the dumped exception is not ((name, value), ..) with "
                                    "_remote_version: %r" % (name, attrs))
                if type(tb) is not str or ("Traceback" not in tb and "denied" not in tb) or want_exc[0] not in tb:
                    problems.append("%s: traceback position of the dumped exception: %r" % (name, tb[-120:] if type(tb) is str else tb))
                if len(want_exc) > 3 and want_exc[3] not in [tuple(a) for a in attrs]:
                    problems.append("%s: attribute %r missing among the dumped exception's attrs" % (name, want_exc[3]))
            return None
        if msg[0] != "reply":
            problems.append("%s: expected a reply, got %r" % (name, msg[:3]))
            return None
        if want is not None and not (no_refs(msg[2]) and same(R.unbox_plain(msg[2]), want[0])):
            problems.append("%s: reply %s does not mean %s" % (name, canon(msg[2])[:120], canon(want[0])[:100]))
        return msg[2]

    def args_boxed(items):
        """arguments: all by value in one LABEL_VALUE, or item by item under LABEL_TUPLE (both published)"""
        if not any(isinstance(x, (Ref, RemoteRef)) or (type(x) is tuple and any(isinstance(y, (Ref, RemoteRef)) for y in x))
                   for x in items) and r.chance(1, 2):
            return R.box_value(tuple(items))
        def one(x):
            if isinstance(x, Ref):
                return R.box_local(x.id_pack)
            if isinstance(x, RemoteRef):
                return R.box_remote(x.id_pack)
            if type(x) is tuple and any(isinstance(y, (Ref, RemoteRef)) for y in x):
                return R.box_tuple(one(y) for y in x)
            return R.box_value(x)
        return R.box_tuple(one(x) for x in items)

    script = ["ping", "ping", "big", "attr", "add", "echo", "callfn", "fail", "stop", "missing", "badref",
              "kwargs", "custom", "remote-arg", "box", "strrepr", "hashcmp", "dir", "pickle", "inspect", "buffiter", "oldslice", "with", "isinstance"]
    r.shuffle(script)
    if idx % FULL_EVERY != 0:              # every FULL_EVERY-th conversation runs the whole script: all 20 handlers
        script = script[:r.range(6, len(script))]

    def fetch(name):
        """a reference to the object behind root.<name>"""
        b = rpc("getattr " + name, "GETATTR", args_boxed([root, name]))
        if b is None:
            return None
        if b[0] != R.LABEL_REMOTE_REF:
            problems.append("getattr %s: an object did not travel as LABEL_REMOTE_REF: %r" % (name, b))
            return None
        return Ref(b[1])

    def value_of(b):
        return b[1] if b is not None and b[0] == R.LABEL_VALUE else None
    rootb = rpc("getroot", "GETROOT", R.box_value(()))
    root = None
    if rootb is not None:
        if rootb[0] != R.LABEL_REMOTE_REF:
            problems.append("getroot: the root did not travel as LABEL_REMOTE_REF: %r" % (rootb,))
        else:
            root = Ref(rootb[1])
    for op in script:
        if root is None and op not in ("ping", "big"):
            continue
        if op == "ping":
            v = conv_value(r, 3)
            rpc("ping", "PING", args_boxed([v]), want=(v,))
        elif op == "big":
            n = r.choice([2990, 3005, 9000, 64100])
            data = bytes((i * 5) % 13 for i in range(n))
            rpc("ping-%d-bytes" % n, "PING", args_boxed([data]), want=(data,))
        elif op == "attr":
            name, val = r.choice([("answer", 42), ("name", "real")])
            rpc("getattr " + name, "GETATTR", args_boxed([root, name]), want=(val,))
        elif op == "add":
            a, b = r.range(-10 ** 9, 10 ** 9), r.range(-200, 200)
            rpc("callattr add", "CALLATTR", args_boxed([root, "add", (a, b), ()]), want=(a + b,))
        elif op == "echo":
            args = tuple(conv_value(r) for _ in range(r.below(5)))
            rpc("callattr echo/%d" % len(args), "CALLATTR", args_boxed([root, "echo", args, ()]), want=(args,))
        elif op == "callfn":
            fb = rpc("getattr add", "GETATTR", args_boxed([root, "add"]))
            if fb is not None and fb[0] == R.LABEL_REMOTE_REF:
                rpc("call add", "CALL", args_boxed([Ref(fb[1]), (20, 22), ()]), want=(42,))
                rpc("del add", "DEL", args_boxed([Ref(fb[1]), 1]), want=(None,))
            elif fb is not None:
                problems.append("getattr add: a bound method did not travel as LABEL_REMOTE_REF: %r" % (fb,))
        elif op == "fail":
            rpc("callattr fail", "CALLATTR", args_boxed([root, "fail", (), ()]), want_exc=("KeyError", ("k",)))
        elif op == "stop":
            rpc("callattr stop", "CALLATTR", args_boxed([root, "stop", (), ()]), want_exc="StopIteration")
        elif op == "missing":
            rpc("getattr missing", "GETATTR", args_boxed([root, "nothing_here"]), want_exc=("AttributeError", None))
        elif op == "kwargs":
            b, cc = r.range(-5, 500), conv_value(r)
            rpc("callattr kw(1, c=, b=)", "CALLATTR", args_boxed([root, "kw", (1,), (("c", cc), ("b", b))]), want=((1, b, cc),))
            fb = rpc("getattr kw", "GETATTR", args_boxed([root, "kw"]))
            if fb is not None and fb[0] == R.LABEL_REMOTE_REF:
                rpc("call kw(2, b=)", "CALL", args_boxed([Ref(fb[1]), (2,), (("b", b),)]), want=((2, b, 0),))
                rpc("call kw(3)", "CALL", args_boxed([Ref(fb[1]), (3,)]), want=((3, 0, 0),))       # kwargs omitted
        elif op == "remote-arg":
            # the peer passes one of ITS objects: the real `_unbox` builds a proxy (INSPECT round trip), the real service
            # hands it back (LOCAL_REF for the peer) and calls it (a CALL request from the real side, served by the peer)
            mine = RemoteRef(peer.TWICE)
            b = rpc("callattr echo(my object)", "CALLATTR", args_boxed([root, "echo", (mine,), ()]))
            if b is not None and b != (R.LABEL_TUPLE, ((R.LABEL_LOCAL_REF, peer.TWICE),)):
                problems.append("echo(my object): reply %r, published: (LABEL_TUPLE, ((LABEL_LOCAL_REF, %r),))" % (b, peer.TWICE))
            x = r.range(-9, 9)
            rpc("callattr apply(my object, x)", "CALLATTR", args_boxed([root, "apply", (mine, x), ()]), want=((x, x),))
        elif op == "custom":
            rpc("callattr custom", "CALLATTR", args_boxed([root, "custom", (), ()]),
                want_exc=("CustomErr", ("m", 3), CustomErr.__module__, ("code", 7)))
        elif op == "box":
            bx = fetch("box")
            if bx is not None:
                v = conv_value(r)
                rpc("setattr val", "SETATTR", args_boxed([bx, "val", v]), want=(None,))
                rpc("getattr val", "GETATTR", args_boxed([bx, "val"]), want=(v,))
                if not same(getattr(svc.exposed_box, "val", Ellipsis), v):
                    problems.append("setattr val: the real object does not hold the value")
                rpc("delattr val", "DELATTR", args_boxed([bx, "val"]), want=(None,))
                rpc("getattr val (deleted)", "GETATTR", args_boxed([bx, "val"]), want_exc=("AttributeError", None))
                rpc("del box", "DEL", args_boxed([bx, 1]), want=(None,))
        elif op == "strrepr":
            bx = fetch("box")
            if bx is not None:
                rpc("str", "STR", args_boxed([bx]), want=("a box",))
                rpc("repr", "REPR", args_boxed([bx]), want=("Box!",))
        elif op == "hashcmp":
            bx = fetch("box")
            if bx is not None:
                rpc("hash", "HASH", args_boxed([bx]), want=(1234,))
                rpc("cmp eq", "CMP", args_boxed([bx, 5, "__eq__"]), want=(True,))
                rpc("cmp eq", "CMP", args_boxed([bx, 6, "__eq__"]), want=(False,))
        elif op == "dir":
            bx = fetch("box")
            if bx is not None:
                names = value_of(rpc("dir", "DIR", args_boxed([bx])))
                if not (type(names) is tuple and all(type(n) is str for n in names) and "__eq__" in names):
                    problems.append("dir: reply is not a tuple of names containing __eq__: %r" % (names,))
        elif op == "pickle":
            bx = fetch("box")
            if bx is not None:
                if allow_pickle:
                    pk = value_of(rpc("pickle (allowed)", "PICKLE", args_boxed([bx, 2])))
                    if type(pk) is not bytes or pk[:2] != b"\x80\x02":
                        problems.append("pickle: reply is not a protocol-2 pickle byte string: %r" % (pk if pk is None else pk[:12],))
                else:
                    rpc("pickle", "PICKLE", args_boxed([bx, 2]), want_exc=("ValueError", None))
        elif op == "inspect":
            cx = fetch("ctx")
            if cx is not None:
                ms = value_of(rpc("inspect", "INSPECT", R.box_value((cx.id_pack,))))
                if not (type(ms) is tuple and all(type(m) is tuple and len(m) == 2 and type(m[0]) is str for m in ms)
                        and "__enter__" in [m[0] for m in ms]):
                    problems.append("inspect: reply is not a tuple of (name, doc) pairs containing __enter__: %r" % (ms,))
        elif op == "buffiter":
            itb = rpc("callattr it", "CALLATTR", args_boxed([root, "it", (), ()]))
            if itb is not None and itb[0] == R.LABEL_REMOTE_REF:
                k = r.range(1, 6)
                rpc("buffiter/%d" % k, "BUFFITER", args_boxed([Ref(itb[1]), k]), want=(tuple(range(7))[:k],))
                rpc("buffiter/10", "BUFFITER", args_boxed([Ref(itb[1]), 10]), want=(tuple(range(7))[k:],))
                rpc("buffiter/end", "BUFFITER", args_boxed([Ref(itb[1]), 4]), want=((),))
            elif itb is not None:
                problems.append("callattr it: an iterator did not travel as LABEL_REMOTE_REF: %r" % (itb,))
        elif op == "oldslice":
            sq = fetch("seq")
            if sq is not None:
                a, b = r.range(0, 5), r.range(5, 10)
                rpc("oldslicing", "OLDSLICING", args_boxed([sq, "__getitem__", "__getslice__", a, b, ()]),
                    want=(tuple(range(10))[a:b],))
        elif op == "with":
            cx = fetch("ctx")
            if cx is not None:
                before = len(svc.exposed_ctx.log)
                rpc("callattr __enter__", "CALLATTR", args_boxed([cx, "__enter__", (), ()]), want=(1,))
                rpc("ctxexit", "CTXEXIT", args_boxed([cx, None]), want=(False,))
                if svc.exposed_ctx.log[before:] != ["enter", ("exit", None, None, None)]:
                    problems.append("ctxexit: the real context manager saw %r, expected __enter__ then __exit__(None, None, None)"
                                    % (svc.exposed_ctx.log[before:],))
        elif op == "isinstance":
            kb, bx = fetch("Klass"), fetch("box")
            if kb is not None and bx is not None:
                if kb.id_pack[2] != 0:
                    problems.append("getattr Klass: a class travelled with instance id %r, published: 0" % (kb.id_pack[2],))
                rpc("instancecheck", "INSTANCECHECK", args_boxed([kb, tuple(bx.id_pack)]), want=(False,))
        elif op == "badref":
            rpc("getattr on unknown id", "GETATTR", R.box_tuple([R.box_local(("x.Y", 1, 2)), R.box_value("a")]),
                want_exc=("KeyError", None))
    rpc("close", "CLOSE", R.box_value(()), no_reply=True)
    if not conn.closed:
        problems.append("the real connection did not close on HANDLE_CLOSE")
    audit_real_frames(bytes(st.out), compress, problems, frames)
    return dict(direction="server", problems=problems, frames=frames, ops=ops, forms=pol.used, replies=replies,
                handlers=sorted(answered | ({R.HANDLERS["CLOSE"]} if conn.closed else set())))


def builtin_exception_names():
    """every exception class of the builtins module (KeyboardInterrupt excepted: the default configuration re-raises it
    locally instead of answering)"""
    import builtins
    return sorted(n for n, o in vars(builtins).items()
                  if isinstance(o, type) and issubclass(o, BaseException) and n != "KeyboardInterrupt")


def check_all_builtin_exceptions():
    """The reference peer asks a real Connection to raise EVERY builtin exception class, without arguments, one request
    each.  Every response must be a published exception message: the payload is EXC_STOP_ITERATION (only for
    StopIteration) or the tuple ((module, name), args, attrs, traceback) — checked by the reference peer's parser.
    Returns (problems, frames, per-class outcome)."""
    _rpyc, _b, channel, _c, _p, _s = rp()
    R = refcodec
    st = make_loop_stream()
    conn = make_service()._connect(channel.Channel(st, True), dict(SERVER_CONFIG))
    peer = R.RefPeer()
    problems, frames, outcome = [], [], {}
    consumed = 0
    seq0, pkt = peer.compose("GETROOT", R.box_value(()))
    st.inbox += pkt
    try:
        while st.inbox:
            conn.serve(0)
        peer.feed(bytes(st.out))
        consumed = len(st.out)
        root = peer.pending[seq0][2][1]
    except Exception as ex:  # noqa
        return ["getroot failed: %s%r" % (type(ex).__name__, ex.args[:1])], [], {}
    for name in builtin_exception_names():
        seq, pkt = peer.compose("CALLATTR", R.box_tuple([R.box_local(root), R.box_value("raise_builtin"),
                                                         R.box_value((name,)), R.box_value(())]))
        st.inbox += pkt
        try:
            while st.inbox and not conn.closed:
                conn.serve(0)
        except Exception as ex:  # noqa
            problems.append("raising %s(): serving raised %s%r" % (name, type(ex).__name__, ex.args[:1]))
            break
        back = bytes(st.out[consumed:])
        consumed = len(st.out)
        peer.feed(back)
        if peer.problems:
            problems.append("raising %s(): the response is not a published message: %s" % (name, "; ".join(peer.problems)[:300]))
            break
        msg = peer.pending.pop(seq, None)
        if msg is None or msg[0] != "exception":
            problems.append("raising %s(): answered with %r" % (name, msg and msg[:2]))
            continue
        d = msg[2]
        if d == R.EXC_STOP_ITERATION:
            outcome[name] = "marker"
            if name != "StopIteration":
                problems.append("raising %s(): the payload is the StopIteration marker" % name)
        elif type(d) is tuple:
            outcome[name] = "%s.%s" % d[0]
            cls = getattr(__import__("builtins"), name)
            try:
                cls()
                expected = cls.__name__                     # EnvironmentError is OSError
            except TypeError:
                expected = "TypeError"                      # the class cannot be built without arguments
            if d[0] != ("builtins", expected):
                problems.append("raising %s(): the payload names %r, expected builtins.%s" % (name, d[0], expected))
        else:
            outcome[name] = "string"
    audit_real_frames(bytes(st.out), True, problems, frames)
    try:
        conn.close()
    except Exception:  # noqa
        pass
    return problems, frames, outcome


def check_shared_header(size_a, size_b, comp_a, comp_b, chunk=64000):
    """Two independent Channels (two connections).  Channel A's `send` is pre-empted before EVERY bytecode instruction by
    a complete `send` on channel B (C05's instruction-level runner); every packet either stream carries is judged by the
    independent reference decoder: its length field and flag must describe its own payload."""
    from props.c05 import run_stepped
    channel = rp()[2]
    sa, sb = CaptureStream(chunk), CaptureStream(chunk)
    ca, cb = channel.Channel(sa, comp_a), channel.Channel(sb, comp_b)
    da = bytes((i * 13 + 1) % 17 for i in range(size_a))
    db = bytes((i * 7 + 5) % 19 for i in range(size_b))
    steps = [0]

    def on_step():
        steps[0] += 1
        cb.send(db)
    problems = []
    try:
        run_stepped(lambda: ca.send(da), [channel.Channel.send.__code__], on_step)
    except Exception as ex:  # noqa
        problems.append("send raised %s%r" % (type(ex).__name__, ex.args[:1]))
    for who, st_, want, n in (("A", sa, da, 1), ("B", sb, db, steps[0])):
        wire = b"".join(st_.writes)
        try:
            pk = refcodec.packets(wire)
        except (refcodec.FormatError, zlib.error) as ex:
            problems.append("channel %s's byte stream is not a sequence of published packets (a header that does not describe "
                            "its payload?): %s; first header %s, %d bytes of %d-byte data sent" % (who, ex, wire[:5].hex(), len(wire), len(want)))
            continue
        if len(pk) != n or any(d != want for _f, _p, d in pk):
            problems.append("channel %s: %d packets, expected %d carrying its own data" % (who, len(pk), n))
    return problems, steps[0]


SHARED_HEADER_CASES = [(10, 20, False, False), (0, 3001, True, True), (3001, 7, True, False), (300, 3001, True, False),
                       (70000, 5, False, False)]


def run_conversation(direction, seed, idx):
    try:
        if direction == "client":
            return run_client_conversation(seed, idx)
        return run_server_conversation(seed, idx)
    except Exception as ex:  # noqa
        import traceback
        return dict(direction=direction, problems=["conversation crashed: %s" % traceback.format_exc()[-600:]], frames=[],
                    ops=[("crash", type(ex).__name__)], forms={}, handlers=[])


# ---------------------------------------------------------------------------------------------- correspondence
def size_class(n):
    return 0 if n < 4 else 1 if n < 16 else 2 if n < 600 else 3 if n < 3001 else 4


def correspondence(ctx):
    c = Corr()
    c.rule = ("(0) every TAG_*/consts/channel constant; (a) C04's boundary corpus (every constructor x every length class, "
              "digit-limit ints, NaN payloads, surrogates, non-serializable objects) + seeded type-directed values: real dump "
              "vs Lean specEnc vs refcodec, then refcodec encodings in longest/random legal forms loaded by the real decoder "
              "and by the model decoder; (b) Channel.send on payloads of 0..70000 bytes around 3000 and 64000, compress "
              "on/off, compressible and incompressible, vs the Lean frame; reference packets at zlib levels 0/1/6/9, "
              "compressed below / uncompressed above the threshold, through the real Channel.recv and the Lean recv; fixed corpus "
              "of large compressible reference packets (blank / 64-byte record, 1 MiB+1..8 MiB, levels 1/6/9, and 2 MiB random) "
              "through the real Channel.recv and as pings echoed by a real Connection (vs refcodec only); "
              "(c) seeded conversations real Connection <-> reference peer in both roles (every 10th runs the full script: all 20 "
              "handler numbers in each direction, counted in handlers_exercised_per_direction), every real packet reference-"
              "decoded, layout-checked, re-encoded, rebuilt by Lean Msg.wire and checked against the published per-handler "
              "argument layout (Msg.conforms); real replies against the published reply shapes (replyConforms). Non-trivial: anything but the empty "
              "payload / None; distinct = distinct (part, constructor or op, size class, form set, outcome).")
    r = Rng(ctx.seed).fork("c19")
    quick = ctx.tier != "thorough"
    lines, expect = [], []          # expect: (part, case text, wanted model output, signature or None)

    def add(line, part, case, want, sig):
        lines.append(line)
        expect.append((part, case, want, sig))

    def disagree(part, case, impl, model):
        c.disagreements.append(dict(op=part, case=case[:2000], impl=impl[:400], model=model[:400]))

    # (0) constants
    for line, want, refs in const_cases():
        c.evaluations += 1
        c.count("const")
        if refs != want:
            disagree("const-vs-refcodec", line, want, refs)
        add(line, "const", line, want, "const:" + line.split()[-1])

    # (a) values
    n_vals = ctx.budget(4000, 30000)
    n_boundary = len(c04.boundary_values())
    forms_used = {}
    surrogate_cases = []
    for vi, v in enumerate(value_stream(r, n_vals)):
        if c04.depth_of(v) > 200:
            c.count("value:not-judged:nested-deeper-than-200")
            continue
        t = to_text(v)
        real = impl_dump(v)
        if real == "skip":
            c.count("value:skipped-recursion")
            continue
        c.evaluations += 1
        sur = has_surrogate(v)
        over = has_overlimit_int(v)
        head = t.split(" ", 1)[0][:1]
        sig = "enc:%s:%d:%s" % (head, size_class(len(t)), real[:6] if real.startswith("ok") else real)
        if over:
            c.count("value:outside-interpreter-digit-limit")
            continue
        if sur:
            # judged, not skipped: the published encoder (Lean strict rule, refcodec) refuses such text; what does the code do?
            verdict = surrogate_text_judgement(v) if real.startswith("ok") else None
            if verdict:
                c.count("value:lone-surrogate-text:TRANSMITTED outside the published format [%s]" % SIG_SURROGATE)
                surrogate_cases.append(dict(value=t[:200], transmitted=real[3:83]))
            else:
                c.count("value:lone-surrogate-text:%s" % ("refused at the sender" if not real.startswith("ok") else "other outcome"))
            add("spec encx " + t, "enc-ext", t, real, sig + ":sp")       # the model of the code carries the same behaviour
            add("spec enc " + t, "enc-ext-strict", t, None, None)         # the published rule refuses
            ref = ref_dump(v)
            if ref.startswith("ok"):
                disagree("refcodec", t, real, ref)
            continue
        c.count("value:" + (real.split(" ")[0] if real.startswith("ok") else real))
        add("spec enc " + t, "enc", t, real, sig)
        ref = ref_dump(v)
        if real.startswith("ok"):
            if ref != real:
                disagree("enc-vs-refcodec", t, real, ref)
        elif ref.startswith("ok"):
            disagree("enc-vs-refcodec", t, real, ref)
        # non-shortest legal forms through the real decoder and the model decoder
        if real.startswith("ok") and in_published_domain(v):
            brine = rp()[1]
            for mode in (("longest", "random") if vi < n_boundary or not quick else ("random",)):
                pol = Policy(r, mode)
                bs = refcodec.encode(v, pol)
                for k, n in pol.used.items():
                    forms_used[k] = forms_used.get(k, 0) + n
                c.evaluations += 1
                want = "ok " + canon(v)
                try:
                    got = "ok " + canon(brine.load(bs))
                except Exception as ex:  # noqa
                    got = "err " + valtext.err_name(ex)
                c.count("load-of-%s-form:%s" % (mode, got.split(" ")[0] if got.startswith("ok") else got))
                if got != want:
                    disagree("load-of-reference-bytes", bs.hex(), got, want)
                if len(bs) <= 40000:      # the list-based model decoder is quadratic on very long inputs
                    add("brine dec " + bs.hex(), "dec", bs.hex(), want,
                        "dec:%s:%d:%s" % (head, size_class(len(bs)), ",".join(sorted(pol.used))[:80]))
                else:
                    c.count("load-of-%s-form:too-long-for-the-model-decoder" % mode)
    c.extra["reference_forms_used"] = forms_used
    listed = any(k.get("property") == ID and k.get("signature") == SIG_SURROGATE and k.get("status") == "known"
                 for k in __import__("pipeline").load_known())
    c.extra["known_finding_lone_surrogate_text"] = dict(
        signature=SIG_SURROGATE, listed_in_known_findings=listed, cases_this_run=len(surrogate_cases),
        samples=surrogate_cases[:3],
        note="dumpable text with a lone surrogate is transmitted in the generalized three-byte form (surrogatepass), which the "
             "published format does not define; Lean: C19_emits_only_published_counterexample / enc_eq_specEnc (partial)")
    ctx.log("values done: %d op lines so far" % len(lines))

    # (b) packets
    for data in frame_payloads(r, quick):
        for compress in (True, False):
            c.evaluations += 1
            try:
                wire, nw = real_send(data, compress)
            except Exception as ex:  # noqa
                disagree("send", "%d bytes compress=%s" % (len(data), compress), "err " + valtext.err_name(ex), "a packet")
                continue
            msg = check_send_real(data, compress)
            if msg:
                disagree("send-vs-refcodec", "%d bytes compress=%s" % (len(data), compress), wire[:8].hex() + "..", msg)
            flag = wire[4] if len(wire) > 4 else 0
            z = wire[5:-1] if flag else b""
            c.count("send:flag%d:writes%d" % (flag, nw))
            add("spec frame %d %s %s" % (1 if compress else 0, hexarg(data), hexarg(z)), "frame",
                "%d bytes compress=%s" % (len(data), compress), "ok " + wire.hex(),
                "frame:%d:%s:%d:%d" % (min(len(data), 3002) if len(data) < 60000 else len(data), compress, flag, nw))
        if len(data) <= 9000 or len(data) in (64000, 70000):
            for level, force in ((0, None), (6, None), (9, None), (1, True), (9, False)):
                c.evaluations += 1
                rest = r.bytes(r.below(4))
                f = refcodec.frame(data, True, level, force)
                st_, got, left = real_recv(f + rest)
                impl = "ok %s %s" % (hexarg(got), hexarg(left)) if st_ == "ok" else st_
                want = "ok %s %s" % (hexarg(data), hexarg(rest))
                c.count("recv:level%d:force%s:%s" % (level, force, impl.split(" ")[0]))
                if impl != want:
                    disagree("recv-of-reference-packet", "%d bytes level=%d force=%s" % (len(data), level, force), impl[:200], want[:200])
                add("spec recv %s %s" % ((f + rest).hex(), hexarg(data) if f[4] else "-"), "recv",
                    "%d bytes level=%d force=%s" % (len(data), level, force), want,
                    "recv:%d:%d:%s" % (size_class(len(data)), level, force))

    # (b') large highly compressible packets: real code vs refcodec only
    ratios = {}
    for kind, n, level in BIG_RECV:
        c.evaluations += 1
        msg, ratio = check_big_recv(kind, n, level)
        ratios["%s:%dKiB:level%d" % (kind, n // 1024, level)] = int(ratio)
        c.count("recv-large:%s:level%d:%s" % (kind, level, "ok" if not msg else "PROBLEM"))
        c.signatures.add("recv-large:%s:%d:%d" % (kind, n, level))
        if msg:
            disagree("recv-of-large-reference-packet", "%s %d bytes level=%d" % (kind, n, level), msg, "the data")
    for direction, kind, n, level in BIG_PING:
        c.evaluations += 1
        msg = check_big_ping(direction, kind, n, level)
        c.count("ping-large:%s:%s:level%d:%s" % (direction, kind, level, "ok" if not msg else "PROBLEM"))
        c.signatures.add("ping-large:%s:%s:%d:%d" % (direction, kind, n, level))
        if msg:
            disagree("ping-large", "%s %s %d bytes level=%d" % (direction, kind, n, level), msg, "the data is echoed")
    # (d) one message per packet
    for n_q, big, comp in QUEUED_CASES:
        c.evaluations += 1
        probs, stats = check_queued_sends(n_q, big, comp)
        c.count("queued-sends:%d-behind-a-gated-write:%s" % (n_q, "ok" if not probs else "PROBLEM"))
        c.signatures.add("queued:%d:%s:%s" % (n_q, big, comp))
        if probs:
            disagree("queued-sends", "queued=%d big_first=%s compress=%s" % (n_q, big, comp), "; ".join(probs)[:400],
                     "%d packets, one message each" % (n_q + 1))
    # (d') two connections: a send pre-empted at every instruction by a send on the other connection
    for sa_, sb_, ca_, cb_ in SHARED_HEADER_CASES:
        c.evaluations += 1
        probs, nsteps = check_shared_header(sa_, sb_, ca_, cb_)
        c.count("two-channels-preempted-send:%s" % ("ok" if not probs else "PROBLEM"), 1)
        c.count("two-channels-preemption-points", nsteps)
        c.signatures.add("twochan:%d:%d:%s:%s" % (sa_, sb_, ca_, cb_))
        if probs:
            disagree("two-channel-send", "A=%d bytes B=%d bytes compress=%s/%s" % (sa_, sb_, ca_, cb_), "; ".join(probs)[:400],
                     "every packet's header describes its own payload")
    for kind in TRAILING_KINDS:
        c.evaluations += 1
        probs, payload, m1 = check_trailing_in_packet(kind)
        c.count("trailing-bytes-in-packet:%s:%s" % (kind, "ok" if not probs else "PROBLEM"))
        if probs:
            disagree("trailing-in-packet", kind, "; ".join(probs)[:400], "only the first message is acted on")
        # the model's load on the same payload: the first message, the rest ignored
        add("brine dec " + payload.hex(), "dec-trailing", payload.hex(), "ok " + canon(refcodec.decode(m1)),
            "dec-trailing:" + kind)
    c.extra["large_packet_compression_ratios"] = ratios
    if len(c.samples) < 12:
        c.samples.append(dict(part="recv-large", case="blank %d bytes at zlib level 9" % (8 * MIB),
                              ratio=ratios.get("blank:%dKiB:level9" % (8 * MIB // 1024))))
    ctx.log("packets done: %d op lines so far" % len(lines))
    # (c) conversations
    # every builtin exception class raised without arguments by the real side
    probs, exc_frames, exc_outcome = check_all_builtin_exceptions()
    c.evaluations += len(exc_outcome)
    c.count("builtin-exception-classes-raised", len(exc_outcome))
    c.count("builtin-exception-classes:%s" % ("ok" if not probs else "PROBLEM"))
    c.extra["builtin_exception_payloads"] = dict(
        marker=sorted(k for k, v in exc_outcome.items() if v == "marker"),
        as_type_error=sorted(k for k, v in exc_outcome.items() if v == "builtins.TypeError" and k != "TypeError"),
        tuples=len([v for v in exc_outcome.values() if v not in ("marker", "string")]))
    if probs:
        disagree("builtin-exceptions", "every builtin exception class raised without arguments", "; ".join(probs)[:500],
                 "EXC_STOP_ITERATION for StopIteration, the published tuple for every other class")
    for kind, val, data in exc_frames:
        if kind == "exception":
            t = to_text_ordered(val)
            add("spec msg " + t, "msg", t, "ok %s %s layout-ok" % (kind, data.hex()), "excmsg:%s" % (val[2][0][1] if type(val[2]) is tuple else val[2],))
    n_conv = ctx.budget(100, 1000)
    conv_forms = {}
    exercised = {"client": {}, "server": {}}
    for direction in ("client", "server"):
        for idx in range(n_conv):
            res = run_conversation(direction, ctx.seed, idx)
            c.evaluations += 1
            for h in res["handlers"]:
                exercised[direction][h] = exercised[direction].get(h, 0) + 1
            c.count("conversation:%s:%s" % (direction, "ok" if not res["problems"] else "PROBLEM"))
            for name, out in res["ops"]:
                c.count("conv-op:%s:%s" % (name.split("/")[0].split("-")[0] if name.startswith("ping-") else name.split("/")[0], out))
            for k, n in res["forms"].items():
                conv_forms[k] = conv_forms.get(k, 0) + n
            if res["problems"]:
                disagree("conversation", "direction=%s seed=%d index=%d ops=%s" % (direction, ctx.seed, idx, res["ops"]),
                         "; ".join(res["problems"])[:400], "conversation succeeds with the expected values")
            c.signatures.add("conv:%s:%s" % (direction, ",".join(sorted(set("%s=%s" % (n.split("/")[0], o) for n, o in res["ops"])))))
            for kind, val, data in res["frames"]:
                c.count("real-frame:" + kind)
                t = to_text_ordered(val)
                add("spec msg " + t, "msg", t, "ok %s %s layout-ok" % (kind, data.hex()),
                    "msg:%s:%s:%d" % (kind, val[2][0] if kind == "request" else "-", size_class(len(data))))
            for h, boxed in res.get("replies", ()):
                if len(to_text(boxed)) < 20000:
                    c.count("real-reply-shape:handler%d" % h)
                    add("spec reply %d %s" % (h, to_text(boxed)), "reply-shape", "handler %d" % h, "ok layout-ok",
                        "reply:%d:%s" % (h, boxed[0]))
            if len(c.samples) < 6 and idx == 3:
                c.samples.append(dict(part="conversation", direction=direction, ops=res["ops"][:14],
                                      real_packets=[(k, d.hex()[:80]) for k, _v, d in res["frames"][:5]]))
    c.extra["conversation_reference_forms_used"] = conv_forms
    c.extra["handlers_exercised_per_direction"] = dict(
        (d, dict((str(h), n) for h, n in sorted(m.items()))) for d, m in exercised.items())
    for direction, m in exercised.items():
        missing = sorted(set(refcodec.HANDLERS.values()) - set(m))
        if missing:
            disagree("handler-coverage", "direction=%s" % direction,
                     "handlers %s were not exercised (served and answered) in any conversation" % missing,
                     "every published handler 1..20 is exercised in each direction")

    ctx.log("conversations done: %d op lines, %.1f MB for the driver" % (len(lines), sum(len(l) for l in lines) / 1e6))
    # the Lean side
    try:
        outs = run_driver(lines, exe="drv_spec")
    except DriverError as ex:
        c.error = str(ex)
        return c
    ctx.log("driver done")
    c.extra["driver_lines"] = len(lines)         # Lean-side evaluations of the same cases (not added to `evaluations`)
    for k_line, ((part, case, want, sig), line, got) in enumerate(zip(expect, lines, outs)):
        if part == "enc-ext-strict":
            # the published (strict) rule has no encoding for surrogate text, or refuses the value for another reason
            if got.startswith("ok"):
                disagree(part, case, "published text rule must refuse", got)
            continue
        if part in ("dec", "dec-trailing") and got.startswith("ok "):
            got = "ok " + canon(valtext.from_text(got[3:]))
        if sig and case not in ("", "N"):
            c.signatures.add(sig)
        if got != want:
            disagree("model:" + part, line if len(line) < 1500 else line[:1500] + "..", str(want), got)
        elif len(c.samples) < 12 and k_line % 701 == 5:
            c.samples.append(dict(part=part, op=line[:160], outcome=got[:160]))
    c.exhaustive = False
    return c


# ---------------------------------------------------------------------------------------------- direct oracle
def shrink_value(v, r):
    """smallest component of v on which the value oracle still fails"""
    best = v
    changed = True
    while changed:
        changed = False
        t = type(best)
        kids = list(best) if t in (tuple, frozenset) else [best.start, best.stop, best.step] if t is slice else []
        for k in kids:
            if check_value_real(k, r):
                best, changed = k, True
                break
    return best


def oracle_conversation(direction, seed, idx):
    res = run_conversation(direction, seed, idx)
    if res["problems"]:
        return "; ".join(res["problems"])[:600], res["ops"]
    return None, res["ops"]


def oracle_search(ctx, corr, broken):
    r = Rng(ctx.seed).fork("c19-search")
    deadline = time.time() + ctx.budget(60, 600)
    known = getattr(ctx, "known_signatures", set())

    def value_failure(v):
        msg = check_value_real(v, r)
        if not msg:
            return None
        v = shrink_value(v, r)
        msg = check_value_real(v, r) or msg
        sig = (SIG_SURROGATE if has_surrogate(v) and "not a sentence of the published format" in msg
               else "value:dump-raises" if msg.startswith("dump(v) raised") else "value:dump-differs" if msg.startswith("dump(v)")
               else "value:load-raises" if " raised " in msg else "value:load-differs")
        if sig in known:
            return None
        return dict(kind="input", part="value", value=to_text(v)[:4000], repr=repr(v)[:300]), msg, sig

    def frame_failures():
        for n in FRAME_SIZES + [2000, 2500, 3500, 5000]:
            data = bytes((i * 31 + n) % 7 for i in range(n))
            for compress in (True, False):
                msg = check_send_real(data, compress)
                if msg and "frame:send" not in known:
                    return dict(kind="input", part="send", size=n, compress=compress), msg, "frame:send"
            if n <= 9000 or n == 64000:
                for level, force in ((0, None), (1, None), (9, None), (1, True), (6, False)):
                    msg = check_recv_real(data, level, force)
                    if msg and "frame:recv" not in known:
                        return dict(kind="input", part="recv", size=n, level=level, force=force), msg, "frame:recv"
        for kind, n, level in sorted(BIG_RECV, key=lambda t: (t[1], t[2])):
            msg, _ratio = check_big_recv(kind, n, level)
            if msg and "frame:recv-large" not in known:
                return dict(kind="input", part="recv-large", payload=kind, size=n, level=level), msg, "frame:recv-large"
        for sa_, sb_, ca_, cb_ in SHARED_HEADER_CASES:
            probs, _n = check_shared_header(sa_, sb_, ca_, cb_)
            if probs and "packet:two-channels" not in known:
                return (dict(kind="schedule", part="two-channel-send", size_a=sa_, size_b=sb_, compress_a=ca_, compress_b=cb_),
                        "; ".join(probs)[:600], "packet:two-channels")
        for n_q, big, comp in QUEUED_CASES:
            probs, _st = check_queued_sends(n_q, big, comp)
            if probs and "packet:queued-sends" not in known:
                return (dict(kind="schedule", part="queued-sends", queued=n_q, big_first=big, compress=comp),
                        "; ".join(probs)[:600], "packet:queued-sends")
        for kind in TRAILING_KINDS:
            probs, _pl, _m1 = check_trailing_in_packet(kind)
            if probs and "packet:trailing" not in known:
                return dict(kind="input", part="trailing-in-packet", tail=kind), "; ".join(probs)[:600], "packet:trailing"
        for direction, kind, n, level in BIG_PING:
            msg = check_big_ping(direction, kind, n, level)
            if msg and "frame:ping-large" not in known:
                return (dict(kind="input", part="ping-large", direction=direction, payload=kind, size=n, level=level), msg,
                        "frame:ping-large")
        return None

    def conversation_failures(count):
        probs, _f, _o = check_all_builtin_exceptions()
        if probs and "conversation:exceptions" not in known:
            return dict(kind="history", part="builtin-exceptions"), "; ".join(probs)[:600], "conversation:exceptions"
        for direction in ("client", "server"):
            for idx in range(count):
                msg, ops = oracle_conversation(direction, ctx.seed, idx)
                if msg and "conversation:" + direction not in known:
                    return (dict(kind="history", part="conversation", direction=direction, seed=ctx.seed, index=idx, ops=ops),
                            msg, "conversation:" + direction)
        return None

    # 1. cases the correspondence disagreed on
    for d in corr.disagreements[:300]:
        op = d.get("op", "")
        if op in ("model:enc", "enc-vs-refcodec", "refcodec", "model:enc-ext"):
            try:
                v = valtext.from_text(d["case"])
            except Exception:  # noqa
                continue
            f = value_failure(v)
            if f:
                return f
        elif op in ("load-of-reference-bytes", "model:dec"):
            try:
                bs = bytes.fromhex(d["case"])
                v = refcodec.decode(bs)
            except Exception:  # noqa
                continue
            f = value_failure(v)
            if f:
                return f
    if any(d.get("op", "").startswith(("send", "recv", "ping-large", "queued", "trailing", "two-channel", "model:frame", "model:recv"))
           for d in corr.disagreements):
        f = frame_failures()
        if f:
            return f
    if any(d.get("op", "") in ("conversation", "model:msg", "builtin-exceptions") for d in corr.disagreements):
        f = conversation_failures(40)
        if f:
            return f
    # 2. boundary corpus of each part
    for v in c04.boundary_values():
        if c04.depth_of(v) > 200:
            continue
        f = value_failure(v)
        if f:
            return f
    f = frame_failures() or conversation_failures(30)
    if f:
        return f
    # 3. fresh cases
    idx = 1000
    while time.time() < deadline:
        for _ in range(200):
            f = value_failure(c04.gen_value(r, 4))
            if f:
                return f
        for direction in ("client", "server"):
            msg, ops = oracle_conversation(direction, ctx.seed, idx)
            if msg and "conversation:" + direction not in known:
                return (dict(kind="history", part="conversation", direction=direction, seed=ctx.seed, index=idx, ops=ops),
                        msg, "conversation:" + direction)
        idx += 1
    return None


def known_probes(ctx):
    """The known finding of C19 (armed only while it is listed with status=known in known_findings.json; unlisted, the
    same behaviour is reported through the direct oracle when a search runs).  The witness of the Lean theorem
    C19_emits_only_published_counterexample, `"\\ud800"`, alone and as a ping argument of a real Connection."""
    if SIG_SURROGATE not in getattr(ctx, "known_signatures", set()):
        return []
    texts = []
    msg = surrogate_text_judgement("\ud800")
    if msg:
        texts.append('brine.dump("\\ud800"): ' + msg)
    try:
        rpyc, _b, channel, consts, _p, _s = rp()
        st = make_loop_stream()
        peer = refcodec.RefPeer()
        consumed = [0]

        def pump():
            out = bytes(st.out[consumed[0]:])
            consumed[0] = len(st.out)
            if out:
                st.inbox += peer.feed(out)
        st.pump = pump
        conn = rpyc.VoidService()._connect(channel.Channel(st, True), {})
        try:
            conn.sync_request(consts.HANDLE_PING, "a\udfffb")
        except BaseException as ex:  # noqa
            if peer.problems:
                texts.append("a ping carrying 'a\\udfffb' from a real Connection: the conforming peer cannot decode the request "
                             "(%s); the caller got %s" % (peer.problems[0][:160], type(ex).__name__))
        conn._closed = True
    except Exception as ex:  # noqa
        texts.append("conversation probe crashed: %r" % (ex,))
    rep = bool(texts)
    return [(SIG_SURROGATE, rep, "signature=%s %s" % (SIG_SURROGATE, "; ".join(texts) if rep else "does not reproduce: the sender "
                                                      "refuses text with a lone surrogate"))]


def replay(case):
    out = dict(case=case)
    part = case.get("part")
    r = Rng(1).fork("c19-replay")
    if part == "value":
        v = valtext.from_text(case["value"])
        if has_surrogate(v):
            out["known_finding"] = SIG_SURROGATE
        out["implementation"] = impl_dump(v)[:400]
        out["reference"] = ref_dump(v)[:400]
        out["oracle"] = check_value_real(v, r) or "holds"
        sp = "spec encx " if has_surrogate(v) else "spec enc "
        out["model"] = run_driver([sp + case["value"]], exe="drv_spec")[0][:400]
    elif part == "send":
        data = bytes((i * 31 + case["size"]) % 7 for i in range(case["size"]))
        wire, nw = real_send(data, case["compress"])
        out["implementation"] = dict(header=wire[:5].hex(), trailer=wire[-1:].hex(), total=len(wire), writes=nw)
        out["oracle"] = check_send_real(data, case["compress"]) or "holds"
        flag = wire[4] if len(wire) > 4 else 0
        m = run_driver(["spec frame %d %s %s" % (1 if case["compress"] else 0, hexarg(data), hexarg(wire[5:-1] if flag else b""))],
                       exe="drv_spec")[0]
        out["model"] = dict(header=m[3:13], agrees=(m == "ok " + wire.hex()))
    elif part == "recv":
        data = bytes((i * 31 + case["size"]) % 7 for i in range(case["size"]))
        out["oracle"] = check_recv_real(data, case["level"], case["force"]) or "holds"
    elif part == "two-channel-send":
        probs, nsteps = check_shared_header(case["size_a"], case["size_b"], case["compress_a"], case["compress_b"])
        out["implementation"] = dict(preemption_points=nsteps, problems=probs)
        out["oracle"] = "; ".join(probs) or "holds"
    elif part == "builtin-exceptions":
        probs, _frames, outcome = check_all_builtin_exceptions()
        out["implementation"] = dict(classes=len(outcome), problems=probs)
        out["oracle"] = "; ".join(probs) or "holds"
    elif part == "queued-sends":
        probs, stats = check_queued_sends(case["queued"], case["big_first"], case["compress"])
        out["implementation"] = dict(wire_bytes=stats[0] if stats else None, packets=stats[1] if stats else None, problems=probs)
        out["oracle"] = "; ".join(probs) or "holds"
    elif part == "trailing-in-packet":
        probs, payload, m1 = check_trailing_in_packet(case["tail"])
        out["implementation"] = probs or "only the first message was answered"
        out["oracle"] = "; ".join(probs) or "holds"
        out["model"] = run_driver(["brine dec " + payload.hex()], exe="drv_spec")[0][:300]
    elif part == "recv-large":
        msg, ratio = check_big_recv(case["payload"], case["size"], case["level"])
        out["implementation"] = msg or "Channel.recv returned the data"
        out["reference"] = "refcodec.frame(data, level=%d): %.0f:1; refcodec.unframe returns the data" % (case["level"], ratio)
        out["oracle"] = msg or "holds"
    elif part == "ping-large":
        msg = check_big_ping(case["direction"], case["payload"], case["size"], case["level"])
        out["implementation"] = msg or "the ping was echoed"
        out["oracle"] = msg or "holds"
    elif part == "conversation":
        res = run_conversation(case["direction"], case["seed"], case["index"])
        out["implementation"] = dict(ops=res["ops"], problems=res["problems"],
                                     real_packets=[(k, d.hex()[:100]) for k, _v, d in res["frames"][:20]])
        out["oracle"] = "; ".join(res["problems"]) or "holds"
        lines = ["spec msg " + to_text_ordered(val) for _k, val, _d in res["frames"][:50]]
        outs = run_driver(lines, exe="drv_spec") if lines else []
        out["model"] = ["agrees" if o == "ok %s %s layout-ok" % (k, d.hex()) else o[:120]
                        for o, (k, _v, d) in zip(outs, res["frames"][:50])]
    return out
