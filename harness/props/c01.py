"""C01 — remote calls compute what a local call would, at any nesting depth.

A case is a *call tree program* of the language of lean/RpycModel/Proto/Calls.lean: a table of functions, each
owned by side A or B, whose bodies are `x = f(*args, **kwargs)` / `try ... except cls ...` / `return e` /
`raise cls(*args)` over constants (immutable values from the C04 generator, functions, lists), variables,
positional / keyword parameters and tuple construction.  Every function counts its invocations.

Each program is run three ways:
  * implementation, distributed: the functions become real Python closures living on the two ends of ONE real
    rpyc connection over the deterministic in-memory network (harness/simnet.py); a call to a function of the other
    side goes through a real netref; nested callbacks are served by the real `serve()` of the waiting side;
  * implementation, one process: the same closures, every reference a plain Python reference;
  * model: `evalDist` and `evalLocal` through the compiled driver `drv_calls`.
Compared: the root's result (by value; objects by identity of the object they refer to) or exception class and
`args` (a non-serializable member as `repr`, which is what the property allows), and every function's invocation
count.  The direct oracle is "distributed == one process" on the real code alone.
"""
import collections
import enum
import json
import sys
import time

import valtext
from lineproto import run_driver, DriverError
from pipeline import Corr
from prng import Rng
from props import c04

ID = "C01"
LEAN_MODULE = "RpycModel.Props.C01"
NAMESPACE = "Rpyc.Props.C01"
GEN = ["Netref.lean", "Brine.lean"]
DRIVERS = ["drv_calls"]
TRUSTED = [
    "nesting is by construction in the model: a nested callback is a recursive call of the big-step evaluator; that the "
    "real re-entrant serve() and the routing of replies by sequence number (C08's ledger) realise exactly this is not "
    "proved as a refinement - it is tied to the code by the correspondence runs (depth <= 8 random, deeper in the corpus)",
    "modelled, not verified: sequence numbers / routing of replies to waiters are abstracted (C08's ledger), the "
    "proxy cache and reference counts are abstracted to tables that only grow (C10/C03), get_id_pack to an injective "
    "key; of an exception only class and args travel in the model (attributes, traceback text: C09); repr() of a "
    "non-serializable exception argument is a parameter supplied by the harness",
    "the call-tree language is interpreted in Python by this harness (closures over real rpyc proxies); that Python's "
    "own call / try / raise behave as the model's local semantics says is CPython's",
]
ASSUMPTIONS = [
    "depth: every remote hop costs interpreter frames on both peers, so the real code reaches the interpreter's recursion "
    "limit at a much smaller call depth than the same computation in one process (measured every run AT THE DEFAULT "
    "recursion limit of 1000 - the harness itself runs with 3000 -, see observations_outside_the_property: the first "
    "ping-pong depth at which the distributed run fails while the one-process run returns); the statement's 'any depth' is "
    "the model's, the code's is bounded by that limit",
    "sync_request_timeout (30 s by default) is not in the model: a nested call that outlasts it raises at the caller "
    "while the callee still runs once; the deterministic network's virtual clock never lets it fire",
    "handlers cannot bind the caught exception (no `except ... as e` in the language): 'caught at another level' is "
    "observed as the branch taken and as what the handler then computes",
    "exception classes: the model rebuilds every class as itself, which is the code's behaviour for built-in classes "
    "under any configuration and for user classes under instantiate_custom_exceptions (set for the distributed runs; "
    "one run in five of programs raising built-in classes only uses the default configuration instead); the default "
    "configuration's stand-in for user classes is C09's and is recorded as an observation",
    "recursion: the language has no conditional, so a cyclic call graph terminates only through an exception (argument "
    "exhaustion -> IndexError); the theorem covers every program, the correspondence has corpus programs with cycles",
    "values inside brine's domain (C04: ints the interpreter can render, lengths < 2**32); programs holding an "
    "over-limit int are compared model-vs-code by outcome class only and are outside the oracle",
    "built-in exception classes (a class the receiver does not know arrives as a generic stand-in: C09), no subclass "
    "relation between the classes raised and the classes caught other than `except Exception`",
    "keyword names of one call are distinct (Python guarantees it) and exact `str` objects: a name that is an instance of a "
    "str SUBCLASS is boxed by reference inside the kwargs tuple and refused by the peer (TypeError: keywords must be strings; "
    "measured every run, observations_outside_the_property) - outside the modelled language",
    "`raise` builds the exception on the raising side from a class name and arguments: a function that raises an exception "
    "OBJECT or CLASS it received by reference raises a proxy, which the interpreter refuses (TypeError: exceptions must "
    "derive from BaseException; measured every run) - inherent in passing by reference, outside the modelled language",
    "objects lent to the peer stay lent for the duration of the computation (no release race inside one call tree: C10)",
    "repr() text of a non-serializable exception argument that lists a hash container (frozenset / set / dict) is "
    "compared as a multiset of characters: a frozenset that crossed the connection is an equal copy whose iteration "
    "order may differ",
]
EXPLANATION = (
    "Theorems: evalDist_eq_evalLocal (for every program, entry, arguments and fuel the distributed big-step semantics "
    "- box, brine encode/decode, unbox, HANDLE_CALL dispatch, reply or exception payload, nested to any depth in both "
    "directions - gives the same result / exception class + normalised args and the same invocation counters as the "
    "one-process semantics; induction on fuel with the box/unbox + brine round trip as marshalling lemma), "
    "kwargs_preserved, request/reply/exception round trips, try/catch taking the same branch in both semantics. "
    "Language covered: see lean/RpycModel/Proto/Calls.lean.")

class Boom(BaseException):
    """a user exception that derives from BaseException, not from Exception"""


import asyncio.exceptions  # noqa: E402  (CancelledError: a BaseException since 3.8)

# classes derived from BaseException but not from Exception: `except Exception` lets them pass; the peer must still
# report them to the requester (SystemExit / KeyboardInterrupt are left out: their routing is configuration)
BASE_ONLY = [GeneratorExit, asyncio.exceptions.CancelledError, Boom]
CLASSES = [ValueError, KeyError, IndexError, TypeError, ZeroDivisionError, RuntimeError, StopIteration,
           AssertionError, NameError] + BASE_ONLY
CLASS_BY_NAME = dict((c.__name__, c) for c in CLASSES)
CATCH_BY_NAME = dict(CLASS_BY_NAME, BaseException=BaseException)
KW_NAMES = ["a", "b", "x", "key", "self", "_self", "args", "kwargs", "kw_1", "", "é", "a b", "\U0001F600", "class", "\ud800",
            "self", "_self"]
MAX_INVOCATIONS = 120


def proxy_parameter_names():
    """the names of the NAMED parameters of the functions `netref._make_method` makes (`__call__` and an ordinary method),
    read off their signatures: a keyword argument is captured by the proxy's own function exactly when it has one of
    these names, so whatever the made methods call their parameters is tried as a keyword of the target"""
    import inspect
    try:
        from rpyc.core import netref
        out = []
        for made in ("__call__", "observed_method_name"):
            fn = netref._make_method(made, "doc")
            while fn is not None:
                for prm in inspect.signature(fn, follow_wrapped=False).parameters.values():
                    if prm.kind in (prm.POSITIONAL_OR_KEYWORD, prm.KEYWORD_ONLY) and prm.name not in out:
                        out.append(prm.name)
                fn = getattr(fn, "__wrapped__", None)
        return out
    except Exception:  # noqa  (no such function any more: nothing to add)
        return []


def kw_names():
    return KW_NAMES + [n for n in proxy_parameter_names() if n not in KW_NAMES]


# ---- "everything else": objects that are NOT exact instances of brine's types and therefore travel by reference
class Point(collections.namedtuple("Point", "probe y")):
    """a namedtuple (tuple subclass with field names)"""
    __slots__ = ()


class TupleSub(tuple):
    """a tuple subclass with extra state"""


class StrSub(str):
    pass


class IntSub(int):
    pass


class BytesSub(bytes):
    pass


class FloatSub(float):
    pass


class FrozensetSub(frozenset):
    pass


class Color(enum.Enum):
    RED = 1
    GREEN = 2
    BLUE = 3

    @property
    def probe(self):
        return "enum-" + self.name


def _same_named_class(variant):
    """two DIFFERENT classes that share `__module__` and `__qualname__` ("Shape") but not their special methods: a proxy
    type built for the one must not be reused for the other"""
    if variant == "call":
        class Shape(object):
            def __init__(self, k):
                self.probe = "shape-call-%d" % k

            def __call__(self, x):
                return ("called", x)
    else:
        class Shape(object):
            def __init__(self, k):
                self.probe = "shape-seq-%d" % k
                self.items = [k, k + 1, k + 2]

            def __len__(self):
                return len(self.items)

            def __iter__(self):
                return iter(self.items)

            def __getitem__(self, i):
                return self.items[i]
    Shape.__qualname__ = "Shape"
    Shape.__module__ = __name__
    return Shape


SHAPE_CLASSES = {"shape-call": _same_named_class("call"), "shape-seq": _same_named_class("seq")}

DATA_KINDS = ["shape-call", "shape-seq", "list", "list", "dict", "namedtuple", "tuple-subclass", "str-subclass", "int-subclass", "bytes-subclass",
              "float-subclass", "frozenset-subclass", "enum"]


def data_owner(entry):
    return entry[0]


def data_kind(entry):
    return entry.split(":", 1)[1] if ":" in entry else "list"


def make_data(kind, k):
    """the object behind key k; every kind except list / dict can be asked for `.probe`"""
    if kind == "list":
        return ["data", k]
    if kind == "dict":
        return {"data": k}
    if kind == "namedtuple":
        return Point("namedtuple-%d" % k, k)
    if kind == "enum":
        return [Color.RED, Color.GREEN, Color.BLUE][k % 3]
    if kind in SHAPE_CLASSES:
        return SHAPE_CLASSES[kind](k)
    base = {"tuple-subclass": lambda: TupleSub((k, "x")), "str-subclass": lambda: StrSub("s%d" % k),
            "int-subclass": lambda: IntSub(k), "bytes-subclass": lambda: BytesSub(b"b%d" % k),
            "float-subclass": lambda: FloatSub(k + 0.5), "frozenset-subclass": lambda: FrozensetSub([k, "y"])}[kind]()
    base.probe = "%s-%d" % (kind, k)
    return base


KNOWN_RELEASE_RACE = "release-overtakes-reference-during-unbox"


class Budget(BaseException):
    """the program makes more invocations than a case may (not an Exception: no `except Exception` catches it)"""


# ---------------------------------------------------------------------------------------------- text forms
def name_tok(s, prefix="n"):
    return prefix + ",".join(str(ord(c)) for c in s)


def name_from_tok(tok):
    body = tok[1:]
    return "".join(chr(int(x)) for x in body.split(",")) if body else ""


class Ref(object):
    """a constant that denotes the object `k` owned by `side`"""
    __slots__ = ("side", "k")

    def __init__(self, side, k):
        self.side, self.k = side, k

    def __repr__(self):
        return "R%s%d" % (self.side, self.k)


def const_text(c):
    """program constant (immutable value, Ref, or tuple mixing them) -> PYVAL tokens, canonical shape (a tuple all of
    whose members are values is a value)"""
    if isinstance(c, Ref):
        return "R%s%d" % (c.side, c.k)
    if type(c) is tuple and not _pure(c):
        return "< " + "".join(const_text(x) + " " for x in c) + ">"
    return "V " + valtext.to_text(c)


def _pure(c):
    if isinstance(c, Ref):
        return False
    if type(c) is tuple:
        return all(_pure(x) for x in c)
    return True


def const_to_json(c):
    if isinstance(c, Ref):
        return {"ref": [c.side, c.k]}
    if type(c) is tuple and not _pure(c):
        return {"tup": [const_to_json(x) for x in c]}
    return {"v": valtext.to_text(c)}


def const_from_json(j):
    if "ref" in j:
        return Ref(j["ref"][0], j["ref"][1])
    if "tup" in j:
        return tuple(const_from_json(x) for x in j["tup"])
    return valtext.from_text(j["v"])


def expr_text(e):
    k = e[0]
    if k == "c":
        return "c " + const_text(e[1])
    if k == "v":
        return "v%d" % e[1]
    if k == "a":
        return "a%d" % e[1]
    if k == "k":
        return name_tok(e[1], "k")
    if k == "t":
        return "t%d" % len(e[1]) + "".join(" " + expr_text(x) for x in e[1])
    raise ValueError(e)


def stmt_text(s):
    k = s[0]
    if k == "call":
        _, x, f, args, kws = s
        return "call %d %s %d%s %d%s" % (x, expr_text(f), len(args), "".join(" " + expr_text(a) for a in args),
                                         len(kws), "".join(" %s %s" % (name_tok(n), expr_text(e)) for n, e in kws))
    if k == "try":
        _, body, pat, handler = s
        return "try %d%s %s %d%s" % (len(body), "".join(" " + stmt_text(b) for b in body),
                                     "*" if pat is None else name_tok(pat),
                                     len(handler), "".join(" " + stmt_text(b) for b in handler))
    if k == "ret":
        return "ret " + expr_text(s[1])
    if k == "raise":
        return "raise %s %d%s" % (name_tok(s[1]), len(s[2]), "".join(" " + expr_text(a) for a in s[2]))
    raise ValueError(s)


def expr_to_json(e):
    if e[0] == "c":
        return ["c", const_to_json(e[1])]
    if e[0] == "t":
        return ["t", [expr_to_json(x) for x in e[1]]]
    return list(e)


def expr_from_json(j):
    if j[0] == "c":
        return ("c", const_from_json(j[1]))
    if j[0] == "t":
        return ("t", [expr_from_json(x) for x in j[1]])
    return tuple(j)


def stmt_to_json(s):
    k = s[0]
    if k == "call":
        return ["call", s[1], expr_to_json(s[2]), [expr_to_json(a) for a in s[3]], [[n, expr_to_json(e)] for n, e in s[4]]]
    if k == "try":
        return ["try", [stmt_to_json(b) for b in s[1]], s[2], [stmt_to_json(b) for b in s[3]]]
    if k == "ret":
        return ["ret", expr_to_json(s[1])]
    return ["raise", s[1], [expr_to_json(a) for a in s[2]]]


def stmt_from_json(j):
    k = j[0]
    if k == "call":
        return ("call", j[1], expr_from_json(j[2]), [expr_from_json(a) for a in j[3]], [(n, expr_from_json(e)) for n, e in j[4]])
    if k == "try":
        return ("try", [stmt_from_json(b) for b in j[1]], j[2], [stmt_from_json(b) for b in j[3]])
    if k == "ret":
        return ("ret", expr_from_json(j[1]))
    return ("raise", j[1], [expr_from_json(a) for a in j[2]])


def prog_to_json(p):
    return dict(fns=[dict(owner=f["owner"], body=[stmt_to_json(s) for s in f["body"]]) for f in p["fns"]],
                data=list(p["data"]),
                entry=dict(callee=const_to_json(p["entry"]["callee"]), args=[const_to_json(a) for a in p["entry"]["args"]],
                           kwargs=[[n, const_to_json(v)] for n, v in p["entry"]["kwargs"]]))


def prog_from_json(j):
    return dict(fns=[dict(owner=f["owner"], body=[stmt_from_json(s) for s in f["body"]]) for f in j["fns"]],
                data=list(j["data"]),
                entry=dict(callee=const_from_json(j["entry"]["callee"]), args=[const_from_json(a) for a in j["entry"]["args"]],
                           kwargs=[(n, const_from_json(v)) for n, v in j["entry"]["kwargs"]]))


def op_line(p, mode, reprs, fuel=4000):
    fns = p["fns"]
    n = len(fns)
    tbl = {"A": [], "B": []}
    for k, f in enumerate(fns):
        tbl[f["owner"]].append(k)
    for i, o in enumerate(p["data"]):
        tbl[data_owner(o)].append(n + i)
    ids = lambda xs: ",".join(str(x) for x in xs) if xs else "-"
    e = p["entry"]
    return "calls %s %d A %d%s tbl %s %s repr %d%s entry %s %d%s %d%s" % (
        mode, fuel, n,
        "".join(" fn %s %d%s" % (f["owner"], len(f["body"]), "".join(" " + stmt_text(s) for s in f["body"])) for f in fns),
        ids(tbl["A"]), ids(tbl["B"]),
        len(reprs), "".join(" %s %s" % (t, name_tok(rp)) for t, rp in reprs),
        const_text(e["callee"]), len(e["args"]), "".join(" " + const_text(a) for a in e["args"]),
        len(e["kwargs"]), "".join(" %s %s" % (name_tok(k), const_text(v)) for k, v in e["kwargs"]))


def canon_pyval_tokens(toks, i, stable=False):
    """PYVAL tokens (model output) -> canonical text, position after"""
    t = toks[i]
    if t == "V":
        v, j = valtext._from(toks, i + 1)
        if stable and type(v) is str:
            v = stable_text(v)
        return "V " + valtext.canon(v), j
    if t == "<":
        out = []
        i += 1
        while toks[i] != ">":
            s, i = canon_pyval_tokens(toks, i, False)
            out.append(s)
        return "< " + "".join(x + " " for x in out) + ">", i + 1
    if t[0] == "R":
        return t, i + 1
    raise ValueError("bad PYVAL token %r" % t)


def canon_model_outcome(text):
    """`ret PYVAL` | `exc NAME n PYVAL*` | `stuck E` -> the same canonical form `show_outcome` produces"""
    toks = text.split()
    if toks[0] == "ret":
        s, _ = canon_pyval_tokens(toks, 1)
        return "ret " + s
    if toks[0] == "exc":
        n = int(toks[2])
        i, out = 3, []
        for _ in range(n):
            s, i = canon_pyval_tokens(toks, i, True)
            out.append(s)
        return "exc %s %d%s" % (name_from_tok(toks[1]), n, "".join(" " + x for x in out))
    return text


# ---------------------------------------------------------------------------------------------- running a program
class World(object):
    """the objects of one program and how each side sees them"""

    def __init__(self, prog):
        from rpyc.core.netref import BaseNetref
        self.BaseNetref = BaseNetref
        self.prog = prog
        self.n = len(prog["fns"])
        self.dist = False
        self.counts = [0] * self.n
        self.invocations = 0
        self.stats = dict(remote_calls=0, max_depth=0, raised=0, caught=0, caught_remote=0, callbacks=0, depth=0)
        self.objs = {}        # (side, k) -> the real object
        self.by_id = {}       # id(real object) -> (side, k)
        self.proxy = {}       # (viewer side, (side, k)) -> netref
        for k, f in enumerate(prog["fns"]):
            self._add(f["owner"], k, self._make_fn(k))
        self.kind_of = {}
        self.obs = []         # what callees (and the root) observe of by-reference arguments: class name, an attribute, identity
        for i, o in enumerate(prog["data"]):
            obj = make_data(data_kind(o), self.n + i)
            if id(obj) in self.by_id:      # an enum member is a singleton: one key per member and side
                obj = ["data", self.n + i]
            self._add(data_owner(o), self.n + i, obj)
            self.kind_of[self.n + i] = data_kind(o) if type(obj) is not list else "list"

    def _add(self, side, k, obj):
        self.objs[(side, k)] = obj
        self.by_id[id(obj)] = (side, k)

    def _make_fn(self, fid):
        world = self

        def fn(*args, **kwargs):
            return world.invoke(fid, args, kwargs)
        fn.__name__ = fn.__qualname__ = "f%d" % fid
        return fn

    # -- what a constant denotes for code running at `side`
    def view(self, side, c):
        if isinstance(c, Ref):
            key = (c.side, c.k)
            if key not in self.objs:
                raise KeyError("program mentions an unknown object %r" % (c,))
            if self.dist and c.side != side:
                return self.proxy[(side, key)]
            return self.objs[key]
        if type(c) is tuple:
            return tuple(self.view(side, x) for x in c)
        return c

    def foreign_mentions(self):
        """objects that code of the other side names in a constant: those must have been handed over before the
        computation starts (the model's initial tables hold every object; holding more is harmless)"""
        need = set()

        def visit(side, c):
            if isinstance(c, Ref):
                if c.side != side:
                    need.add((c.side, c.k))
            elif type(c) is tuple:
                for x in c:
                    visit(side, x)
        for f in self.prog["fns"]:
            for c in prog_consts(dict(fns=[f], entry=dict(args=[], kwargs=[]))):
                visit(f["owner"], c)
        e = self.prog["entry"]
        for c in [e["callee"]] + list(e["args"]) + [v for _n, v in e["kwargs"]]:
            visit("A", c)
        return need

    def ref_of(self, obj):
        """the (side, k) an object or proxy refers to"""
        if issubclass(type(obj), self.BaseNetref):
            return self.by_id.get(object.__getattribute__(obj, "____id_pack__")[2])
        return self.by_id.get(id(obj))

    def is_function(self, obj):
        """is it one of the program's functions (or a proxy of one)?  Not `callable(obj)`: a proxy of a list is an
        instance of a netref class that inherits `type.__call__`'s name from the builtin class cache, so `callable`
        says True for it; whether THAT is right is not C01's question, so the language decides by what the object is"""
        r = self.ref_of(obj)
        return r is not None and r[1] < self.n

    def text(self, obj):
        from rpyc.core import brine
        if brine.dumpable(obj):
            return "V " + valtext.canon(obj)
        if type(obj) is tuple:
            return "< " + "".join(self.text(x) + " " for x in obj) + ">"
        r = self.ref_of(obj)
        if r is None:
            return "?%s" % type(obj).__name__
        return "R%s%d" % r

    def observe(self, where, x):
        """what code holding `x` can see of an object that travelled by reference: the name of its class, an attribute
        of it, and which object it is (the Lean model says `ref`; this part of the comparison is real code only:
        distributed run vs one-process run)"""
        from rpyc.core import brine
        if type(x) is tuple and not brine.dumpable(x):
            for i, y in enumerate(x):
                self.observe(where + (i,), y)
            return
        r = self.ref_of(x)
        if r is not None and r[1] < self.n:
            return                      # one of the program's functions
        if r is None and brine.dumpable(x):
            return                      # an immutable value: compared by value elsewhere
        if r is not None and self.kind_of.get(r[1]) in SHAPE_CLASSES:
            # not importable by name (two classes share it): `proxy.__class__` would have to be fetched from the peer,
            # and `__class__` is not a public name - a harness artefact, not compared
            cls = "Shape"
        else:
            try:
                cls = x.__class__.__name__
            except Exception as ex:  # noqa
                cls = "!" + type(ex).__name__
        try:
            probe = repr(x.probe)
        except Exception as ex:  # noqa
            probe = "!" + type(ex).__name__
        # what the special methods of its class give: len(), and a call for the callable one of the same-named classes
        try:
            size = len(x)
        except Exception as ex:  # noqa
            size = "!" + type(ex).__name__
        called = None
        if r is not None and self.kind_of.get(r[1]) == "shape-call":
            try:
                called = repr(x(1))
            except Exception as ex:  # noqa
                called = "!" + type(ex).__name__
        self.obs.append((where, cls, probe, "R%s%d" % r if r is not None else "a copy", size, called))

    # -- the interpreter
    def invoke(self, fid, args, kwargs):
        self.invocations += 1
        if self.invocations > MAX_INVOCATIONS:
            raise Budget()
        self.counts[fid] += 1
        if self.kind_of and len(self.obs) < 400:
            for i, a in enumerate(args):
                self.observe((fid, self.counts[fid], i), a)
            for kname, a in kwargs.items():
                self.observe((fid, self.counts[fid], kname), a)
        st = self.stats
        st["depth"] += 1
        st["max_depth"] = max(st["max_depth"], st["depth"])
        try:
            f = self.prog["fns"][fid]
            r = self.block(f["owner"], f["body"], dict(args=args, kwargs=kwargs, vars={}))
            return None if r is None else r[1]
        finally:
            st["depth"] -= 1

    def ev(self, side, e, env):
        k = e[0]
        if k == "c":
            return self.view(side, e[1])
        if k == "v":
            if e[1] not in env["vars"]:
                raise NameError()
            return env["vars"][e[1]]
        if k == "a":
            if e[1] >= len(env["args"]):
                raise IndexError()
            return env["args"][e[1]]
        if k == "k":
            if e[1] not in env["kwargs"]:
                raise KeyError()
            return env["kwargs"][e[1]]
        if k == "t":
            return tuple(self.ev(side, x, env) for x in e[1])
        raise ValueError(e)

    def block(self, side, stmts, env):
        for s in stmts:
            k = s[0]
            if k == "call":
                _, x, fe, aes, kes = s
                f = self.ev(side, fe, env)
                args = [self.ev(side, a, env) for a in aes]
                kwargs = {}
                for n, e in kes:
                    kwargs[n] = self.ev(side, e, env)
                if not self.is_function(f):
                    raise TypeError()
                if self.dist and issubclass(type(f), self.BaseNetref):
                    self.stats["remote_calls"] += 1
                env["vars"][x] = f(*args, **kwargs)
            elif k == "try":
                _, body, pat, handler = s
                saved = dict(env["vars"])
                cls = Exception if pat is None else CATCH_BY_NAME[pat]
                try:
                    r = self.block(side, body, env)
                except cls as ex:
                    if isinstance(ex, (Budget, KeyboardInterrupt, SystemExit)):
                        raise
                    self.stats["caught"] += 1
                    if hasattr(ex, "_remote_tb"):
                        self.stats["caught_remote"] += 1
                    env["vars"] = saved
                    r = self.block(side, handler, env)
                if r is not None:
                    return r
            elif k == "ret":
                return ("ret", self.ev(side, s[1], env))
            elif k == "raise":
                self.stats["raised"] += 1
                raise CLASS_BY_NAME[s[1]](*[self.ev(side, a, env) for a in s[2]])
            else:
                raise ValueError(s)
        return None

    def reset(self, dist):
        self.dist = dist
        self.counts = [0] * self.n
        self.invocations = 0
        self.obs = []
        for k in self.stats:
            self.stats[k] = 0

    def entry(self):
        e = self.prog["entry"]
        f = self.view("A", e["callee"])
        args = [self.view("A", a) for a in e["args"]]
        kwargs = dict((n, self.view("A", v)) for n, v in e["kwargs"])
        if not self.is_function(f):
            raise TypeError()
        if self.dist and issubclass(type(f), self.BaseNetref):
            self.stats["remote_calls"] += 1
        return f(*args, **kwargs)


def stable_text(s):
    """the text of a hash container lists its members in an order that depends on the table's history; a frozenset
    that crossed the connection is an equal copy, not the same table.  Texts that may contain such a listing are
    compared as multisets of characters (applied alike to the distributed run, the one-process run and the model)."""
    return "".join(sorted(s)) if ("{" in s or "frozenset(" in s) else s


def norm_arg(a):
    from rpyc.core import brine
    if brine.dumpable(a):
        return stable_text(a) if type(a) is str else a
    try:
        return stable_text(repr(a))
    except Exception:  # noqa  (an int beyond the str() digit limit inside it: outside brine's domain)
        return "<repr failed>"


def show_outcome(world, fn):
    """run `fn` and describe the outcome canonically; also the raw exception args (for the repr table)"""
    raw = []
    try:
        v = fn()
        if world.kind_of:
            world.observe(("root",), v)
        out = "ret " + world.text(v)
    except (Budget, KeyboardInterrupt, SystemExit):
        raise
    except BaseException as ex:  # noqa
        cls = type(ex)
        name = cls.__name__
        known = CLASS_BY_NAME.get(name)
        if cls.__module__ != "builtins" and not (known is not None and known.__module__ == cls.__module__):
            name = cls.__module__ + "." + name
        raw = list(ex.args)
        args = [norm_arg(a) for a in ex.args]
        out = "exc %s %d%s" % (name, len(args), "".join(" " + world.text(a) for a in args))
    return out, raw


def run_local(world):
    world.reset(False)
    out, raw = show_outcome(world, world.entry)
    world.obs_local = list(world.obs)
    return out, list(world.counts), raw, dict(world.stats)


def run_dist(world, custom_exceptions=True):
    """the program on the two ends of one real connection over the deterministic network; `custom_exceptions=False`: the
    default configuration's treatment of exception classes (only for programs that raise built-in classes)"""
    import rpyc
    from simnet import Net
    world.reset(True)
    world.proxy = {}

    class SideB(rpyc.Service):
        def exposed_get(self, k):
            return world.objs[("B", k)]

        def exposed_put(self, k, obj):
            world.proxy[("B", ("A", k))] = obj

        def exposed_ping_(self):
            return "pong"

    net = Net()
    info = {}
    with net.installed():
        # public attributes readable: the observation `x.probe` of a by-reference argument is an attribute read
        # custom exception classes (asyncio's CancelledError, Boom) are rebuilt as themselves: the modules are imported
        cfg = dict(allow_public_attrs=True, instantiate_custom_exceptions=bool(custom_exceptions))
        ca, cb = net.connect_pair(None, SideB(), dict(cfg), dict(cfg))
        # watch both tables: a LOCAL_REF that does not resolve although the peer still holds (or has just sent) a
        # reference is the signature of a known finding (see KNOWN_RELEASE_RACE)
        from rpyc.lib.colls import RefCountingColl
        misses = []

        class Watched(RefCountingColl):
            __slots__ = ()

            def __getitem__(self, key):
                try:
                    return RefCountingColl.__getitem__(self, key)
                except KeyError:
                    misses.append(key)
                    raise
        ca._local_objects, cb._local_objects = Watched(), Watched()
        try:
            try:
                root = ca.root
                need = world.foreign_mentions()
                for (side, k) in sorted(world.objs):
                    if (side, k) not in need:
                        continue
                    if side == "B":
                        world.proxy[("A", ("B", k))] = root.get(k)
                    else:
                        root.put(k, world.objs[(side, k)])
                setup_error = None
            except Exception as ex:  # noqa  (a connection that cannot even hand objects over)
                setup_error = ex
            frames0 = len(net.frames)
            if setup_error is None:
                out, raw = show_outcome(world, world.entry)
            else:
                out, raw = "could-not-hand-objects-over %s" % type(setup_error).__name__, []
            info["frames"] = len(net.frames) - frames0
            try:
                info["usable"] = not ca.closed and ca.root.ping_() == "pong"
            except Exception:  # noqa
                info["usable"] = False
        finally:
            world.proxy = {}
            net.shutdown([ca])
    info["thread_exceptions"] = [t for t in net.trace if t and t[0] == "thread-exception"]
    info["unresolved_local_refs"] = len(misses)
    return out, list(world.counts), raw, dict(world.stats), info


def has_overlimit(c):
    if isinstance(c, Ref):
        return False
    return c04.has_overlimit_int(c) if type(c) is not tuple else any(has_overlimit(x) for x in c)


def prog_consts(p):
    def from_expr(e):
        if e[0] == "c":
            yield e[1]
        elif e[0] == "t":
            for x in e[1]:
                for y in from_expr(x):
                    yield y

    def from_block(b):
        for s in b:
            if s[0] == "call":
                for e in [s[2]] + list(s[3]) + [e for _n, e in s[4]]:
                    for y in from_expr(e):
                        yield y
            elif s[0] == "try":
                for y in from_block(s[1]):
                    yield y
                for y in from_block(s[3]):
                    yield y
            elif s[0] == "ret":
                for y in from_expr(s[1]):
                    yield y
            else:
                for e in s[2]:
                    for y in from_expr(e):
                        yield y
    for f in p["fns"]:
        for y in from_block(f["body"]):
            yield y
    for a in p["entry"]["args"]:
        yield a
    for _n, v in p["entry"]["kwargs"]:
        yield v


def outside_domain(p):
    return any(has_overlimit(c) for c in prog_consts(p))


# ---------------------------------------------------------------------------------------------- generator
_POOL = {}


def value_pool(seed=12345):
    """values from the C04 generator, sorted into small / flat (no nesting) / big / over the str() digit limit"""
    if not _POOL:
        r = Rng(seed).fork("c01-values")
        small, flat, big, over = [], [], [], []
        for k in range(2500):
            v = c04.gen_value(r, 2 if k % 3 else 1)
            if c04.has_overlimit_int(v):
                if len(over) < 12:
                    over.append(v)
                continue
            n = len(valtext.to_text(v))
            if n <= 160:
                small.append(v)
                if c04.depth_of(v) == 0:
                    flat.append(v)
            elif len(big) < 150 and n <= 30000:
                big.append(v)
        if not over:
            over.append(10 ** (c04.LIMIT or 5000))
        _POOL.update(small=small, flat=flat, big=big, over=over)
    return _POOL


class ProgGen(object):
    """random call trees: every function is on A or B, calls new functions (depth <= max_depth), functions generated
    earlier (shared sub-trees) or a callable it was handed; ~30 % of the functions raise; try/except at random levels"""

    RAISED = ["ValueError", "KeyError", "RuntimeError", "ValueError", "KeyError", "IndexError", "TypeError",
              "ZeroDivisionError", "StopIteration", "AssertionError", "NameError", "GeneratorExit", "CancelledError", "Boom"]
    CAUGHT = RAISED + ["BaseException", "BaseException"]

    def __init__(self, r, max_depth=8):
        self.r = r
        self.max_depth = max_depth
        self.fns = []
        self.sigs = {}
        self.done = []          # completed function ids
        self.data = [r.choice("AB") + ":" + r.choice(DATA_KINDS) for _ in range(r.below(6))]
        self.budget = 2 + r.below(14)    # functions
        self.overlimit = r.chance(1, 60)
        self.n_fns_placeholder = 1000    # data object keys are renumbered after the functions are known

    def value(self, depth=2):
        """an immutable value of every shape the C04 generator makes (drawn from a pool built once per run); mostly
        small (the same constant travels many times), now and then a big one"""
        r = self.r
        pool = value_pool()
        if self.overlimit and r.chance(1, 3):
            return r.choice(pool["over"])
        if r.chance(1, 60) and pool["big"]:
            return r.choice(pool["big"])
        return r.choice(pool["small" if depth > 1 else "flat"])

    def fn_ref(self, k):
        return Ref(self.fns[k]["owner"], k)

    def obj_ref(self):
        r = self.r
        if self.done and (r.chance(1, 2) or not self.data):
            return self.fn_ref(r.choice(self.done))
        if self.data:
            i = r.below(len(self.data))
            return Ref(data_owner(self.data[i]), self.n_fns_placeholder + i)
        return None

    def expr(self, scope, depth=2):
        r = self.r
        k = r.below(1000)
        avail = [("v", x) for x in scope["vars"]] + [("a", i) for i in range(scope["npos"])] + [("k", n) for n in scope["kws"]]
        if k < 300:
            return ("c", self.value())
        if k < 450:
            ref = self.obj_ref()
            if ref is not None:
                return ("c", ref)
        if k < 500:
            ref = self.obj_ref()
            return ("c", (self.value(1), ref) if ref is not None else (self.value(1),))
        if k < 868:
            return r.choice(avail) if avail else ("c", self.value())
        if k < 870:
            return r.choice([("v", 90 + r.below(3)), ("a", scope["npos"] + r.below(2)), ("k", "nope")])
        if depth > 0:
            return ("t", [self.expr(scope, depth - 1) for _ in range(r.below(4))])
        return ("c", self.value(1))

    def fresh_sig(self):
        r = self.r
        kws = []
        for _ in range(r.below(3)):
            n = r.choice(kw_names()) if r.chance(4, 5) else c04.gen_text(r, r.below(4))
            if n not in kws:
                kws.append(n)
        return dict(npos=r.below(4), kws=kws, cb=None)

    def args_for(self, sig, scope):
        """argument expressions matching a callee's signature; where it expects a callable, one is handed over"""
        r = self.r
        args = [self.expr(scope) for _ in range(sig["npos"])]
        kwargs = [(n, self.expr(scope)) for n in sig["kws"]]
        if sig.get("cb") is not None:
            where, g = sig["cb"]
            cands = [k for k in self.done if self.sigs[k]["cb"] is None and self.sigs[k]["npos"] == self.sigs[g]["npos"]
                     and self.sigs[k]["kws"] == self.sigs[g]["kws"]] or [g]
            e = ("c", self.fn_ref(r.choice(cands)))
            if where[0] == "a":
                args[where[1]] = e
            else:
                kwargs = [(n, e if n == where[1] else x) for n, x in kwargs]
        if r.chance(1, 300):
            args = args[:-1] if args and r.chance(1, 2) else args + [self.expr(scope)]
        return args, kwargs

    def call_stmt(self, owner, scope, depth):
        r = self.r
        x = r.below(6)
        c = r.below(97) if not r.chance(1, 150) else 99
        can_new = depth < self.max_depth and self.budget > 0
        if not can_new and not self.done and scope.get("cb") is None:
            return None
        if can_new and (c < 62 or (depth < 3 and c < 85) or not self.done):
            sig = self.fresh_sig()
            simple = [k for k in self.done if self.sigs[k]["cb"] is None]
            if simple and r.chance(1, 3) and (sig["npos"] or sig["kws"]):
                g = r.choice(simple)
                where = ("a", r.below(sig["npos"])) if sig["npos"] and (r.chance(2, 3) or not sig["kws"]) else ("k", r.choice(sig["kws"]))
                sig["cb"] = (where, g)
            fid = self.new_fn(depth + 1, sig)
            args, kwargs = self.args_for(sig, scope)
            return ("call", x, ("c", self.fn_ref(fid)), args, kwargs)
        if self.done and c < 90:
            k = r.choice(self.done)
            args, kwargs = self.args_for(self.sigs[k], scope)
            return ("call", x, ("c", self.fn_ref(k)), args, kwargs)
        if scope.get("cb") is not None and c < 97:
            where, g = scope["cb"]
            args, kwargs = self.args_for(self.sigs[g], scope)
            return ("call", x, (where[0], where[1]), args, kwargs)
        if self.done and c < 98:
            k = r.choice(self.done)
            args, kwargs = self.args_for(self.sigs[k], scope)
            return ("call", x, ("c", self.fn_ref(k)), args, kwargs)
        # most likely not callable: TypeError on both sides
        return ("call", x, self.expr(scope), [self.expr(scope) for _ in range(r.below(3))], [])

    def raise_stmt(self, scope):
        r = self.r
        return ("raise", r.choice(self.RAISED), [self.expr(scope) for _ in range(r.below(3))])

    def block(self, owner, scope, depth, top, nest=0, raises=False):
        r = self.r
        scope = dict(scope, vars=list(scope["vars"]))
        out = []
        n = 1 + r.below(3 if nest else 4)
        raise_at = r.below(n + 1) if raises else None
        for i in range(n):
            if raise_at == i:
                out.append(self.raise_stmt(scope))
                return out
            k = r.below(100)
            if k < 66 or nest >= 2:
                s = self.call_stmt(owner, scope, depth)
                if s is None:
                    continue
                out.append(s)
                if s[1] not in scope["vars"]:
                    scope["vars"].append(s[1])
            elif k < 92:
                inner = raises and r.chance(1, 2)
                if inner:
                    raise_at = None
                    raises = False
                body = self.block(owner, scope, depth, False, nest + 1, raises=inner)
                pat = None if r.chance(1, 2) else r.choice(self.CAUGHT)
                handler = self.block(owner, scope, depth, False, nest + 1, raises=r.chance(1, 12))
                out.append(("try", body, pat, handler))
            else:
                out.append(("ret", self.expr(scope, 3)))
                return out
        if raise_at is not None:
            out.append(self.raise_stmt(scope))
            return out
        if top and r.chance(5, 6):
            # return what was received and computed, so that arguments are observable at the root
            parts = [("a", i) for i in range(scope["npos"])] + [("k", n) for n in scope["kws"]] + [("v", v) for v in scope["vars"]]
            r.shuffle(parts)
            out.append(("ret", ("t", parts[:1 + r.below(4)]) if parts and r.chance(4, 5) else self.expr(scope, 3)))
        elif not top and r.chance(1, 8):
            out.append(("ret", self.expr(scope, 2)))
        return out

    def new_fn(self, depth, sig):
        self.budget -= 1
        fid = len(self.fns)
        owner = self.r.choice("AB")
        self.fns.append(dict(owner=owner, body=None))
        self.sigs[fid] = sig
        scope = dict(vars=[], npos=sig["npos"], kws=sig["kws"], cb=sig.get("cb"))
        self.fns[fid]["body"] = self.block(owner, scope, depth, True, raises=self.r.chance(3, 10))
        self.done.append(fid)
        return fid

    def program(self):
        r = self.r
        sig = self.fresh_sig()
        self.new_fn(0, sig)
        n = len(self.fns)
        prog = dict(fns=self.fns, data=self.data, entry=None)
        renumber(prog, self.n_fns_placeholder, n)

        def entry_val():
            k = r.below(10)
            if k < 5:
                return self.value()
            if k < 7 and self.data:
                i = r.below(len(self.data))
                return Ref(data_owner(self.data[i]), n + i)
            if k < 9:
                return self.fn_ref(r.choice(self.done))
            return (self.value(1), self.fn_ref(0))
        prog["entry"] = dict(callee=self.fn_ref(0), args=[entry_val() for _ in range(sig["npos"])],
                             kwargs=[(kn, entry_val()) for kn in sig["kws"]])
        return prog


def renumber(prog, base, n):
    """data-object keys were generated as base+i; they are n+i"""
    def fix_c(c):
        if isinstance(c, Ref):
            return Ref(c.side, c.k - base + n) if c.k >= base else c
        if type(c) is tuple:
            return tuple(fix_c(x) for x in c)
        return c

    def fix_e(e):
        if e[0] == "c":
            return ("c", fix_c(e[1]))
        if e[0] == "t":
            return ("t", [fix_e(x) for x in e[1]])
        return e

    def fix_b(b):
        out = []
        for s in b:
            if s[0] == "call":
                out.append(("call", s[1], fix_e(s[2]), [fix_e(a) for a in s[3]], [(k, fix_e(e)) for k, e in s[4]]))
            elif s[0] == "try":
                out.append(("try", fix_b(s[1]), s[2], fix_b(s[3])))
            elif s[0] == "ret":
                out.append(("ret", fix_e(s[1])))
            else:
                out.append(("raise", s[1], [fix_e(a) for a in s[2]]))
        return out
    for f in prog["fns"]:
        f["body"] = fix_b(f["body"])


# ---------------------------------------------------------------------------------------------- hand-written corpus
def R_(side, k):
    return Ref(side, k)


def boundary_programs():
    """small programs at the corners of the statement"""
    V = lambda v: ("c", v)
    out = []
    # depth-8 ping-pong A,B,A,B,...; the leaf returns its arguments
    fns = []
    for d in range(8):
        fns.append(dict(owner="BA"[d % 2], body=[("call", 0, V(R_("BA"[(d + 1) % 2], d + 1)), [("a", 0), V(d)], [("key", ("a", 0))]),
                                                 ("ret", ("t", [("v", 0), V(d)]))]))
    fns.append(dict(owner="BA"[0], body=[("ret", ("t", [("a", 0), ("a", 1), ("k", "key")]))]))
    out.append(dict(fns=fns, data=["A"], entry=dict(callee=R_("B", 0), args=[R_("A", 9)], kwargs=[])))
    # an exception raised at depth 5 crosses three connections hops and is caught at depth 1; the handler calls on
    fns = [dict(owner="B", body=[("try", [("call", 0, V(R_("A", 1)), [], [])], "KeyError", [("call", 1, V(R_("A", 5)), [V("caught")], []), ("ret", ("v", 1))]),
                                 ("ret", V("not reached by the raise"))]),
           dict(owner="A", body=[("call", 0, V(R_("A", 2)), [], []), ("ret", V(1))]),
           dict(owner="A", body=[("try", [("call", 0, V(R_("B", 3)), [], [])], "ValueError", [("ret", V("wrong handler"))]), ("ret", V(2))]),
           dict(owner="B", body=[("call", 0, V(R_("A", 4)), [], []), ("ret", V(3))]),
           dict(owner="A", body=[("raise", "KeyError", [V("k"), V((1, 2.5)), V(R_("A", 6))])]),
           dict(owner="A", body=[("ret", ("t", [("a", 0), V(R_("A", 6))]))])]
    out.append(dict(fns=fns, data=["A"], entry=dict(callee=R_("B", 0), args=[], kwargs=[])))
    # keyword arguments with odd names, values by value and by reference, and a callable handed over and called back
    fns = [dict(owner="B", body=[("call", 0, ("k", "cb"), [("k", ""), ("a", 0)], [("é", ("k", "a b")), ("\ud800", V(b"\x00"))]),
                                 ("ret", ("t", [("v", 0), ("k", "cb"), ("a", 0)]))]),
           dict(owner="A", body=[("ret", ("t", [("a", 0), ("a", 1), ("k", "é"), ("k", "\ud800")]))])]
    out.append(dict(fns=fns, data=["A", "B"],
                    entry=dict(callee=R_("B", 0), args=[(1, R_("B", 3))], kwargs=[("cb", R_("A", 1)), ("", R_("A", 2)), ("a b", (R_("A", 2), (None, -0.0)))])))
    # StopIteration with and without arguments, raised remotely, uncaught and caught
    for args in ([], [V(5)], [V(R_("B", 2))]):
        fns = [dict(owner="A", body=[("try", [("call", 0, V(R_("B", 1)), [], [])], "StopIteration", [("ret", V("stop"))])]),
               dict(owner="B", body=[("raise", "StopIteration", args)])]
        out.append(dict(fns=fns, data=["B"], entry=dict(callee=R_("A", 0), args=[], kwargs=[])))
        out.append(dict(fns=[fns[1]], data=["B", "B"], entry=dict(callee=R_("B", 0), args=[], kwargs=[])))
    # calling what is not callable (a value, a proxy of a list), unbound names, on the far side
    fns = [dict(owner="B", body=[("try", [("call", 0, ("a", 0), [], [])], "TypeError", [("call", 1, V(R_("A", 1)), [("a", 0)], [])]), ("ret", ("t", [("v", 1), ("a", 2)]))]),
           dict(owner="A", body=[("try", [("call", 0, V(7), [], [])], None, [("ret", ("k", "missing"))])])]
    out.append(dict(fns=fns, data=["A"], entry=dict(callee=R_("B", 0), args=[R_("A", 2)], kwargs=[])))
    # the same function called many times from both sides; None returned by falling off the end
    fns = [dict(owner="A", body=[("call", 0, V(R_("B", 1)), [], []), ("call", 1, V(R_("B", 1)), [], []), ("call", 2, V(R_("A", 2)), [], []),
                                 ("ret", ("t", [("v", 0), ("v", 1), ("v", 2)]))]),
           dict(owner="B", body=[("call", 0, V(R_("A", 2)), [], []), ("call", 0, V(R_("A", 2)), [], [])]),
           dict(owner="A", body=[])]
    out.append(dict(fns=fns, data=[], entry=dict(callee=R_("A", 0), args=[], kwargs=[])))
    # everything that is not an exact instance of brine's types travels by reference: namedtuple, tuple / str / int /
    # bytes / float / frozenset subclass instances, enum members - as positional and keyword arguments, callback
    # arguments, results; the callee reads their class name and an attribute, the root gets the very objects back
    kinds_a = ["A:namedtuple", "A:tuple-subclass", "A:str-subclass", "A:int-subclass", "A:enum"]
    kinds_b = ["B:frozenset-subclass", "B:bytes-subclass", "B:float-subclass", "B:namedtuple", "B:tuple-subclass"]
    fns = [dict(owner="B", body=[("call", 0, V(R_("A", 1)), [("a", 0), ("a", 1), V(R_("B", 7))], [("key", ("a", 2)), ("x", V(R_("B", 10)))]),
                                 ("ret", ("t", [("v", 0), ("a", 3), ("a", 4), V(R_("B", 11))]))]),
           dict(owner="A", body=[("ret", ("t", [("a", 1), ("k", "key"), ("a", 2), ("k", "x"), V((R_("B", 8), (1, R_("B", 9))))]))])]
    out.append(dict(fns=fns, data=kinds_a + kinds_b,
                    entry=dict(callee=R_("B", 0), args=[R_("A", 2), R_("A", 3), R_("A", 4), R_("A", 5), R_("A", 6)], kwargs=[])))
    fns = [dict(owner="A", body=[("call", 0, V(R_("B", 1)), [V(R_("A", 2))], [("nt", V(R_("A", 3)))]), ("raise", "ValueError", [("v", 0), V(R_("A", 4))])]),
           dict(owner="B", body=[("ret", ("t", [("k", "nt"), ("a", 0)]))])]
    out.append(dict(fns=fns, data=["A:tuple-subclass", "A:namedtuple", "A:str-subclass"], entry=dict(callee=R_("A", 0), args=[], kwargs=[])))
    # a cyclic call graph f0 -> f1 -> f2 -> f0 ... across the connection: the language has no conditional, a recursion ends
    # when an argument runs out (IndexError, caught one level up); f0 runs at two depths
    fns = [dict(owner="A", body=[("try", [("call", 0, V(R_("B", 1)), [("a", 1), ("a", 2), ("a", 3), ("a", 4), ("a", 5), ("a", 6)], [])], "IndexError", [("ret", ("t", [V("bottom at f0"), ("a", 0)]))]),
                                 ("ret", ("t", [("v", 0), ("a", 0)]))]),
           dict(owner="B", body=[("try", [("call", 0, V(R_("A", 2)), [("a", 1), ("a", 2), ("a", 3), ("a", 4), ("a", 5)], [])], "IndexError", [("ret", ("t", [V("bottom at f1"), ("a", 0)]))]),
                                 ("ret", ("t", [("v", 0), ("a", 0)]))]),
           dict(owner="A", body=[("try", [("call", 0, V(R_("A", 0)), [("a", 1), ("a", 2), ("a", 3), ("a", 4)], [])], "IndexError", [("ret", ("t", [V("bottom at f2"), ("a", 0)]))]),
                                 ("ret", ("t", [("v", 0), ("a", 0)]))])]
    out.append(dict(fns=fns, data=[], entry=dict(callee=R_("A", 0), args=[0, 1, 2, 3, 4, 5, 6], kwargs=[])))
    # keyword names that a proxy's own methods might have taken for themselves: `self`, `_self`, `args`, `kwargs`
    fns = [dict(owner="A", body=[("call", 0, V(R_("B", 1)), [V(0)], [("_self", V(1)), ("self", V(2)), ("args", V(3)), ("kwargs", V(R_("A", 2)))]), ("ret", ("v", 0))]),
           dict(owner="B", body=[("ret", ("t", [("k", "_self"), ("k", "self"), ("k", "args"), ("k", "kwargs"), ("a", 0)]))])]
    out.append(dict(fns=fns, data=["A:list"], entry=dict(callee=R_("A", 0), args=[], kwargs=[])))
    fns = [dict(owner="B", body=[("ret", ("t", [("k", "_self")]))])]
    out.append(dict(fns=fns, data=[], entry=dict(callee=R_("B", 0), args=[], kwargs=[("_self", 7)])))
    # ... and whatever the made methods call their own named parameters in this tree (read off their signatures)
    for nm in proxy_parameter_names():
        fns = [dict(owner="A", body=[("call", 0, V(R_("B", 1)), [V(0)], [(nm, V(1))]), ("ret", ("v", 0))]),
               dict(owner="B", body=[("ret", ("t", [("k", nm), ("a", 0)]))])]
        out.append(dict(fns=fns, data=[], entry=dict(callee=R_("A", 0), args=[], kwargs=[])))
    # two different classes with the same module and name but different special methods, proxied one after the other
    for first, second in (("shape-call", "shape-seq"), ("shape-seq", "shape-call")):
        fns = [dict(owner="B", body=[("call", 0, V(R_("A", 1)), [("a", 0)], []), ("call", 1, V(R_("A", 1)), [("a", 1)], []), ("ret", ("t", [("v", 0), ("v", 1)]))]),
               dict(owner="A", body=[("ret", ("a", 0))])]
        out.append(dict(fns=fns, data=["A:" + first, "A:" + second], entry=dict(callee=R_("B", 0), args=[R_("A", 2), R_("A", 3)], kwargs=[])))
    # exceptions that derive from BaseException only: reported to the requester like any other; `except Exception` lets
    # them pass, `except <class>` / `except BaseException` at an outer level on the other side catch them
    for cname in ("GeneratorExit", "CancelledError", "Boom"):
        fns = [dict(owner="A", body=[("try", [("call", 0, V(R_("B", 1)), [], [])], cname, [("ret", V("caught " + cname))])]),
               dict(owner="B", body=[("try", [("call", 0, V(R_("A", 2)), [V(1)], [])], None, [("ret", V("wrong: except Exception"))]), ("ret", V("wrong: not raised"))]),
               dict(owner="A", body=[("raise", cname, [("a", 0), V("x")])])]
        out.append(dict(fns=fns, data=[], entry=dict(callee=R_("A", 0), args=[], kwargs=[])))
        fns = [dict(owner="B", body=[("raise", cname, [])])]
        out.append(dict(fns=fns, data=[], entry=dict(callee=R_("B", 0), args=[], kwargs=[])))
    fns = [dict(owner="B", body=[("try", [("call", 0, V(R_("A", 1)), [], [])], "BaseException", [("call", 1, V(R_("A", 2)), [], []), ("ret", ("v", 1))])]),
           dict(owner="A", body=[("call", 0, V(R_("B", 3)), [], [])]),
           dict(owner="A", body=[("ret", V("after the catch"))]),
           dict(owner="B", body=[("raise", "Boom", [V((1, "b"))])])]
    out.append(dict(fns=fns, data=[], entry=dict(callee=R_("B", 0), args=[], kwargs=[])))
    # a reference being received must not be overtaken by its own release notice: the reply carries an object of a class
    # the requester has not seen (its proxy needs a HANDLE_INSPECT round trip) next to the requester's own object, whose
    # only proxy at the callee dies when the request ends; the same shapes as request arguments and in nested tuples
    fns = [dict(owner="B", body=[("ret", ("t", [V(R_("B", 1)), ("a", 0)]))])]
    out.append(dict(fns=fns, data=["B:tuple-subclass", "A:str-subclass"], entry=dict(callee=R_("B", 0), args=[R_("A", 2)], kwargs=[])))
    fns = [dict(owner="B", body=[("ret", ("t", [("t", [V(1), V(R_("B", 1))]), ("t", [("a", 0), ("t", [("k", "o"), V(R_("B", 2))])])]))])]
    out.append(dict(fns=fns, data=["B:namedtuple", "B:frozenset-subclass", "A:int-subclass", "A:enum"],
                    entry=dict(callee=R_("B", 0), args=[R_("A", 3)], kwargs=[("o", R_("A", 4))])))
    fns = [dict(owner="B", body=[("call", 0, ("a", 0), [V(R_("B", 2)), ("a", 1), ("t", [V(R_("B", 3)), ("a", 1)])], [("kw", ("a", 1))]), ("ret", ("v", 0))]),
           dict(owner="A", body=[("ret", ("t", [("a", 1), ("a", 0), ("a", 2), ("k", "kw")]))])]
    out.append(dict(fns=fns, data=["B:tuple-subclass", "B:bytes-subclass", "A:float-subclass"],
                    entry=dict(callee=R_("B", 0), args=[R_("A", 1), R_("A", 4)], kwargs=[])))
    # a function returned as a result and then called; a tuple of functions
    fns = [dict(owner="A", body=[("call", 0, V(R_("B", 1)), [], []), ("call", 1, ("v", 0), [V(1)], [("x", V(2))]), ("ret", ("t", [("v", 0), ("v", 1)]))]),
           dict(owner="B", body=[("ret", V(R_("B", 2)))]),
           dict(owner="B", body=[("ret", ("t", [("a", 0), ("k", "x"), V((R_("B", 1), R_("A", 0)))]))])]
    out.append(dict(fns=fns, data=[], entry=dict(callee=R_("A", 0), args=[], kwargs=[])))
    return out


# ---------------------------------------------------------------------------------------------- one case, three ways
class CaseResult(object):
    pass


CUSTOM_CLASS_NAMES = ("CancelledError", "Boom")


def raises_custom_class(prog):
    def in_block(b):
        for st in b:
            if st[0] == "raise" and st[1] in CUSTOM_CLASS_NAMES:
                return True
            if st[0] == "try" and (in_block(st[1]) or in_block(st[3])):
                return True
        return False
    return any(in_block(f["body"]) for f in prog["fns"])


def run_case(prog, custom_exceptions=True):
    """implementation runs of one program; None if it is over the invocation budget"""
    world = World(prog)
    try:
        lo, lc, lraw, lstats = run_local(world)
    except (Budget, RecursionError):
        return None
    res = CaseResult()
    res.world = world
    res.local = (lo, lc)
    res.local_raw = lraw
    try:
        do, dc, draw, dstats, info = run_dist(world, custom_exceptions)
    except (Budget, RecursionError):
        return None
    res.dist = (do, dc)
    res.obs_dist = list(world.obs)
    res.obs_local = list(world.obs_local)
    res.stats = dstats
    res.info = info
    # repr table for the model: the non-serializable exception arguments seen at the root (identical objects in
    # both runs: the closures and lists are shared, only the references differ)
    reprs = []
    from rpyc.core import brine
    world.dist = False
    for a in lraw:
        if not brine.dumpable(a):
            reprs.append((world.text(a), norm_arg(a)))
    res.reprs = reprs
    return res


def outside_observations():
    """measured every run, judged by nobody: what lies outside the statement as the model states it"""
    out = {}
    V = lambda v: ("c", v)
    # (1) the default configuration does not rebuild a user exception class: it arrives as a stand-in named after it,
    # which `except Boom` does not catch and `except Exception` does (C09's custom-class gate)
    fns = [dict(owner="A", body=[("try", [("call", 0, V(Ref("B", 1)), [], [])], "Boom", [("ret", V("except Boom fired"))])]),
           dict(owner="B", body=[("raise", "Boom", [V(1)])])]
    prog = dict(fns=fns, data=[], entry=dict(callee=Ref("A", 0), args=[], kwargs=[]))
    try:
        res = run_case(prog, custom_exceptions=False)
        out["Boom raised remotely under the default configuration (instantiate_custom_exceptions off), caller has `except Boom`"] = \
            "distributed: %s; one process: %s" % (res.dist[0][:80], res.local[0][:80])
    except Exception as ex:  # noqa
        out["default-configuration probe"] = "could not run: %s" % type(ex).__name__
    # (2) every remote hop costs interpreter frames on both sides: a ping-pong deep enough exhausts the recursion limit
    # in the distributed run long before the one-process run
    # (probed at the interpreter's DEFAULT recursion limit: the harness itself runs with a raised one)
    import sys as _sys
    saved_limit = _sys.getrecursionlimit()
    _sys.setrecursionlimit(1000)
    try:
        out.update(_ping_pong_depths(V, _sys))
    finally:
        _sys.setrecursionlimit(saved_limit)
    out.update(_outside_language_probes())
    return out


def _ping_pong_depths(V, _sys):
    out = {}
    for depth in (10, 25, 50, 100, 200, 350):
        fns = []
        for d in range(depth):
            fns.append(dict(owner="BA"[d % 2], body=[("call", 0, V(Ref("BA"[(d + 1) % 2], d + 1)), [], []), ("ret", ("v", 0))]))
        fns.append(dict(owner="BA"[depth % 2], body=[("ret", V(depth))]))
        world = World(dict(fns=fns, data=[], entry=dict(callee=Ref("B", 0), args=[], kwargs=[])))
        global MAX_INVOCATIONS
        saved, MAX_INVOCATIONS = MAX_INVOCATIONS, 10 ** 6
        try:
            try:
                lo = run_local(world)[0][:40]
            except RecursionError:
                lo = "RecursionError in the harness"
            try:
                do = run_dist(world)[0][:40]
            except RecursionError:
                do = "RecursionError in the harness"
        finally:
            MAX_INVOCATIONS = saved
        out["ping-pong of depth %d (recursion limit %d)" % (depth, _sys.getrecursionlimit())] = "distributed: %s; one process: %s" % (do, lo)
        if not do.startswith("ret"):
            break
    return out


def _outside_language_probes():
    """two behaviours of the real code that the call-tree language cannot express (see ASSUMPTIONS): measured, not judged"""
    out = {}
    try:
        import rpyc

        class Svc(rpyc.Service):
            def exposed_call(self, f, *a, **k):
                return f(*a, **k)

            def exposed_raiser(self, e):
                raise e
        cfg = dict(allow_public_attrs=True)
        conn = rpyc.connect_thread(remote_service=Svc, config=cfg, remote_config=cfg)
        try:
            class StrSub(str):
                pass

            def f(**kw):
                return sorted(kw)

            def brief(fn):
                try:
                    return "returns %r" % (fn(),)
                except BaseException as ex:  # noqa
                    return "raises %s" % type(ex).__name__
            out["a keyword whose NAME is an instance of a str subclass (outside the language: names are exact str)"] = \
                "through the connection: %s; locally: %s" % (brief(lambda: conn.root.call(f, **{StrSub("a"): 1})), brief(lambda: f(**{StrSub("a"): 1})))

            def raiser(e):
                raise e
            out["raising an exception OBJECT that was passed by reference (outside the language: `raise` builds the exception from a class name)"] = \
                "through the connection: %s; locally: %s" % (brief(lambda: conn.root.raiser(ValueError("v"))), brief(lambda: raiser(ValueError("v"))))
        finally:
            conn.close()
    except Exception as ex:  # noqa
        out["outside-the-language probes"] = "could not run: %s" % type(ex).__name__
    return out


def fmt(outcome, counts):
    return "%s | %s" % (outcome, " ".join(str(c) for c in counts))


def model_lines(prog, reprs):
    return [op_line(prog, "dist", reprs), op_line(prog, "loc", reprs)]


def parse_model(line):
    parts = line.split(" | ")
    if len(parts) < 2:
        return line
    return "%s | %s" % (canon_model_outcome(parts[0]), parts[1].strip())


def class_only(text):
    """outcome class: `ret`, `exc <Class>`, `stuck ..` and the counters"""
    o, _, c = text.partition(" | ")
    t = o.split()
    return "%s | %s" % (" ".join(t[:2]) if t and t[0] in ("exc", "stuck") else (t[0] if t else ""), c)


def classify(res):
    """signature of a failed case: the known race (a LOCAL_REF did not resolve: a release notice was dispatched by the
    nested serve() of a HANDLE_INSPECT round trip while the package referring to the object was being unboxed), or None"""
    return KNOWN_RELEASE_RACE if res is not None and res.info.get("unresolved_local_refs") else None


def oracle_case(prog, res=None):
    """the property on the real code alone: None if it holds for this program, else a description"""
    if outside_domain(prog):
        return None
    res = res or run_case(prog)
    if res is None:
        return None
    if res.info.get("thread_exceptions"):
        return "the serving side died: %s" % (res.info["thread_exceptions"][:1],)
    if res.dist[0] != res.local[0]:
        return "distributed run gives `%s`, the same program in one process gives `%s`" % (res.dist[0][:300], res.local[0][:300])
    if res.dist[1] != res.local[1]:
        return "invocation counts differ: distributed %s, one process %s" % (res.dist[1], res.local[1])
    if res.obs_dist != res.obs_local:
        for a, b in zip(res.obs_dist + [None] * len(res.obs_local), res.obs_local + [None] * len(res.obs_dist)):
            if a != b:
                show = lambda o: "nothing there (the value arrived as a plain immutable copy, or not at all)" if o is None else repr(o)
                return ("an argument / result that must travel by reference is seen differently - (where, class name, "
                        ".probe, which object): the distributed run observes %s, the one-process run observes %s" % (show(a), show(b)))
    return None


def signature_of(prog, res):
    st = res.stats
    b = lambda n: 0 if n == 0 else 1 if n < 3 else 2 if n < 8 else 3
    return "%s:%s:d%d:r%d:x%d:c%d" % (res.dist[0].split(" ")[0], res.dist[0].split(" ")[1][:14] if res.dist[0].startswith("exc") else "-",
                                       min(st["max_depth"], 9), b(st["remote_calls"]), b(st["raised"]), b(st["caught_remote"]))


def correspondence(ctx):
    c = Corr()
    c.rule = ("random call-tree programs (depth <= 8, fan-out <= 3 calls per block, each function on A or B, ~30% of "
              "functions raise, try/except at random levels, arguments from the C04 value generator incl. tuples mixing "
              "values and references, callables handed over and called back, keyword arguments with odd names) + a "
              "hand-written corpus (depth-8 ping-pong, raise at depth 5 caught at depth 1 across hops, StopIteration "
              "with/without args, non-callables, functions as results). Each program: real distributed run vs model "
              "evalDist, real one-process run vs model evalLocal (root result / exception class+args, every invocation "
              "counter), and distributed vs one-process on the real code (the oracle). Non-trivial: at least one remote "
              "call; distinct = (outcome kind, exception class, max depth, remote-call / raise / remote-catch buckets).")
    r = Rng(ctx.seed).fork("c01")
    n_rand = ctx.budget(900, 6000)
    deadline = time.time() + ctx.budget(45, 300)
    progs = list(boundary_programs())
    cases, lines = [], []
    made = 0
    while made < n_rand and time.time() < deadline:
        made += 1
        progs.append(ProgGen(r.fork("p%d" % made)).program())
        if len(progs) < 50 and made < n_rand:
            continue
        for prog in progs:
            default_exc = not raises_custom_class(prog) and len(cases) % 5 == 0
            res = run_case(prog, custom_exceptions=not default_exc)
            if res is None:
                c.count("skipped:over-invocation-budget")
                continue
            c.count("exception-configuration:%s" % ("default (built-in classes only)" if default_exc else "instantiate_custom_exceptions"))
            cases.append((prog, res))
            lines += model_lines(prog, res.reprs)
        progs = []
    for prog in progs:
        res = run_case(prog)
        if res is None:
            c.count("skipped:over-invocation-budget")
            continue
        cases.append((prog, res))
        lines += model_lines(prog, res.reprs)
    try:
        outs = run_driver(lines, exe="drv_calls")
    except DriverError as ex:
        c.error = str(ex)
        return c
    origin = dict(values=0, refs=0)
    import pipeline
    known_sigs = set(k.get("signature") for k in pipeline.load_known() if k.get("property") == ID and k.get("status") == "known")
    known_hits = collections.Counter()
    for i, (prog, res) in enumerate(cases):
        od = outside_domain(prog)
        if classify(res) in known_sigs:
            # the distributed run hit a listed known finding: nothing about this case is compared (the one-process
            # run still is, below)
            known_hits[classify(res)] += 1
            c.evaluations += 1
            if fmt(*res.local) != parse_model(outs[2 * i + 1]) and not od:
                c.disagreements.append(dict(case=prog_to_json(prog), mode="loc", impl=fmt(*res.local)[:600], model=parse_model(outs[2 * i + 1])[:600]))
            continue
        for mode, impl, got in (("dist", res.dist, outs[2 * i]), ("loc", res.local, outs[2 * i + 1])):
            c.evaluations += 1
            want = fmt(*impl)
            model = parse_model(got)
            if od:
                c.count("outside-domain(over-limit int):" + mode)
                if model.startswith("stuck"):
                    continue
                want, model = class_only(want), class_only(model)
            if want != model:
                c.disagreements.append(dict(case=prog_to_json(prog), mode=mode, impl=want[:600], model=model[:600]))
        msg = oracle_case(prog, res)
        if msg:
            c.disagreements.append(dict(case=prog_to_json(prog), mode="oracle", impl=msg[:600], model="(distributed == one process)"))
        if not res.info.get("usable") and not od:
            c.disagreements.append(dict(case=prog_to_json(prog), mode="dist", impl="the connection is not usable after the computation", model="-"))
        if res.info.get("thread_exceptions") and not od:
            c.disagreements.append(dict(case=prog_to_json(prog), mode="dist", impl="serving thread died: %r" % (res.info["thread_exceptions"][:1],), model="-"))
        st = res.stats
        c.count("outcome:" + res.dist[0].split(" ")[0])
        if res.dist[0].startswith("exc"):
            c.count("root-exception:" + res.dist[0].split(" ")[1])
        c.count("functions:%d" % min(len(prog["fns"]), 20) if len(prog["fns"]) < 5 else "functions:%d+" % (len(prog["fns"]) // 5 * 5))
        c.count("max-depth:%d" % st["max_depth"])
        c.count("remote-calls:%s" % ("0" if st["remote_calls"] == 0 else "1-2" if st["remote_calls"] < 3 else "3-9" if st["remote_calls"] < 10 else "10+"))
        c.count("raises-executed", st["raised"])
        c.count("exceptions-caught", st["caught"])
        c.count("exceptions-caught-after-crossing-the-connection", st["caught_remote"])
        c.count("frames", res.info.get("frames", 0))
        c.count("invocations", sum(res.dist[1]))
        for (_where, cls, _probe, _ref, _size, _called) in res.obs_local:
            c.count("by-reference object observed at a callee / the root (real code only):" + cls)
        if st["remote_calls"] > 0:
            c.signatures.add(signature_of(prog, res))
        if len(c.samples) < 10 and i % 97 == 5:
            c.samples.append(dict(functions=len(prog["fns"]), owners="".join(f["owner"] for f in prog["fns"]),
                                  outcome=fmt(*res.dist)[:200], remote_calls=st["remote_calls"], max_depth=st["max_depth"]))
    c.extra["programs"] = len(cases)
    c.extra["observations_outside_the_property"] = outside_observations()
    c.extra["known_finding_hits"] = dict(known_hits)
    c.extra["by_reference_observation"] = (
        "arguments / results that are not exact instances of brine's types (namedtuple, tuple/str/int/bytes/float/"
        "frozenset subclass instances, enum members, lists, dicts) are `ref` in the Lean model; what a callee can see of "
        "them - class name, the attribute `probe`, which object it is - is compared between the real distributed run "
        "and the real one-process run only (part of the oracle)")
    c.exhaustive = False
    return c


# ---------------------------------------------------------------------------------------------- search / replay
def shrink(prog, still_fails):
    """greedy: drop statements, arguments and keyword arguments while the oracle still fails"""
    prog = prog_from_json(prog_to_json(prog))
    changed = True
    rounds = 0
    while changed and rounds < 6:
        changed = False
        rounds += 1
        for f in prog["fns"]:
            blocks = [f["body"]]
            while blocks:
                b = blocks.pop()
                i = 0
                while i < len(b):
                    s = b[i]
                    trial = b[:i] + b[i + 1:]
                    saved = list(b)
                    b[:] = trial
                    if still_fails(prog):
                        changed = True
                        continue
                    b[:] = saved
                    if s[0] == "try":
                        blocks.append(s[1])
                        blocks.append(s[3])
                    elif s[0] == "call":
                        for j in range(len(s[3]) - 1, -1, -1):
                            a = s[3].pop(j)
                            if still_fails(prog):
                                changed = True
                            else:
                                s[3].insert(j, a)
                        for j in range(len(s[4]) - 1, -1, -1):
                            a = s[4].pop(j)
                            if still_fails(prog):
                                changed = True
                            else:
                                s[4].insert(j, a)
                    i += 1
    return prog


def oracle_search(ctx, corr, broken):
    deadline = time.time() + ctx.budget(60, 600)
    r = Rng(ctx.seed).fork("c01-search")

    def candidates():
        seen_cases = [d["case"] for d in corr.disagreements[:300] if isinstance(d.get("case"), dict) and "fns" in d["case"]]
        for cs in sorted(seen_cases, key=lambda cs_: len(json.dumps(cs_)))[:100]:      # smallest programs first
            yield prog_from_json(cs)
        for p in boundary_programs():
            yield p
        k = 0
        while time.time() < deadline:
            k += 1
            yield ProgGen(r.fork("s%d" % k)).program()

    for prog in candidates():
        try:
            msg = oracle_case(prog)
        except Exception as ex:  # noqa
            msg = "harness could not run the program: %r" % (ex,)
            continue
        if msg:
            def still(p):
                try:
                    return oracle_case(p) is not None
                except Exception:  # noqa
                    return False
            sig0 = classify(run_case(prog))
            if sig0 in getattr(ctx, "known_signatures", ()):
                continue

            def still(p, sig0=sig0):      # shrink within the same kind of failure
                try:
                    r_ = run_case(p)
                    return r_ is not None and oracle_case(p, r_) is not None and classify(r_) == sig0
                except Exception:  # noqa
                    return False
            small = shrink(prog, still)
            msg2 = oracle_case(small) or msg
            sig = sig0 or ("calls:" + ("counts" if "counts differ" in msg2 else "by-reference" if "by reference" in msg2 else "result"))
            if sig in getattr(ctx, "known_signatures", ()):
                continue
            return dict(kind="history", program=prog_to_json(small)), msg2, sig
    return None


def known_probes(ctx):
    """defects of the code the check knows by signature, probed directly on the real code every run"""
    try:
        import rpyc
        from simnet import Net

        class Fresh(object):
            pass

        class Thing(object):
            pass

        class S(rpyc.Service):
            def exposed_f(self, x):
                return (Fresh(), x)
        net = Net()
        with net.installed():
            ca, cb = net.connect_pair(None, S())
            t = Thing()
            try:
                r = ca.root.f(t)
                seen = "returned (proxy, the object)" if r[1] is t else "returned something else"
                reproduces = r[1] is not t
            except KeyError as ex:
                seen, reproduces = "raised KeyError(%s)" % (str(ex)[:60],), True
            except Exception as ex:  # noqa
                seen, reproduces = "raised %s" % type(ex).__name__, False
            net.shutdown([ca])
    except Exception:  # noqa
        return []
    return [(KNOWN_RELEASE_RACE, reproduces,
             "`def f(x): return (Fresh(), x)` called with the caller's own object %s: while the reply is unboxed the proxy of "
             "the unknown class needs a HANDLE_INSPECT round trip whose nested serve() dispatches the release notice of x "
             "(B's proxy of x died when the request ended) before the LOCAL_REF(x) of the same reply is resolved" % seen)]


def replay(case):
    prog = prog_from_json(case["program"])
    res = run_case(prog)
    out = dict(case=case)
    if res is None:
        out["implementation"] = "over the invocation budget"
        return out
    out["implementation_distributed"] = fmt(*res.dist)
    out["implementation_one_process"] = fmt(*res.local)
    out["oracle"] = oracle_case(prog, res) or "holds"
    try:
        outs = run_driver(model_lines(prog, res.reprs), exe="drv_calls")
        out["model_evalDist"] = parse_model(outs[0])
        out["model_evalLocal"] = parse_model(outs[1])
    except DriverError as ex:
        out["model"] = "driver: %s" % ex
    return out
