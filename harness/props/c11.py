"""C11 — every way a connection can end leaves both sides clean, once, nobody hanging.

Correspondence: workloads on two REAL Connections over the deterministic network (harness/simnet.py) with a
fault injected at EVERY individual transport call of the fault-free run (k-th read / write / poll of either
side; flavour `err` = the stream meets an I/O error: closes itself and raises EOFError; flavour `eof` = the
peer's end vanishes: end-of-stream at the next read, failure at the next write) and, for every packet
header read, at byte offsets inside the packet (the inbox is cut there and the peer vanishes: EOF in the
header or in the body).  Workloads: synchronous calls; asynchronous calls; nested callbacks; references in
both directions; asynchronous requests still pending at close; close from inside a callback (returning a
value / a reference); the peer closes from inside its handler; the two sides' close() in both orders and
at once (also from a second thread while the other thread is blocked in serve); close() with a
`before_closed` hook that returns / raises (close_catchall off and on) / has to fetch the root; the same on a
TCP-like transport that accepts a write after the peer has closed (the peer's HANDLE_CLOSE is then served
INSIDE close()).  A further small family runs over REAL
transports (PipeStream.create_pair, SocketStream over socket.socketpair; real threads, observations with ceilings): the peer's
end going away without HANDLE_CLOSE while this side is in wait() / in serve_all() / holds a callback object for the peer, and
the orderly close as control — what `Stream.poll` and the real streams do at end-of-stream is invisible on the in-memory
network.  After each run: every pending result is waited for, a request by value and one with a
by-reference argument are issued, close() is called again, on both sides.

An abstraction function maps what the transport saw (harness/protonet.py), what the harness called
(close / request / wait) and what the hooks logged to the events of the lifecycle automaton
`Rpyc.Proto.Life` (lean/RpycModel/Proto/Life.lean), one event sequence per side; the model then PREDICTS,
at the end of the workload and at the very end: `closed`, the number of disconnect-hook runs, whether the
tables (`_local_objects`, `_proxy_cache`, `_request_callbacks`) are empty, the outcome of every request
(value / EOFError / timeout), what close() raised; these are compared with the real run, as is the
network's deadlock detector.

Direct oracle (real code only): both sides closed when the statement says so, hook <= 1 and = 1 when closed,
tables empty when closed, second close a no-op, every request resolved with a value the peer sent, EOFError
or its timeout — never hanging.
"""
import gc
import re
import time

import rpyc
from rpyc.core import consts
from rpyc.core.channel import Channel

import protonet
from lineproto import run_driver, DriverError
from pipeline import Corr
from prng import Rng
from rpyc.lib import Timeout

from simnet import Net, MemStream, Deadlock

ID = "C11"
LEAN_MODULE = "RpycModel.Props.C11"
NAMESPACE = "Rpyc.Props.C11"
GEN = ["Proto.lean"]
DRIVERS = ["drv_proto"]
TRUSTED = [
    "the abstraction function of the harness (transport calls + API calls + hook log -> automaton events) in "
    "props/c11.py; the deterministic network and its fault flavours (harness/simnet.py, TcpLikeStream here)",
    "modelled, not verified: a stream that meets EOF or an I/O error closes itself and raises EOFError "
    "(rpyc/core/stream.py: SocketStream/PipeStream read/write; exercised, not modelled, by the real-transport runs); "
    "rpyc/lib/compat.py PollingPoll mask handling (decides whether end-of-stream is noticed at all) likewise",
    "five facts about the code are measured by harness/gen_proto.py on the live classes and enter the model as "
    "generated constants with named proof obligations (restated in the audited namespace as obligation_*): "
    "cleanup_idempotent, cleanup_survives_channel_close_error (all three tables; raising hook; raising before_closed), "
    "dispatch_closes_on_eof, box_refuses_on_closed_channel, cleanup_fails_pending (and C08's decode_guarded); the shapes of "
    "close/_cleanup/serve are otherwise tied to the source by the behavioural correspondence only; the harness wraps "
    "Connection._dispatch during a run (observation only) to know which writes happen inside the delivery of a response",
    "two threads racing close() against a received close: covered as the orders of the events (sequential automaton); "
    "inside close() the flag is set before the hook runs — a second thread or the before_closed callback can "
    "observe `closed` with the hook not yet run; claims are made at API-call boundaries",
]
ASSUMPTIONS = [
    "'reports closed' is read at API-call boundaries (after the closing call has returned)",
    "an I/O failure surfaces as the stream's EOFError (what rpyc's own streams do for read and write). poll() is "
    "different: Stream.poll may raise select.error/OSError; that ends serve_all through its finally (side closed, "
    "exercised), but inside a client's wait loop it neither closes the side nor turns into EOFError — the waiter "
    "gets the OSError and the connection is still open: such a poll failure is NOT an end of the connection and is "
    "outside the claim although the quantifier names poll",
    "a user hook (before_closed, on_disconnect) that raises, or a stream whose own close() raises: the side is clean "
    "all the same, but the request that was blocked when the end was met fails with THAT exception instead of "
    "EOFError (it replaces EOFError inside serve()'s handler); only 'never a value, never hanging' is claimed there",
    "a failure while a REQUEST is being sent from the application's own call is not 'while serving': the requester gets "
    "EOFError and the side is closed by its next serve()/close(), not by the failed send (an `example` in Props/C11.lean "
    "shows the state). A request written from INSIDE the delivery of a response (the class inspection of a first "
    "reference in _unbox, a result callback) IS inside serve(): its failure closes the side "
    "(fail_send_nested_leads_to_closed, obligation_dispatch_closes_on_eof)",
]
EXPLANATION = ("Theorems over ALL finite event sequences of the lifecycle automaton of one side (local close in two "
               "steps so that anything can happen inside before_closed, close received, EOF/error while receiving, "
               "failure sending a request at top level / nested in a response's delivery / a reply, serve_all ending, "
               "requests issued / waited / answered / timing out, close again; for sides whose disconnect hook and/or "
               "whose stream's close() raise) and of the PAIR of two such sides joined by the channel: hook at most once; "
               "closed (outside a close() call) implies hook exactly once, tables cleared and nothing added since, "
               "channel closed; close again changes nothing (definitional: restates `if self._closed: return`); each of "
               "local close, received close, EOF while serving, failure while replying, failure of a request nested in a "
               "delivery, serve_all ending leads to closed; the ends met INSIDE serve() release every blocked waiter at "
               "once WITHOUT A VALUE (EOFError, or what close() raised in its place when a user hook or the stream's "
               "close() raises), while after a local close a waiter that is still blocked is released by its next "
               "serve() (blocked_waiter_next_serve_releases); no requester is ever given a value the peer did not write "
               "(two-sided: value_was_written_by_peer); after the end no event gives a value or blocks anybody, pending "
               "and new requests fail at once; on the pair, a closed side ends its peer within (frames in flight + 1) "
               "serve() calls (assuming the channel law: poll() wakes at end-of-stream). On a side that reports closed "
               "every result is ready: a request still pending was completed with EOFError by _cleanup (ready, error, "
               "callbacks run: pending_results_ready_after_end, obligation_cleanup_fails_pending measured; "
               "unrepaired_pending_never_ready is the code before the repair); a result whose own timeout had passed "
               "stays 'expired' by AsyncResult's own rule (not modelled).")

VAL_REF, VAL_EXC, VAL_OTHER = 1, 2, 3


class LStream(MemStream):
    """MemStream + `gone`: the remote end has vanished as seen from THIS end (end-of-stream once the buffered
    bytes are consumed, failure at the next write); the other end only notices when this end closes."""
    gone = False
    accepts_write_after_peer_close = False

    def write(self, data):
        self._hook("write", data)
        if self._closed or self.gone or (self.peer._closed and not self.accepts_write_after_peer_close):
            LStream.close(self)
            raise EOFError("stream closed")
        self.peer.inbox += data
        self.net.record(self.name, bytes(data))

    def read(self, count):
        self._hook("read", count)
        while len(self.inbox) < count:
            if self._closed:
                raise EOFError("stream has been closed")
            if self.peer._closed or self.gone:
                LStream.close(self)
                raise EOFError("connection closed by peer")
            self.net.block(self.name, None, want=count)
        data = bytes(self.inbox[:count])
        del self.inbox[:count]
        return data

    def poll(self, timeout):
        self._hook("poll", timeout)
        if self._closed:
            raise EOFError("stream has been closed")
        t = Timeout(timeout)
        if self.inbox or self.peer._closed or self.gone:
            return True
        if t.finite and t.expired():
            return False
        self.net.block(self.name, t.tmax if t.finite else None, want=1)
        if self._closed:
            raise EOFError("stream has been closed")
        return bool(self.inbox) or self.peer._closed or self.gone


class StreamCloseError(OSError):
    pass


class BadCloseStream(LStream):
    """a stream whose own close() raises, once (an unguarded sock.close() / tun.close() / incoming.close() failing)"""
    close_raised = False

    def close(self):
        LStream.close(self)
        if not self.close_raised:
            self.close_raised = True
            raise StreamCloseError(5, "close failed")


class TcpLikeStream(LStream):
    """a write after the peer has closed is accepted (buffered), like TCP before the reset arrives"""
    accepts_write_after_peer_close = True


class LNet(Net):
    def __init__(self, tcp_like=False, bad_close=()):
        Net.__init__(self)
        self.tcp_like = tcp_like
        self.bad_close = tuple(bad_close)

    def stream_pair(self, a="A", b="B"):
        cls = TcpLikeStream if self.tcp_like else LStream
        sa = (BadCloseStream if a in self.bad_close else cls)(self, a)
        sb = (BadCloseStream if b in self.bad_close else cls)(self, b)
        sa.peer, sb.peer = sb, sa
        self.streams[a], self.streams[b] = sa, sb
        return sa, sb

    def run_others(self, side="A"):
        """hand the baton to another side that has work, until everybody else is blocked again; False if nobody
        had work.  (Net.yield_to_others prefers `side` itself once its own stream is closed.)"""
        with self.cv:
            others = sorted(s for s in self.waiting if s != side and self._has_work(s))
            if not others:
                return False
            self.waiting[side] = (self.clock.now, 0)
            nxt = others[0]
            del self.waiting[nxt]
            self.running = nxt
            self.cv.notify_all()
            while self.running != side:
                if self.deadlocked:
                    self.waiting.pop(side, None)
                    raise Deadlock("deadlock")
                self.cv.wait()
        return True


class HookError(Exception):
    pass


class DisconnectBoom(Exception):
    """what a user's on_disconnect hook raises in the raising-hook workloads"""


class Svc(rpyc.Service):
    def __init__(self, h, side):
        self.h = h
        self.side = side

    def on_disconnect(self, conn):
        self.h.hooks[self.side] += 1
        if self.h.hook_raises.get(self.side):
            raise DisconnectBoom("on_disconnect")

    def exposed_echo(self, x):
        self.h.finish(self.side, ref=type(x) is not int)
        return x

    def exposed_mklist(self, n):
        obj = [n]
        self.h.keep.append(obj)
        self.h.finish(self.side, ref=True)
        return obj

    def exposed_call_back(self, f, n):
        r = self.h.request(self.side, "s", f, (n,))
        self.h.finish(self.side, ref=False)
        return (r if type(r) is int else 0) + 1

    def exposed_nest(self, peer_nest, depth):
        """mutual recursion: each level passes its own bound method by reference"""
        if depth > 0:
            mine = self.exposed_nest
            self.h.request(self.side, "s", peer_nest, (mine, depth - 1), ref=True)
        self.h.finish(self.side, ref=False)
        return 40 + depth

    def exposed_use(self, lst):
        lst.append(1)                      # requests rpyc issues itself, towards the owner of `lst`
        n = len(lst)
        self.h.finish(self.side, ref=False)
        return 60 + n

    def exposed_slow(self, dt):
        import rpyc.lib
        rpyc.lib.time.sleep(dt)            # virtual time: the caller's own timeout passes first
        self.h.finish(self.side, ref=False)
        return 55

    def exposed_close_self(self, ret_ref):
        self.h.close(self.side)
        self.h.finish(self.side, ref=bool(ret_ref))
        if ret_ref:
            obj = [7]
            self.h.keep.append(obj)
            return obj
        return 77


def table_sizes(conn):
    """(local objects, proxy cache, request callbacks) of a connection; None only when there is NO connection (a failed
    handshake).  A table that cannot be read is an infrastructure problem (exit 2) - never a silently skipped check."""
    if conn is None:
        return None
    out = []
    for name in ("_local_objects", "_proxy_cache", "_request_callbacks"):
        try:
            coll = getattr(conn, name)
            if coll is None:
                out.append(0)           # the table itself was dropped: nothing is held
                continue
            out.append(len(getattr(coll, "_dict", coll)))
        except Exception as ex:  # noqa
            raise Infrastructure("cannot read Connection.%s (the released check would be off): %r" % (name, ex))
    return tuple(out)


def annotate_nesting(events):
    """every write event gets `nested` = the kind of the message whose _dispatch it happens inside (None: not inside one)"""
    stack = {"A": [], "B": []}
    for e in events:
        sd = e.get("side")
        if sd not in stack:
            continue
        if e["t"] == "dispatch_enter":
            stack[sd].append(e.get("msg"))
        elif e["t"] == "dispatch_exit":
            if stack[sd]:
                stack[sd].pop()
        elif e["t"] == "write":
            e["nested"] = stack[sd][-1] if stack[sd] else None


class Harness(object):
    """one run of one workload with at most one injected fault"""
    def __init__(self, workload, fault=None):
        self.workload = workload
        self.fault = fault                  # None | dict(k=call index, how="err"|"eof"|"cut", at=offset)
        self.hooks = {"A": 0, "B": 0}
        self.keep = []
        self.asyncs = {}                    # label -> (side, AsyncResult)
        self.ended = {}                     # label -> how many times its callback was told "the connection ended"
        self.outcomes = {}                  # label -> [text]
        self.close_results = {"A": [], "B": []}
        self.labels = 0
        self.notes = []
        self.snap = {}
        self.fired = None
        self.fired2 = None
        self.hang = False
        w = WORKLOADS[workload]
        self.handshake_ok = {"A": False, "B": False}
        self.hook_raises = {"A": bool(w.get("hook_raises_a")), "B": bool(w.get("hook_raises_b"))}
        self.chan_close_raises = {"A": bool(w.get("bad_close_a")), "B": bool(w.get("bad_close_b"))}
        self.classic = bool(w.get("classic"))

    # ------------------------------------------------------------------ logging helpers used by services / workloads
    def finish(self, side, ref):
        self.rec.log(t="finish", side=side, ref=ref)

    def label(self, side):
        self.labels += 1
        return "%s%d" % (side.lower(), self.labels)

    @staticmethod
    def val_of(res):
        if type(res) is int:
            return res
        if hasattr(res, "____id_pack__"):
            return VAL_REF
        return VAL_OTHER

    def classify(self, ex):
        if isinstance(ex, Deadlock):
            self.hang = True
            return "hang"
        if isinstance(ex, EOFError):
            return "eof"
        if type(ex).__name__ in ("AsyncResultTimeout", "TimeoutError"):
            return "timeout"
        if isinstance(ex, (HookError, DisconnectBoom, StreamCloseError)):
            return "closeexc"        # what close() raised in place of EOFError: a user hook's own exception
        if hasattr(ex, "_remote_tb"):
            return "v%d" % VAL_EXC
        return "other:" + type(ex).__name__

    def request(self, side, kind, fn, args, ref=False):
        """a harness-visible request of `side`; returns the value for sync requests (None on failure)"""
        label = self.label(side)
        stream = self.net.streams[side]
        self.rec.log(t="api_req", side=side, label=label, kind=kind, ref=ref, own_closed=stream.closed)
        self.rec.expect(side, label=label, kind=kind, ref=ref)
        res = None
        try:
            if kind == "s":
                res = fn(*args)
                self.outcomes.setdefault(label, []).append("v%d" % self.val_of(res))
            else:
                ar = rpyc.async_(fn)(*args)
                self.asyncs[label] = (side, ar)
                ar.add_callback(lambda r, label=label: self.delivered(label, r))
        except BaseException as ex:  # noqa
            out = self.classify(ex)
            self.outcomes.setdefault(label, []).append(out)
            if out == "timeout":
                self.rec.log(t="api_timeout", side=side, label=label)
            res = None
        finally:
            if self.rec.intent.get(side, {}).get("label") == label:
                self.rec.intent.pop(side, None)
            self.api_ret(side, "request")
        return res

    def api_ret(self, side, what):
        """control is back in the application on `side`: what an observer of the API sees now"""
        conn = self.conn[side]
        if conn is None:
            return
        self.rec.log(t="api_ret", side=side, what=what, closed=bool(conn.closed), hooks=self.hooks[side])

    def delivered(self, label, ar):
        """callback of an asynchronous result: its response has been dispatched - or (the repaired `_cleanup`) the
        connection has ended and the result was completed with EOFError: that is recorded apart (`ended`), it is not
        something the requester was GIVEN on asking (wait / value), which is what `outcomes` holds"""
        try:
            v = ar.value
            self.outcomes.setdefault(label, []).append("v%d" % self.val_of(v))
        except BaseException as ex:  # noqa
            side = self.asyncs[label][0] if label in self.asyncs else None
            conn = self.conn.get(side) if side else None
            if isinstance(ex, EOFError) and conn is not None and conn.closed and not hasattr(ex, "_remote_tb"):
                self.ended[label] = self.ended.get(label, 0) + 1
                return
            self.outcomes.setdefault(label, []).append(self.classify(ex))

    def raw_request(self, side, handler, *args):
        """conn.sync_request through the public API (no proxy involved)"""
        label = self.label(side)
        stream = self.net.streams[side]
        self.rec.log(t="api_req", side=side, label=label, kind="s", ref=False, own_closed=stream.closed)
        self.rec.expect(side, label=label, kind="s", ref=False)
        try:
            res = self.conn[side].sync_request(handler, *args)
            self.outcomes.setdefault(label, []).append("v%d" % self.val_of(res))
            return res
        except BaseException as ex:  # noqa
            out = self.classify(ex)
            self.outcomes.setdefault(label, []).append(out)
            if out == "timeout":
                self.rec.log(t="api_timeout", side=side, label=label)
        finally:
            if self.rec.intent.get(side, {}).get("label") == label:
                self.rec.intent.pop(side, None)
            self.api_ret(side, "request")
        return None

    def wait(self, label):
        side, ar = self.asyncs[label]
        if label in self.outcomes:
            return
        stream = self.net.streams[side]
        try:
            expired = bool(ar.expired)          # its own timeout has passed already: wait() will not serve at all
        except Exception:  # noqa
            expired = False
        self.rec.log(t="api_wait", side=side, label=label, own_closed=stream.closed, expired=expired,
                     ready_before=bool(getattr(ar, "_is_ready", False)))
        try:
            ar.wait()
            if label not in self.outcomes:
                v = ar.value
                self.outcomes.setdefault(label, []).append("v%d" % self.val_of(v))
        except BaseException as ex:  # noqa
            out = self.classify(ex)
            self.outcomes.setdefault(label, []).append(out)
            if out == "timeout" and not expired:
                self.rec.log(t="api_timeout", side=side, label=label)
        self.api_ret(side, "wait")

    def close(self, side):
        conn = self.conn[side]
        was = conn.closed
        self.rec.log(t="api_close_begin", side=side, was_closed=was)
        raised = None
        try:
            conn.close()
        except BaseException as ex:  # noqa
            raised = type(ex).__name__
        if not was:
            self.rec.log(t="api_close_end", side=side, raised=raised)
        self.close_results[side].append(raised)
        self.api_ret(side, "close")

    def before_closed(self, side, mode):
        def hook(root):
            self.rec.log(t="hook_called", side=side, raises=mode in ("raise", "raise_catchall"),
                         catchall=mode == "raise_catchall")
            if mode in ("raise", "raise_catchall"):
                raise HookError("before_closed")
        return hook

    # ------------------------------------------------------------------ fault injection
    def injector(self, info):
        f = self.fault
        if f is None:
            return
        if self.fired is not None:
            # a second fault, `after` transport calls later (fault sequences)
            f2 = f.get("then")
            if f2 is None or self.fired2 is not None or info["k"] != self.fired["k"] + f2["after"]:
                return
            self.fired2 = dict(op=info["op"], side=info["side"], k=info["k"])
            f = f2
        else:
            if info["k"] != f["k"]:
                return
            self.fired = dict(op=info["op"], side=info["side"], k=info["k"])
        if f["how"] == "oserr" and info["op"] != "poll":
            return
        stream = info["stream"]
        ent = info.get("entry")
        if f["how"] == "oserr":
            # poll() itself fails with something that is not EOFError (select.error); the stream stays as it is
            if ent is not None:
                ent["oserr"] = True
            raise OSError("injected select error")
        if f["how"] == "err":
            # the stream meets an I/O error: it closes itself and raises EOFError (rpyc/core/stream.py)
            if ent is not None:
                ent["faulted"] = True
                ent["ok"] = False
                ent["eof"] = True
            LStream.close(stream)
            raise EOFError("injected I/O error")
        if f["how"] == "cut" and info["op"] == "read" and info.get("header"):
            del stream.inbox[f["at"]:]
        # the peer's end vanishes, as seen from this end
        stream.gone = True
        if ent is not None:
            ent["peer_vanished"] = True
            if info["op"] == "write":
                ent["ok"] = False
            elif info["op"] == "read":
                if info.get("header"):
                    ent["eof"] = len(stream.inbox) < protonet.HEADER
                    if f["how"] == "cut" and (ent.get("flen") is None or len(stream.inbox) < ent["flen"]):
                        # (the packet really is truncated; a cut beyond its end leaves it whole and only ends the stream after it)
                        ent["cut"] = f["at"]
                        ent.pop("msg", None)
                else:
                    ent["eof"] = len(stream.inbox) < info["arg"]

    # ------------------------------------------------------------------ the run
    def execute(self):
        w = WORKLOADS[self.workload]
        self.net = net = LNet(tcp_like=w.get("tcp_like", False),
                              bad_close=[sd for sd in "AB" if self.chan_close_raises[sd]])
        old_gc = gc.isenabled()
        gc.disable()
        try:
            with net.installed():
                sa, sb = Svc(self, "A"), Svc(self, "B")
                self.svc = {"A": sa, "B": sb}
                stra, strb = net.stream_pair("A", "B")
                self.rec = rec = protonet.Recorder(net)
                rec.injector = self.injector
                # observation only: which transport calls happen inside Connection._dispatch, and of which kind of message
                # (a request written while a RESPONSE is being delivered -- the INSPECT round trip of _unbox, a callback --
                # is nested in serve(); one written after serve() returned is not)
                proto_cls = rpyc.core.protocol.Connection
                orig_dispatch = proto_cls.__dict__["_dispatch"]
                h = self

                def observed_dispatch(conn, data):
                    sd = None
                    for k in "AB":
                        if h.conn.get(k) is conn or getattr(getattr(conn, "_channel", None), "stream", None) is net.streams.get(k):
                            sd = k
                    if sd is None or not rec.enabled:
                        return orig_dispatch(conn, data)
                    rec.log(t="dispatch_enter", side=sd, msg=protonet.peek_msg_seq(bytes(data))[0])
                    try:
                        return orig_dispatch(conn, data)
                    finally:
                        rec.log(t="dispatch_exit", side=sd)
                proto_cls._dispatch = observed_dispatch
                self._restore_dispatch = lambda: setattr(proto_cls, "_dispatch", orig_dispatch)
                self.conn = {}
                cfg = {"A": {"sync_request_timeout": 30}, "B": {"sync_request_timeout": 30}}
                for side in "AB":
                    mode = w.get("before_closed_" + side.lower())
                    if mode:
                        cfg[side]["before_closed"] = self.before_closed(side, mode)
                        cfg[side]["close_catchall"] = mode == "raise_catchall"
                if self.classic:
                    # both sides are classic (MasterService + SlaveService): on_connect() fetches the peer's root, so
                    # the handshake itself is a request of each side and part of what the faults hit
                    sa, sb = self.classic_service("A"), self.classic_service("B")
                    self.svc = {"A": sa, "B": sb}
                    self.conn = {"A": None, "B": None}

                    def b_main():
                        served = False
                        try:
                            self.conn["B"] = self.handshake("B", sb, strb, cfg["B"])
                            if self.handshake_ok["B"]:
                                served = True
                                rec.log(t="serve_all_enter", side="B")
                                self.conn["B"].serve_all()
                        finally:
                            if served:
                                rec.log(t="serve_all_exit", side="B")
                    net.spawn("B", b_main)
                    self.conn["A"] = self.handshake("A", sa, stra, cfg["A"])
                    self.ca, self.cb = self.conn["A"], None
                else:
                    self.ca = ca = sa._connect(Channel(stra, False), cfg["A"])
                    self.cb = cb = sb._connect(Channel(strb, False), cfg["B"])
                    self.conn = {"A": ca, "B": cb}

                    def b_main():
                        try:
                            rec.log(t="serve_all_enter", side="B")
                            cb.serve_all()
                        finally:
                            rec.log(t="serve_all_exit", side="B")
                    net.spawn("B", b_main)
                try:
                    w["run"](self)
                except Deadlock:
                    self.hang = True
                except BaseException as ex:  # noqa
                    self.notes.append("workload: %s %s" % (type(ex).__name__, str(ex)[:60]))
                self.settle()
                self.snapshot(1)
                try:
                    self.afterwards()
                except Deadlock:
                    self.hang = True
                except BaseException as ex:  # noqa
                    self.notes.append("afterwards: %s %s" % (type(ex).__name__, str(ex)[:60]))
                self.settle()
                self.snapshot(2)
                self.thread_exc = [t for t in net.trace if t[0] == "thread-exception"]
                rec.enabled = False
                self.asyncs_done = True
                self.b = None
                net.shutdown()
        finally:
            if getattr(self, "_restore_dispatch", None):
                self._restore_dispatch()
            if old_gc:
                gc.enable()
        annotate_nesting(self.rec.events)
        return self

    def classic_service(self, side):
        h = self

        class CountingClassic(rpyc.ClassicService):
            def on_disconnect(self, conn):
                h.hooks[side] += 1
                super(CountingClassic, self).on_disconnect(conn)
        return CountingClassic()

    def handshake(self, side, svc, stream, cfg):
        """svc._connect(): on_connect() of a classic service performs the GETROOT round trip; its outcome is request
        `<side>0` (the first request of that side)"""
        label = side.lower() + "0"
        self.rec.log(t="handshake_begin", side=side)
        try:
            conn = svc._connect(Channel(stream, False), cfg)
            self.handshake_ok[side] = True
        except BaseException as ex:  # noqa
            # on_connect() makes several requests (GETROOT, then attribute fetches on the root); the one that failed is the
            # last one this side wrote
            self.outcomes[label] = [self.classify(ex)]
            conn = getattr(svc, "_conn", None)
        self.rec.log(t="handshake_end", side=side)
        if conn is not None:
            self.conn[side] = conn
            self.api_ret(side, "request")
        return conn

    def settle(self):
        """let side B run until it blocks or ends"""
        net = self.net
        for _ in range(50):
            try:
                if net.run_others("A"):
                    continue
                # nobody has work: if another side waits for the (virtual) clock, let that time pass
                with net.cv:
                    dl = [d for s, (d, _w) in net.waiting.items() if s != "A" and d is not None]
                if not dl:
                    return
                net.clock.sleep(max(dl) - net.clock.now + 0.001)
            except Deadlock:
                self.hang = True
                return

    def b_finished(self):
        return "B" in self.net.finished

    def afterwards(self):
        if self.conn["A"] is None:
            return
        # every result that is still pending is waited for
        for label in list(self.asyncs):
            self.wait(label)
        # requests issued afterwards: by value, and with an argument passed by reference
        b = getattr(self, "b", None)
        if b is not None:
            self.request("A", "s", b["echo"], (81,))
            self.request("A", "s", b["echo"], ([1, 2],), ref=True)
        self.raw_request("A", consts.HANDLE_PING, 82)
        # close (if the workload has not), and close again
        self.close("A")
        self.close("A")
        self.settle()
        if self.b_finished() and self.conn["B"] is not None:
            # side B's thread has ended: its API can be used from here
            self.raw_request("B", consts.HANDLE_PING, 83)
            self.close("B")
            self.close("B")

    def snapshot(self, n):
        self.rec.log(t="snapshot", n=n, side="*")
        snap = {}
        for side in "AB":
            conn = self.conn[side]
            tables = table_sizes(conn)
            unready, expired_now = [], []
            for label, (sd, ar) in self.asyncs.items():
                if sd != side:
                    continue
                try:
                    if ar._ttl.expired() and not ar._is_ready:
                        expired_now.append(label)
                    elif not ar._is_ready:
                        unready.append(label)
                except Exception:  # noqa
                    pass
            snap[side] = dict(closed=bool(conn is not None and conn.closed), hooks=self.hooks[side], tables=tables,
                              ended=dict(self.ended), unready=unready, expired_now=expired_now,
                              close_results=list(self.close_results[side]),
                              outcomes=dict((k, list(v)) for k, v in self.outcomes.items()))
        self.snap[n] = snap


# ---------------------------------------------------------------------------------------------- workloads
def warm(h, names=("echo",), uncached_root=False):
    """fetch the peer's root and the bound methods the workload calls (requests rpyc issues itself: GETROOT,
    GETATTR); None if the connection died"""
    try:
        if uncached_root:
            root = h.ca.sync_request(consts.HANDLE_GETROOT)      # conn.root is NOT cached on side A
        else:
            root = h.ca.root
        h.b = dict((n, getattr(root, n)) for n in names)
        return h.b
    except BaseException as ex:  # noqa
        if isinstance(ex, Deadlock):
            h.hang = True
        h.b = None
        return None


def w_sync(h):
    b = warm(h)
    if not b:
        return
    h.request("A", "s", b["echo"], (11,))
    h.request("A", "s", b["echo"], (12,))
    h.close("A")


def w_async(h):
    b = warm(h)
    if not b:
        return
    h.request("A", "a", b["echo"], (21,))
    h.request("A", "a", b["echo"], (22,))
    for label in list(h.asyncs):
        h.wait(label)
    h.close("A")


def w_nested(h):
    b = warm(h, ("echo", "call_back", "nest"))
    if not b:
        return
    h.request("A", "s", b["call_back"], (h.svc["A"].exposed_echo, 31), ref=True)
    h.request("A", "s", b["nest"], (h.svc["A"].exposed_nest, 3), ref=True)
    h.close("A")


def w_refs(h):
    b = warm(h, ("echo", "mklist", "use"))
    if not b:
        return
    lst = h.request("A", "s", b["mklist"], (41,))                 # B's object held by A
    mine = [0]
    h.keep.append(mine)
    h.request("A", "s", b["use"], (mine,), ref=True)              # A's object used by B
    if lst is not None:
        back = h.request("A", "s", b["echo"], (lst,))             # B's own object sent back to it and returned
        back = None
    lst = None                                                      # HANDLE_DEL goes out
    h.close("A")


def w_pending(h):
    b = warm(h, ("echo", "mklist"))
    if not b:
        return
    h.request("A", "a", b["echo"], (51,))
    h.request("A", "a", b["mklist"], (52,))
    h.close("A")                                                    # two requests still pending


def w_close_in_callback(h, ret_ref=0):
    b = warm(h, ("echo", "call_back"))
    if not b:
        return
    h.request("A", "a", b["echo"], (61,))
    h.request("A", "s", b["call_back"], (h.svc["A"].exposed_close_self, ret_ref), ref=True)


def w_close_in_callback_ref(h):
    w_close_in_callback(h, 1)


def w_peer_closes(h):
    b = warm(h, ("echo", "close_self"))
    if not b:
        return
    h.request("A", "a", b["echo"], (71,))
    h.request("A", "s", b["close_self"], (0,))                     # B closes inside its handler
    h.request("A", "s", b["echo"], (72,))


def w_timeout(h):
    b = warm(h, ("echo", "slow"))
    if not b:
        return
    h.request("A", "s", b["slow"], (100,))                         # sync_request_timeout is 30: AsyncResultTimeout
    h.request("A", "a", b["echo"], (58,))
    h.close("A")                                                    # B is still inside its handler


def w_poll_all(h):
    """the application serves through poll_all() / AsyncResult.ready instead of waiting"""
    b = warm(h, ("echo", "mklist"))
    if not b:
        return
    h.request("A", "a", b["echo"], (56,))
    h.request("A", "a", b["mklist"], (57,))
    for _ in range(2):
        try:
            h.ca.poll_all(0.5)                                      # (catches EOFError itself)
            h.api_ret("A", "request")
            for label in list(h.asyncs):
                h.asyncs[label][1].ready                            # (serves through poll_all as well)
            h.api_ret("A", "request")
        except BaseException as ex:  # noqa
            if isinstance(ex, Deadlock):
                h.hang = True
            break
    h.close("A")


def w_expired_wait(h):
    """a result is waited for only after its own timeout has passed: wait() does not touch the connection"""
    b = warm(h, ("echo", "slow"))
    if not b:
        return
    h.request("A", "a", b["slow"], (100,))
    for label in list(h.asyncs):
        h.asyncs[label][1].set_expiry(5)
    h.request("A", "s", b["slow"], (100,))                         # times out after 30: the first one expired long ago
    for label in list(h.asyncs):
        h.wait(label)
    h.close("A")


def w_close_a_then_b(h):
    b = warm(h)
    if not b:
        return
    h.request("A", "s", b["echo"], (91,))
    h.close("A")
    h.settle()                                                      # B receives the close
    h.close("B")


def w_close_b_then_a(h):
    b = warm(h)
    if not b:
        return
    h.request("A", "s", b["echo"], (92,))
    h.close("B")                                                    # a second thread closes B while B's thread is in serve()
    h.settle()
    h.request("A", "s", b["echo"], (93,))
    h.close("A")


def w_close_both_at_once(h):
    b = warm(h)
    if not b:
        return
    h.request("A", "s", b["echo"], (94,))
    h.close("A")
    h.close("B")                                                    # A's HANDLE_CLOSE is still unread in B's inbox


def w_before_closed(h):
    b = warm(h)
    if not b:
        return
    h.request("A", "s", b["echo"], (95,))
    h.close("A")


def w_before_closed_uncached(h):
    b = warm(h, ("echo",), uncached_root=True)
    if not b:
        return
    h.request("A", "s", b["echo"], (96,))
    h.close("A")                                                    # before_closed(self.root) fetches the root inside close()


def w_both_tcp(h):
    b = warm(h, ("echo", "close_self"), uncached_root=True)
    if not b:
        return
    h.request("A", "a", b["close_self"], (0,))                     # B closes; its HANDLE_CLOSE is buffered at A
    h.settle()
    h.close("A")                                                    # root fetch inside close() serves that HANDLE_CLOSE


def w_classic(h):
    ca = h.conn["A"]
    if ca is None or not h.handshake_ok["A"]:
        return                                                      # the handshake did not complete
    try:
        ca.eval("1+1")                                              # (requests rpyc issues itself on the classic proxies)
    except BaseException as ex:  # noqa
        if isinstance(ex, Deadlock):
            h.hang = True
    h.raw_request("A", consts.HANDLE_PING, 5)
    h.close("A")


WORKLOADS = {
    "sync": dict(run=w_sync),
    "async": dict(run=w_async),
    "nested": dict(run=w_nested),
    "refs": dict(run=w_refs),
    "pending": dict(run=w_pending),
    "close_in_callback": dict(run=w_close_in_callback),
    "close_in_callback_ref": dict(run=w_close_in_callback_ref),
    "peer_closes": dict(run=w_peer_closes),
    "timeout": dict(run=w_timeout),
    "expired_wait": dict(run=w_expired_wait),
    "poll_all": dict(run=w_poll_all),
    "close_a_then_b": dict(run=w_close_a_then_b),
    "close_b_then_a": dict(run=w_close_b_then_a),
    "close_both_at_once": dict(run=w_close_both_at_once),
    "before_closed_returns": dict(run=w_before_closed, before_closed_a="return", before_closed_b="return"),
    "before_closed_raises": dict(run=w_before_closed, before_closed_a="raise"),
    "before_closed_raises_catchall": dict(run=w_before_closed, before_closed_a="raise_catchall"),
    "before_closed_fetches_root": dict(run=w_before_closed_uncached, before_closed_a="return"),
    "both_at_once_tcp": dict(run=w_both_tcp, before_closed_a="return", tcp_like=True),
    # a user service whose on_disconnect hook raises: closed, hook once, tables empty, later close a no-op all the same
    "hook_raises_sync": dict(run=w_sync, hook_raises_a=True),
    "hook_raises_pending": dict(run=w_pending, hook_raises_a=True, hook_raises_b=True),
    "hook_raises_nested": dict(run=w_nested, hook_raises_a=True, hook_raises_b=True),
    "hook_raises_close_in_callback": dict(run=w_close_in_callback_ref, hook_raises_a=True),
    "hook_raises_peer_closes": dict(run=w_peer_closes, hook_raises_b=True),
    # a stream whose own close() raises: the hook still runs once and everything is still released
    "stream_close_raises_sync": dict(run=w_sync, bad_close_a=True),
    "stream_close_raises_pending": dict(run=w_pending, bad_close_a=True, bad_close_b=True),
    "stream_close_raises_peer_closes": dict(run=w_peer_closes, bad_close_a=True, bad_close_b=True),
    "stream_close_and_hook_raise": dict(run=w_nested, bad_close_a=True, hook_raises_a=True),
    # classic sides (MasterService + SlaveService): the handshake of on_connect() is itself exposed to every fault
    "classic_handshake": dict(run=w_classic, classic=True),
}


# ---------------------------------------------------------------------------------------------- abstraction
def frame_val(e):
    if e.get("msg") == consts.MSG_EXCEPTION:
        return VAL_EXC
    if e.get("ref"):
        return VAL_REF
    v = e.get("val")
    return v if type(v) is int and v >= 0 else VAL_OTHER


def abstract(h, side):
    """raw log of one run -> (tokens, index of snapshot 1, label -> request id) for `side`"""
    ev = h.rec.events
    toks = []
    ids = {}                 # label -> request id used in the model
    snap1 = None
    in_api_close = False
    close_sent = False
    hook_raised = None       # None | "h" | "H" during the current close() call (API or internal)
    last_r = None            # index in toks of the last token with a TryRes slot produced by an internal close()
    pending_frame = None     # the header entry whose body has not been read yet
    awaiting_reply = None    # ref flag of a handler that has finished and whose response has not been seen yet
    close_req_seq = None     # seq of the HANDLE_CLOSE request received
    skip_poll_fail = 0
    synth = [800000]
    written = {}
    for e in ev:
        if e["t"] == "write" and e.get("label") is not None and e["msg"] == consts.MSG_REQUEST:
            written[e["label"]] = e
    if h.classic:
        # a failed handshake: the request that failed is the last one this side wrote inside on_connect()
        inside = False
        for e in ev:
            if e.get("side") != side:
                continue
            if e["t"] == "handshake_begin":
                inside = True
            elif e["t"] == "handshake_end":
                inside = False
            elif inside and e["t"] == "write" and e["msg"] == consts.MSG_REQUEST \
                    and e.get("handler") not in (consts.HANDLE_DEL, consts.HANDLE_CLOSE):
                ids[side.lower() + "0"] = e["seq"]
        if side.lower() + "0" not in h.outcomes:
            ids.pop(side.lower() + "0", None)         # the handshake completed: nothing to compare

    def flush_reply():
        # a handler finished and no response was written before something else happened on this side:
        # the response failed before reaching the transport (`_box` refused on the closed channel)
        nonlocal awaiting_reply, last_r
        if awaiting_reply is not None:
            toks.append("fr%se" % ("T" if awaiting_reply else "F"))
            last_r = len(toks) - 1
            awaiting_reply = None

    for e in ev:
        t = e["t"]
        if t == "snapshot":
            if e["n"] == 1:
                flush_reply()
                snap1 = len(toks)
                continue
            break
        if e.get("side") != side:
            continue
        if t == "finish":
            flush_reply()
            awaiting_reply = e["ref"]
            continue
        if t == "hook_called":
            if e["raises"]:
                c = "H" if e["catchall"] else "h"
                if in_api_close:
                    hook_raised = c
                elif last_r is not None:
                    toks[last_r] = toks[last_r][:-1] + c
            continue
        if t == "write":
            msg = e["msg"]
            if msg == consts.MSG_REQUEST:
                if e.get("handler") == consts.HANDLE_CLOSE:
                    flush_reply()
                    if e["ok"]:
                        close_sent = True
                    continue
                if e.get("handler") == consts.HANDLE_DEL and e["own_closed"]:
                    continue          # a proxy's destructor on a closed channel (e.g. inside _cleanup): swallowed by __del__
                flush_reply()
                s = e["seq"]
                if e.get("label") is not None:
                    ids[e["label"]] = s
                ref = "T" if e.get("ref") else "F"
                if e["own_closed"]:
                    toks.append("is%d:%s" % (s, ref))
                elif not e["ok"] and e.get("nested") in (consts.MSG_REPLY, consts.MSG_EXCEPTION) \
                        and e.get("handler") != consts.HANDLE_DEL:
                    toks.append("fn%d" % s)       # made while a response was being delivered: met while serving
                    last_r = len(toks) - 1
                elif not e["ok"]:
                    toks.append("fq%d" % s)
                else:
                    toks.append("is%d:%s" % (s, ref))
                    if e.get("kind", "s") == "s":
                        toks.append("w%d:Fe" % s)
                        last_r = len(toks) - 1
            else:
                if close_req_seq is not None and e["seq"] == close_req_seq:
                    continue                                  # the reply to HANDLE_CLOSE: part of recvClose
                ref = "T" if (e.get("ref") or (awaiting_reply is True)) else "F"
                awaiting_reply = None
                if not e["ok"]:
                    toks.append("fr%se" % ref)
                    last_r = len(toks) - 1
            continue
        if t == "recv":
            flush_reply()
            if e.get("eof") or e.get("faulted"):
                if skip_poll_fail:
                    skip_poll_fail -= 1
                else:
                    toks.append("ese")
                    last_r = len(toks) - 1
                pending_frame = None
            else:
                pending_frame = e
            continue
        if t == "recvbody":
            if e.get("eof") or e.get("faulted") or (pending_frame is not None and pending_frame.get("cut") is not None):
                toks.append("ese")
                last_r = len(toks) - 1
            elif pending_frame is not None and pending_frame.get("msg") is not None:
                f = pending_frame
                if f["msg"] == consts.MSG_REQUEST:
                    if f.get("handler") == consts.HANDLE_CLOSE:
                        toks.append("rc")
                        close_req_seq = f["seq"]
                else:
                    toks.append("rp%d:%d" % (f["seq"], frame_val(f)))
                    pending_frame = None
                    continue
            pending_frame = None
            continue
        if t == "poll":
            if e.get("oserr"):
                continue              # leaves serve() as it is; serve_all's finally follows (serve_all_exit)
            if e["own_closed"] or e.get("faulted"):
                flush_reply()
                if skip_poll_fail:
                    skip_poll_fail -= 1
                else:
                    toks.append("ese")
                    last_r = len(toks) - 1
            continue
        if t == "api_req":
            flush_reply()
            if e["label"] not in written:
                # the request failed before reaching the transport (by-reference argument on a closed channel)
                synth[0] += 1
                ids[e["label"]] = synth[0]
                toks.append("is%d:%s" % (synth[0], "T" if e["ref"] else "F"))
            continue
        if t == "api_wait":
            flush_reply()
            s = ids.get(e["label"])
            if s is None:
                continue
            toks.append("w%d:%se" % (s, "T" if e.get("expired") else "F"))
            last_r = len(toks) - 1
            if e["own_closed"] and not e.get("expired") and not e.get("ready_before"):
                skip_poll_fail += 1          # (a result already completed by the end is not served for: no poll follows)
            continue
        if t == "api_timeout":
            toks.append("to")
            continue
        if t == "api_close_begin":
            flush_reply()
            toks.append("cb")
            if not e["was_closed"]:
                in_api_close, close_sent, hook_raised = True, False, None
            continue
        if t == "api_close_end":
            r = hook_raised if hook_raised else ("s" if close_sent else "e")
            toks.append("ce" + r)
            in_api_close = False
            continue
        if t == "serve_all_exit":
            flush_reply()
            toks.append("sxe")
            last_r = len(toks) - 1
            continue
    flush_reply()
    if snap1 is None:
        snap1 = len(toks)
    return toks, snap1, ids


MODEL_RE = re.compile(r"acc=(\d+)/(\d+) closed=(\w) inClose=(\w) chan=(\w) hook=(\d+) cleaned=(\w) tables=(\w) "
                      r"pending=(\S+) blocked=(\S+) out=(\S+) raised=(\S+)(?: endready=(\S+))?$")


def parse_model(line):
    m = MODEL_RE.match(line)
    if not m:
        return None
    lst = lambda s: [] if s == "-" else s.split(",")  # noqa
    return dict(acc=int(m.group(1)), total=int(m.group(2)), closed=m.group(3), inClose=m.group(4), chan=m.group(5),
                hook=int(m.group(6)), cleaned=m.group(7), tables=m.group(8), pending=lst(m.group(9)),
                blocked=lst(m.group(10)), out=lst(m.group(11)), raised=lst(m.group(12)),
                endready=lst(m.group(13) or "-"))


RAISED_NAME = {"HookError": "user", "AttributeError": "attr", "DisconnectBoom": "hook", "StreamCloseError": "channel"}


def impl_view(h, side, n, ids):
    s = h.snap[n][side]
    out = []
    for label, lst in s["outcomes"].items():
        if label in ids and label.startswith(side.lower()):
            for o in lst:
                out.append("%d:%s" % (ids[label], o))
    raised = [RAISED_NAME.get(r, r) for r in s["close_results"] if r]
    tables = "?" if s["tables"] is None else ("T" if sum(s["tables"]) == 0 else "F")
    # results completed by the end of the connection that their requester has not asked for yet, and those whose own
    # timeout had passed (AsyncResult ignores the completion then: they stay "expired")
    endready = sorted(str(ids[lb]) for lb in s.get("ended", {}) if lb in ids and lb.startswith(side.lower())
                      and lb not in s["outcomes"])
    expired = set(str(ids[lb]) for lb in s.get("expired_now", []) if lb in ids)
    return dict(closed="T" if s["closed"] else "F", hook=s["hooks"], tables=tables, out=sorted(out), raised=raised,
                endready=endready, expired=expired)


def compare(h, side, n, ids, mline):
    """(impl_text, model_text) of one side at snapshot n"""
    iv = impl_view(h, side, n, ids)
    pm = parse_model(mline)
    if pm is None:
        return "impl %r" % iv, "model " + mline
    visible = set(str(v) for k, v in ids.items() if k.startswith(side.lower()))
    mout = sorted(x for x in pm["out"] if x.split(":")[0] in visible)
    impl = ["acc=all", "closed=" + iv["closed"], "hook=%d" % iv["hook"]]
    mod = ["acc=all" if pm["acc"] == pm["total"] else "acc=%d/%d" % (pm["acc"], pm["total"]),
           "closed=" + pm["closed"], "hook=%d" % pm["hook"]]
    if pm["closed"] == "T" and pm["inClose"] == "F" and iv["tables"] != "?":
        impl.append("tables=" + iv["tables"])
        mod.append("tables=" + pm["tables"])
    impl.append("out=" + ",".join(iv["out"]))
    mod.append("out=" + ",".join(mout))
    impl.append("raised=" + ",".join(iv["raised"]))
    mod.append("raised=" + ",".join(pm["raised"]))
    impl.append("endready=" + ",".join(iv["endready"]))
    mod.append("endready=" + ",".join(sorted(x for x in pm["endready"] if x in visible and x not in iv["expired"])))
    if n == 2:
        impl.append("blocked=0 hang=%s" % ("T" if h.hang else "F"))
        mod.append("blocked=%d hang=F" % len(pm["blocked"]))
    return " ".join(impl), " ".join(mod)


# ---------------------------------------------------------------------------------------------- cases
def fault_points(workload, cuts, rng=None):
    """the fault-free run of a workload -> list of faults (one per transport call and flavour, + cuts)"""
    h = Harness(workload).execute()
    faults = [None]
    for k, (op, side) in enumerate(h.rec.calls):
        faults.append(dict(k=k, how="err"))
        faults.append(dict(k=k, how="eof"))
    # serve_all() of side B polling at its base level (no request in progress there): poll raises OSError
    depth = 0
    pend = None
    serving = False
    for e in h.rec.events:
        if e.get("side") != "B":
            continue
        if e["t"] == "serve_all_enter":
            serving = True
        if e["t"] == "recv":
            pend = e
        elif e["t"] == "recvbody":
            if pend is not None and pend.get("msg") == consts.MSG_REQUEST and not e.get("eof"):
                depth += 1
            pend = None
        elif e["t"] == "write" and e["msg"] != consts.MSG_REQUEST:
            depth -= 1
        elif e["t"] == "poll" and depth == 0 and serving and not e["own_closed"]:
            faults.append(dict(k=e["call"], how="oserr"))
    if cuts:
        for e in h.rec.events:
            if e["t"] == "recv" and e.get("flen"):
                n = e["flen"]
                if cuts == "all":
                    offs = range(n)
                else:
                    # header boundaries, first body byte, middle, last byte + one seeded offset
                    pick = [0, 4, 5, n // 2, n - 1]
                    if rng is not None:
                        pick += [rng.below(n)]
                    offs = sorted(set(o for o in pick if 0 <= o < n))
                for at in offs:
                    faults.append(dict(k=e["call"], how="cut", at=at))
    # fault sequences: a second fault a few transport calls after the first one
    if rng is not None:
        singles = [f for f in faults if f and f["how"] in ("err", "eof")]
        n2 = len(singles) if cuts == "all" else min(14, len(singles))
        for i in range(n2):
            f1 = singles[i] if cuts == "all" else singles[rng.below(len(singles))]
            for after in ((1, 2, 3, 5) if cuts == "all" else (1 + rng.below(4),)):
                faults.append(dict(k=f1["k"], how=f1["how"], then=dict(after=after, how=rng.choice(["err", "eof"]))))
    return h, faults


def run_case(workload, fault):
    h = Harness(workload, fault).execute()
    lines, meta = [], []
    for side in "AB":
        toks, snap1, ids = abstract(h, side)
        op = "life runwith %s%s " % ("H" if h.hook_raises[side] else "-", "C" if h.chan_close_raises[side] else "-")
        lines.append(op + " ".join(toks[:snap1]))
        meta.append((side, 1, ids))
        lines.append(op + " ".join(toks))
        meta.append((side, 2, ids))
    return h, lines, meta


def correspondence(ctx):
    c = Corr()
    c.rule = ("%d workloads x (fault-free run + a fault at every individual transport call of that run, two flavours: I/O "
              "error at this end / the peer vanishing; + poll() raising OSError at every base-level poll of serve_all) + cuts at byte offsets inside the packet at every header read "
              "(quick: header boundaries, first/middle/last body byte + 1 seeded offset of every packet; thorough: every "
              "offset of every packet). "
              "Compared per side, after the workload and after the after-phase (wait for everything pending, two new "
              "requests, close twice): closed, hook runs, tables empty (when closed), outcome of every request, what "
              "close() raised, nobody blocked, no deadlock. Non-trivial = a fault fired or a close happened; distinct = "
              "distinct (workload, faulted op, faulted side, flavour, final flags and outcome classes).") % len(WORKLOADS)
    deadline = time.time() + ctx.budget(50, 800)
    thorough = ctx.tier == "thorough"
    rng = Rng(ctx.seed).fork("c11")
    cases = []
    for wname in WORKLOADS:
        cuts = "all" if thorough else "some"
        try:
            h0, faults = fault_points(wname, cuts, rng)
        except Exception as ex:  # noqa
            c.error = "harness crashed on the fault-free run of %s: %r" % (wname, ex)
            return c
        c.count("transport-calls:%s" % wname, len(h0.rec.calls))
        for f in faults:
            cases.append((wname, f))
    # seeded order of the fault points beyond the budget (all of them are run when time allows)
    lines, metas, runs = [], [], []
    for wname, f in cases:
        if time.time() > deadline:
            c.count("skipped:time-budget")
            continue
        try:
            h, ls, meta = run_case(wname, f)
        except Infrastructure:
            raise                                         # exit 2, not a verdict
        except Exception as ex:  # noqa
            c.error = "harness crashed on %s %r: %r" % (wname, f, ex)
            return c
        runs.append((wname, f, h, len(lines)))
        lines += ls
        metas += meta
    try:
        outs = run_driver(lines, exe="drv_proto")
    except DriverError as ex:
        c.error = str(ex)
        return c
    for wname, f, h, base in runs:
        c.evaluations += 1
        how = (f["how"] + ("+" + f["then"]["how"] if f.get("then") else "")) if f else "none"
        c.count("workload:" + wname)
        c.count("fault:" + how)
        if f and f.get("then") and h.fired2:
            c.count("second-fault-fired")
        if f and h.fired:
            c.count("fault-op:%s@%s" % (h.fired["op"], h.fired["side"]))
        elif f:
            c.count("fault-not-reached")
        diffs = []
        finals = []
        for j in range(4):
            side, n, ids = metas[base + j]
            impl, mod = compare(h, side, n, ids, outs[base + j])
            if impl != mod:
                diffs.append(dict(side=side, snapshot=n, impl=impl, model=mod, ops=lines[base + j][:600]))
            if n == 2:
                finals.append(re.sub(r"\d+:", "", impl))
                pm = parse_model(outs[base + j])
                if pm:
                    for tok in lines[base + j].split()[3:]:
                        m = re.match(r"[a-z]+", tok)
                        if m:
                            c.count("model-event:" + m.group(0))
        if h.hang:
            c.count("hang")
        for nte in h.notes:
            c.count("note:" + nte.split(":")[0])
        c.signatures.add("%s|%s|%s|%s" % (wname, how, (h.fired or {}).get("op"), "|".join(finals)))
        if diffs or h.hang or h.notes:
            c.disagreements.append(dict(case=dict(kind="fault", workload=wname, fault=f), impl=diffs[0]["impl"] if diffs else
                                        "hang=%s notes=%s" % (h.hang, h.notes[:3]),
                                        model=diffs[0]["model"] if diffs else "no hang, no exception in the harness",
                                        detail=diffs[:4]))
        elif len(c.samples) < 12 and c.evaluations % 131 == 7:
            side, n, ids = metas[base + 1]
            c.samples.append(dict(workload=wname, fault=f, fired=h.fired, ops=lines[base + 1][:300],
                                  outcome=compare(h, side, n, ids, outs[base + 1])[0][:300]))
    # real transports (pipes, socket pairs), real threads: a few runs with ceilings
    rlines, rres = [], []
    rcases = real_cases()
    for case in rcases:
        res = run_real_case(case)                     # Infrastructure propagates: exit 2
        if real_oracle(res):
            # real threads, real time: a failing run is repeated once before it is believed (DESIGN.md section 8)
            c.count("real-run-repeated")
            res = run_real_case(case)
        rres.append(res)
        rlines.append("life run " + " ".join(res["tokens"]))
    try:
        routs = run_driver(rlines, exe="drv_proto")
    except DriverError as ex:
        c.error = str(ex)
        return c
    for case, res, line, got in zip(rcases, rres, rlines, routs):
        c.evaluations += 1
        c.count("real-transport:%s" % res["transport"])
        c.count("real-scenario:%s" % res["scenario"])
        if case.get("fault"):
            c.count("real-io-error:%s:%s@%d" % (case["fault"]["op"], case["fault"]["errno"], case["fault"]["after"]))
        if res["scenario"] == "abrupt_holding_callback":
            c.count("real-objects-held-for-peer-before-the-end", res.get("held_before") or 0)
        impl, mod = real_view(res), real_model_view(got)
        c.signatures.add("real|%s|%s|%s|%s" % (res["transport"], res["scenario"], case.get("fault"), impl))
        if impl != mod or real_oracle(res):
            c.disagreements.append(dict(case=case, impl=impl, model=mod, detail=[dict(ops=line, observed=dict(
                                            (k, v) for k, v in res.items() if k != "tokens"))]))
    complete = not c.distribution.get("skipped:time-budget")
    c.exhaustive = bool(complete and thorough)       # thorough: also every byte offset of every packet
    c.extra["every_transport_call_of_every_workload_faulted"] = bool(complete)
    c.extra["exhaustive_over"] = ("every transport call of the fault-free run of every workload x 2 flavours, every base-level "
                                  "poll of serve_all with OSError; byte offsets inside packets: %s"
                                  % ("all" if thorough else "boundaries + 2 seeded per packet"))
    return c


# ---------------------------------------------------------------------------------------------- real transports
# A small family of runs over REAL streams (PipeStream.create_pair, SocketStream over socket.socketpair): what the
# deterministic network cannot see is `Stream.poll` / `PipeStream` / `SocketStream` themselves meeting end-of-stream.
# Real threads and real time: every observation is "wait until <monotone condition> or the ceiling", never sleep-and-hope;
# reaching the ceiling IS the violation ("the side never became closed").
import os
import socket
import threading

REAL_CEILING = 5.0
REAL_TRANSPORTS = ("pipe", "socket")
REAL_SCENARIOS = ("abrupt_in_wait", "abrupt_in_serve_all", "abrupt_holding_callback", "orderly_in_serve_all",
                  "orderly_in_wait")


class Infrastructure(Exception):
    """the run could not be set up (no pipes / sockets / threads): exit 2, never a violation"""


def wait_until(cond, ceiling=None):
    t_end = time.time() + (REAL_CEILING if ceiling is None else ceiling)
    while True:
        if cond():
            return True
        if time.time() >= t_end:
            return False
        time.sleep(0.005)


class RealSvc(rpyc.Service):
    def __init__(self, box, side):
        self.box = box
        self.side = side

    def on_disconnect(self, conn):
        self.box["hooks"][self.side] += 1

    def exposed_slow(self):
        self.box["started"].set()
        self.box["release"].wait(REAL_CEILING * 3)
        return 5

    def exposed_hold(self, f):
        self.box["held"].append(f)           # B keeps a proxy of A's object: A holds the object for B
        return 6

    def exposed_cb(self):
        return 7

    def exposed_call_held_then_slow(self):
        """B's handler: once told to go, call the callback object A lent (a request towards A), then block"""
        self.box["started"].set()
        self.box["go"].wait(REAL_CEILING * 3)
        try:
            self.box["held"][0]()
        finally:
            self.box["release"].wait(REAL_CEILING * 3)
        return 8


def real_pair(transport):
    from rpyc.core.stream import PipeStream, SocketStream
    try:
        if transport == "pipe":
            return PipeStream.create_pair()
        a, b = socket.socketpair()
        return SocketStream(a), SocketStream(b)
    except Exception as ex:  # noqa
        raise Infrastructure("cannot create a %s pair: %r" % (transport, ex))


def run_real(transport, scenario):
    """one real-transport run -> dict(observed=..., tokens=model events of side A, problems=[...])"""
    box = dict(hooks={"A": 0, "B": 0}, started=threading.Event(), release=threading.Event(), held=[])
    stra, strb = real_pair(transport)
    sa, sb = RealSvc(box, "A"), RealSvc(box, "B")
    ca = sa._connect(Channel(stra), {"sync_request_timeout": REAL_CEILING * 2})
    cb = sb._connect(Channel(strb), {"sync_request_timeout": REAL_CEILING * 2})
    res = dict(transport=transport, scenario=scenario, a_out=None, serve_all_returned=None, wait_out=None)
    tb = threading.Thread(target=lambda: _quiet(cb.serve_all), daemon=True, name="real-B")
    tb.start()
    toks = []
    threads = [tb]
    try:
        root = ca.root
        slow = root.slow
        if scenario == "abrupt_holding_callback":
            root.hold(sa.exposed_cb)                      # by-reference argument: A now holds an object for B
        ar = rpyc.async_(slow)()                          # pending: B's handler blocks
        toks.append("is0:F")
        if not box["started"].wait(REAL_CEILING):
            raise Infrastructure("side B never started the handler")
        in_wait = scenario.endswith("in_wait")

        def a_body():
            try:
                if in_wait:
                    try:
                        ar.value        # (wait + look at the result: a result completed by the end raises its EOFError here)
                        res["a_out"] = "v"
                    except EOFError:
                        res["a_out"] = "eof"
                else:
                    ca.serve_all()
                    res["serve_all_returned"] = True
            except BaseException as ex:  # noqa
                res["a_out"] = "other:" + type(ex).__name__
        ta = threading.Thread(target=a_body, daemon=True, name="real-A")
        ta.start()
        threads.append(ta)
        if in_wait:
            toks.append("w0:Fe")
        try:
            res["held_before"] = len(ca._local_objects._dict)
        except AttributeError:
            res["held_before"] = None
        time.sleep(0.02)                                  # (not an observation: lets A reach its poll; any order is legal)
        if scenario.startswith("abrupt"):
            strb.close()                                  # B's end goes away: no HANDLE_CLOSE
            toks.append("ese")
        else:
            cb.close()                                    # orderly: HANDLE_CLOSE reaches A
            toks.append("rc")
        res["closed_in_time"] = wait_until(lambda: ca.closed)
        res["a_thread_ended"] = wait_until(lambda: not ta.is_alive())
        if not in_wait:
            toks.append("sxe")
        # the pending request, looked at afterwards (in a helper thread: it must not be able to hang the check)
        def w_body():
            try:
                ar.value        # (wait + look at the result: a result completed by the end raises its EOFError here)
                res["wait_out"] = "v"
            except EOFError:
                res["wait_out"] = "eof"
            except BaseException as ex:  # noqa
                res["wait_out"] = "other:" + type(ex).__name__
        if in_wait:
            res["wait_out"] = res["a_out"]
        else:
            tw = threading.Thread(target=w_body, daemon=True, name="real-W")
            tw.start()
            threads.append(tw)
            wait_until(lambda: not tw.is_alive())
            toks.append("w0:Fe")
        res["closed"] = bool(ca.closed)
        res["hooks"] = box["hooks"]["A"]
        res["tables"] = table_sizes(ca)
        try:
            ca.close()
            res["close_again"] = None
        except BaseException as ex:  # noqa
            res["close_again"] = type(ex).__name__
        toks.append("cb")
        res["hooks_after"] = box["hooks"]["A"]
    finally:
        box["release"].set()
        for st in (stra, strb):
            try:
                st.close()                                # also ends a thread that would otherwise poll forever
            except Exception:  # noqa
                pass
        for th in threads:
            th.join(REAL_CEILING)
        box["held"] = []
    res["tokens"] = toks
    return res


class FaultSock(object):
    """a real socket under the REAL SocketStream whose recv()/send() fail with a given OSError once `after` bytes have
    gone through since it was armed (a partial transfer first when `after` > 0); everything else is the real socket's"""
    def __init__(self, real):
        self._real = real
        self._plan = None
        self._count = 0
        self.fired = 0

    def arm(self, op, after, err):
        self._count = 0
        self._plan = (op, after, err)

    def _fail(self, err):
        self.fired += 1
        raise OSError(err, os.strerror(err))       # (the interpreter picks the subclass: ConnectionResetError, ... or plain OSError)

    def recv(self, n, *a):
        p = self._plan
        if p and p[0] == "recv":
            if self._count >= p[1]:
                self._fail(p[2])
            data = self._real.recv(min(n, p[1] - self._count), *a)
            self._count += len(data)
            return data
        return self._real.recv(n, *a)

    def send(self, data, *a):
        p = self._plan
        if p and p[0] == "send":
            if self._count >= p[1]:
                self._fail(p[2])
            k = self._real.send(data[:p[1] - self._count], *a)
            self._count += k
            return k
        return self._real.send(data, *a)

    def sendall(self, data, *a):
        # a tree that writes with sendall() must meet the injected failure too (and not bypass it through __getattr__)
        data = bytes(data)
        while data:
            data = data[self.send(data, *a):]

    def __getattr__(self, name):
        return getattr(self._real, name)


class FaultOs(object):
    """stands in for the `os` module inside rpyc.core.stream: read()/write() on ONE descriptor fail like FaultSock's
    recv()/send(); everything else (other descriptors, other functions) is the real os"""
    def __init__(self):
        self._plan = None          # (op, fd, after, err)
        self._count = 0
        self.fired = 0

    def arm(self, op, fd, after, err):
        self._count = 0
        self._plan = (op, fd, after, err)

    def read(self, fd, n):
        p = self._plan
        if p and p[0] == "recv" and fd == p[1]:
            if self._count >= p[2]:
                self.fired += 1
                raise OSError(p[3], os.strerror(p[3]))
            data = os.read(fd, min(n, p[2] - self._count))
            self._count += len(data)
            return data
        return os.read(fd, n)

    def write(self, fd, data):
        p = self._plan
        if p and p[0] == "send" and fd == p[1]:
            if self._count >= p[2]:
                self.fired += 1
                raise OSError(p[3], os.strerror(p[3]))
            k = os.write(fd, data[:p[2] - self._count])
            self._count += k
            return k
        return os.write(fd, data)

    def __getattr__(self, name):
        return getattr(os, name)


def run_real_fault(transport, scenario, fault):
    """A's REAL stream meets an I/O error (recv/send resp. os.read/os.write raising OSError(errno)) at a byte offset
    of the message in transit.  scenario: io_error_in_wait (A waits for the reply that is hit), io_error_in_serve_all
    (A's serve_all reads the reply that is hit), io_error_replying (A's serve_all answers B's callback request; the
    send is hit; A holds that callback object for B)."""
    import errno as errno_mod
    import rpyc.core.stream as stream_mod
    from rpyc.core.stream import PipeStream, SocketStream
    err = getattr(errno_mod, fault["errno"])
    box = dict(hooks={"A": 0, "B": 0}, started=threading.Event(), release=threading.Event(), go=threading.Event(),
               held=[])
    fos = None
    saved_os = stream_mod.os
    try:
        if transport == "socket":
            a, b = socket.socketpair()
            fsock = FaultSock(a)
            stra, strb = SocketStream(fsock), SocketStream(b)
            arm = lambda: fsock.arm(fault["op"], fault["after"], err)  # noqa
            fired = lambda: fsock.fired  # noqa
        else:
            stra, strb = PipeStream.create_pair()
            fos = FaultOs()
            stream_mod.os = fos
            fd = stra.incoming.fileno() if fault["op"] == "recv" else stra.outgoing.fileno()
            arm = lambda: fos.arm(fault["op"], fd, fault["after"], err)  # noqa
            fired = lambda: fos.fired  # noqa
    except Exception as ex:  # noqa
        stream_mod.os = saved_os
        raise Infrastructure("cannot create a %s pair: %r" % (transport, ex))
    res = dict(transport=transport, scenario=scenario, fault=fault, a_out=None, serve_all_returned=None, wait_out=None)
    threads = []
    toks = []
    try:
        sa, sb = RealSvc(box, "A"), RealSvc(box, "B")
        ca = sa._connect(Channel(stra), {"sync_request_timeout": REAL_CEILING * 2})
        cb = sb._connect(Channel(strb), {"sync_request_timeout": REAL_CEILING * 2})
        tb = threading.Thread(target=lambda: _quiet(cb.serve_all), daemon=True, name="real-B")
        tb.start()
        threads.append(tb)
        root = ca.root
        replying = scenario == "io_error_replying"
        if replying:
            root.hold(sa.exposed_cb)                      # A holds an object for B
            target = root.call_held_then_slow
        else:
            target = root.slow
        in_wait = scenario == "io_error_in_wait"
        ar = rpyc.async_(target)()                        # the pending request
        toks.append("is0:F")
        if not box["started"].wait(REAL_CEILING):
            raise Infrastructure("side B never started the handler")
        try:
            res["held_before"] = len(ca._local_objects._dict)
        except AttributeError:
            res["held_before"] = None

        def a_body():
            try:
                if in_wait:
                    try:
                        ar.value        # (wait + look at the result: a result completed by the end raises its EOFError here)
                        res["a_out"] = "v"
                    except EOFError:
                        res["a_out"] = "eof"
                else:
                    ca.serve_all()
                    res["serve_all_returned"] = True
            except BaseException as ex:  # noqa
                res["a_out"] = "other:" + type(ex).__name__
        arm()                                             # from now on the transport fails at the chosen offset
        ta = threading.Thread(target=a_body, daemon=True, name="real-A")
        ta.start()
        threads.append(ta)
        if in_wait:
            toks.append("w0:Fe")
        if replying:
            box["go"].set()                               # B calls A back: A's reply meets the failure
            toks.append("frFe")
        else:
            box["release"].set()                          # B answers: A's read of that reply meets the failure
            toks.append("ese")
        res["closed_in_time"] = wait_until(lambda: ca.closed)
        res["a_thread_ended"] = wait_until(lambda: not ta.is_alive())
        res["fault_fired"] = fired()
        if not in_wait:
            toks.append("sxe")

        def w_body():
            try:
                ar.value        # (wait + look at the result: a result completed by the end raises its EOFError here)
                res["wait_out"] = "v"
            except EOFError:
                res["wait_out"] = "eof"
            except BaseException as ex:  # noqa
                res["wait_out"] = "other:" + type(ex).__name__
        if in_wait:
            res["wait_out"] = res["a_out"]
        else:
            tw = threading.Thread(target=w_body, daemon=True, name="real-W")
            tw.start()
            threads.append(tw)
            wait_until(lambda: not tw.is_alive())
            toks.append("w0:Fe")
        res["closed"] = bool(ca.closed)
        res["hooks"] = box["hooks"]["A"]
        res["tables"] = table_sizes(ca)
        try:
            ca.close()
            res["close_again"] = None
        except BaseException as ex:  # noqa
            res["close_again"] = type(ex).__name__
        toks.append("cb")
        res["hooks_after"] = box["hooks"]["A"]
    finally:
        box["release"].set()
        box["go"].set()
        for st in (stra, strb):
            try:
                st.close()
            except Exception:  # noqa
                pass
        for th in threads:
            th.join(REAL_CEILING)
        stream_mod.os = saved_os
        box["held"] = []
    if not res.get("fault_fired") and res.get("closed_in_time") is not None:
        raise Infrastructure("the injected %s failure was never reached (%s/%s)" % (fault["op"], transport, scenario))
    res["tokens"] = toks
    return res


def run_real_threads(transport, scenario, fault=None):
    """several threads on side A when the end comes: `two_waiters` — two requests without timeout, one thread reading,
    the other parked in serve() waiting for the receive lock; `serve_threaded` — Connection.serve_threaded(3).  The end:
    B's stream closed abruptly, or (fault) A's recv failing with an OSError.  Nobody of side A may stay blocked."""
    import errno as errno_mod
    from rpyc.core.stream import SocketStream
    box = dict(hooks={"A": 0, "B": 0}, started=threading.Event(), release=threading.Event(), go=threading.Event(),
               held=[])
    fsock = None
    if fault:
        try:
            a, b = socket.socketpair()
        except Exception as ex:  # noqa
            raise Infrastructure("socketpair: %r" % (ex,))
        fsock = FaultSock(a)
        stra, strb = SocketStream(fsock), SocketStream(b)
    else:
        stra, strb = real_pair(transport)
    res = dict(transport=transport, scenario=scenario, fault=fault, a_out=None, serve_all_returned=None, wait_out=None)
    threads, toks, outs = [], [], {}
    try:
        sa, sb = RealSvc(box, "A"), RealSvc(box, "B")
        ca = sa._connect(Channel(stra), {"sync_request_timeout": None})
        cb = sb._connect(Channel(strb), {"sync_request_timeout": None})
        tb = threading.Thread(target=lambda: _quiet(cb.serve_all), daemon=True, name="real-B")
        tb.start()
        threads.append(tb)
        root = ca.root
        slow = root.slow
        local = scenario == "local_close_while_waiter_blocked"
        two = scenario.endswith("two_waiters") or local
        ars = [rpyc.async_(slow)()]
        toks.append("is0:F")
        if two and not local:
            ars.append(rpyc.async_(slow)())                 # queued behind the first at B
            toks.append("is1:F")
        if not box["started"].wait(REAL_CEILING):
            raise Infrastructure("side B never started the handler")

        def waiter(i):
            try:
                ars[i].value                                 # no expiry: only the end of the connection can release it
                outs[i] = "v"
            except EOFError:
                outs[i] = "eof"
            except BaseException as ex:  # noqa
                outs[i] = "other:" + type(ex).__name__

        def threaded():
            try:
                ca.serve_threaded(thread_count=3)
                res["serve_all_returned"] = True
            except BaseException as ex:  # noqa
                res["a_out"] = "other:" + type(ex).__name__
        if fsock is not None:
            fsock.arm("recv", fault["after"], getattr(errno_mod, fault["errno"]))
        mine = []
        if two:
            for i in range(len(ars)):
                th = threading.Thread(target=waiter, args=(i,), daemon=True, name="real-A%d" % i)
                th.start()
                mine.append(th)
                toks.append("w%d:Fe" % i)
                time.sleep(0.03)        # (not an observation: whichever thread reads, the other one parks)
        else:
            th = threading.Thread(target=threaded, daemon=True, name="real-A")
            th.start()
            mine.append(th)
            time.sleep(0.03)
        threads += mine
        if fsock is not None:
            box["release"].set()                              # B answers; A's read of the reply fails
        elif local:
            # THIS thread closes the connection while the other one is blocked waiting for its reply; the peer is
            # silent (busy in its handler): the waiter must be released by the local close alone
            try:
                ca.close()
            except BaseException as ex:  # noqa
                res["close_raised"] = type(ex).__name__
            toks += ["cb", "ces"]
        else:
            strb.close()                                      # B's end goes away: no HANDLE_CLOSE
        toks.append("ese")
        res["closed_in_time"] = wait_until(lambda: ca.closed)
        res["a_thread_ended"] = wait_until(lambda: not any(t.is_alive() for t in mine))
        res["threads_still_blocked"] = [t.name for t in mine if t.is_alive()]
        if fsock is not None:
            res["fault_fired"] = fsock.fired
        if not two:
            toks.append("sxe")
            tw = threading.Thread(target=waiter, args=(0,), daemon=True, name="real-W")
            tw.start()
            threads.append(tw)
            wait_until(lambda: not tw.is_alive())
            toks.append("w0:Fe")
        res["wait_outs"] = [outs.get(i, "hang") for i in range(len(ars))]
        res["wait_out"] = "eof" if all(o == "eof" for o in res["wait_outs"]) else ",".join(res["wait_outs"])
        res["closed"] = bool(ca.closed)
        res["hooks"] = box["hooks"]["A"]
        res["tables"] = table_sizes(ca)
        try:
            ca.close()
            res["close_again"] = None
        except BaseException as ex:  # noqa
            res["close_again"] = type(ex).__name__
        toks.append("cb")
        res["hooks_after"] = box["hooks"]["A"]
    finally:
        box["release"].set()
        for st in (stra, strb):
            try:
                st.close()
            except Exception:  # noqa
                pass
        try:                                                  # (lets a thread that was left parked go, so it does not linger)
            with ca._recv_event:
                ca._recv_event.notify_all()
        except Exception:  # noqa
            pass
        for th in threads:
            th.join(1.0)
    if fsock is not None and not res.get("fault_fired"):
        raise Infrastructure("the injected recv failure was never reached (%s)" % scenario)
    res["tokens"] = toks
    return res


def run_real_bg(transport, scenario):
    """side A is served by a BgServingThread (the application thread only issues requests); B's end goes away"""
    box = dict(hooks={"A": 0, "B": 0}, started=threading.Event(), release=threading.Event(), go=threading.Event(),
               held=[])
    stra, strb = real_pair(transport)
    res = dict(transport=transport, scenario=scenario, fault=None, a_out=None, serve_all_returned=None, wait_out=None)
    threads, toks = [], []
    stopped = threading.Event()
    try:
        sa, sb = RealSvc(box, "A"), RealSvc(box, "B")
        ca = sa._connect(Channel(stra), {"sync_request_timeout": REAL_CEILING * 2})
        cb = sb._connect(Channel(strb), {"sync_request_timeout": REAL_CEILING * 2})
        tb = threading.Thread(target=lambda: _quiet(cb.serve_all), daemon=True, name="real-B")
        tb.start()
        threads.append(tb)
        root = ca.root
        slow = root.slow
        bg = rpyc.BgServingThread(ca, callback=stopped.set)        # serves A from now on
        ar = rpyc.async_(slow)()
        toks.append("is0:F")
        if not box["started"].wait(REAL_CEILING):
            raise Infrastructure("side B never started the handler")
        strb.close()
        toks.append("ese")
        res["closed_in_time"] = wait_until(lambda: ca.closed)
        res["a_thread_ended"] = wait_until(stopped.is_set)
        res["serve_all_returned"] = stopped.is_set()
        outs = {}

        def w_body():
            try:
                ar.value        # (wait + look at the result: a result completed by the end raises its EOFError here)
                outs[0] = "v"
            except EOFError:
                outs[0] = "eof"
            except BaseException as ex:  # noqa
                outs[0] = "other:" + type(ex).__name__
        tw = threading.Thread(target=w_body, daemon=True, name="real-W")
        tw.start()
        threads.append(tw)
        wait_until(lambda: not tw.is_alive())
        toks.append("w0:Fe")
        res["wait_out"] = outs.get(0)
        res["closed"] = bool(ca.closed)
        res["hooks"] = box["hooks"]["A"]
        res["tables"] = table_sizes(ca)
        try:
            ca.close()
            res["close_again"] = None
        except BaseException as ex:  # noqa
            res["close_again"] = type(ex).__name__
        toks.append("cb")
        res["hooks_after"] = box["hooks"]["A"]
    finally:
        box["release"].set()
        for st in (stra, strb):
            try:
                st.close()
            except Exception:  # noqa
                pass
        for th in threads:
            th.join(1.0)
    res["tokens"] = toks
    return res


def run_real_case(case):
    if case["scenario"] == "abrupt_bg_thread":
        return run_real_bg(case["transport"], case["scenario"])
    if case["scenario"].endswith("two_waiters") or case["scenario"].endswith("serve_threaded") \
            or case["scenario"] == "local_close_while_waiter_blocked":
        return run_real_threads(case["transport"], case["scenario"], case.get("fault"))
    if case.get("fault"):
        return run_real_fault(case["transport"], case["scenario"], case["fault"])
    return run_real(case["transport"], case["scenario"])


def _quiet(fn):
    try:
        fn()
    except BaseException:  # noqa
        pass


def real_view(res):
    if res.get("wait_outs"):
        out = ",".join("%d:%s" % (i, o) for i, o in enumerate(res["wait_outs"]))
    else:
        out = "0:%s" % (res["wait_out"] or "hang")
    tables = "?" if res["tables"] is None else ("T" if sum(res["tables"]) == 0 else "F")
    return "closed=%s hook=%d tables=%s out=%s blocked=0" % ("T" if res["closed"] else "F", res["hooks_after"], tables, out)


def real_model_view(mline):
    pm = parse_model(mline)
    if pm is None:
        return "model " + mline
    if pm["acc"] != pm["total"]:
        return "acc=%d/%d" % (pm["acc"], pm["total"])
    return "closed=%s hook=%d tables=%s out=%s blocked=%d" % (pm["closed"], pm["hook"], pm["tables"],
                                                              ",".join(sorted(pm["out"])), len(pm["blocked"]))


def real_oracle(res):
    """the statement on one real-transport run; None or (text, signature)"""
    where = "%s/%s" % (res["transport"], res["scenario"])
    if res.get("fault"):
        f = res["fault"]
        where += " (%s raising OSError(%s) after %d bytes)" % (f["op"], f["errno"], f["after"])
    if res.get("threads_still_blocked"):
        return ("%s: side A is closed=%s but its thread(s) %s were still blocked %.0f s after the end (requests: %s)"
                % (where, res.get("closed"), res["threads_still_blocked"], REAL_CEILING, res.get("wait_outs")),
                "C11:thread-still-blocked-after-the-end")
    if not res.get("closed_in_time"):
        return ("%s: side A never became closed within %.0f s after %s (hook runs %d, tables %r, pending request: %s)"
                % (where, REAL_CEILING, "its transport failed" if res.get("fault") else "its peer went away",
                   res.get("hooks", 0), res.get("tables"), res.get("wait_out") or res.get("a_out")),
                "C11:side-never-became-closed")
    if res["hooks_after"] != 1:
        return ("%s: disconnect hook ran %d times" % (where, res["hooks_after"]), "C11:hook-count")
    if res["tables"] is not None and sum(res["tables"]) != 0:
        return ("%s: closed but holds %r" % (where, res["tables"]), "C11:tables-not-cleared")
    if res["wait_out"] != "eof":
        return ("%s: the pending request ended with %r, not EOFError" % (where, res["wait_out"]), "C11:hang")
    if not res["a_thread_ended"] or (not res["scenario"].endswith("in_wait") and not res["scenario"].endswith("two_waiters")
                                     and res["scenario"] != "local_close_while_waiter_blocked"
                                     and not res["serve_all_returned"]):
        return ("%s: serve_all()/wait() did not return" % where, "C11:hang")
    if res["close_again"] is not None:
        return ("%s: closing again raised %s" % (where, res["close_again"]), "C11:close-again-raises")
    return None


REAL_FAULTS = [
    # (transport, scenario, op, errno, bytes let through first: 0 = at the start, 2 = inside the 5-byte header, 8 = inside the body)
    ("socket", "io_error_in_wait", "recv", "ECONNRESET", 0), ("socket", "io_error_in_wait", "recv", "EHOSTUNREACH", 0),
    ("socket", "io_error_in_wait", "recv", "ENETDOWN", 2), ("socket", "io_error_in_wait", "recv", "ENOTCONN", 8),
    ("socket", "io_error_in_wait", "recv", "EBADF", 2), ("socket", "io_error_in_wait", "recv", "EHOSTUNREACH", 8),
    ("socket", "io_error_in_serve_all", "recv", "ECONNRESET", 8), ("socket", "io_error_in_serve_all", "recv", "EHOSTUNREACH", 0),
    ("socket", "io_error_in_serve_all", "recv", "ENETDOWN", 0), ("socket", "io_error_in_serve_all", "recv", "ENOTCONN", 2),
    ("socket", "io_error_in_serve_all", "recv", "EBADF", 8), ("socket", "io_error_in_serve_all", "recv", "EHOSTUNREACH", 2),
    ("socket", "io_error_replying", "send", "EPIPE", 0), ("socket", "io_error_replying", "send", "ETIMEDOUT", 0),
    ("socket", "io_error_replying", "send", "ETIMEDOUT", 3), ("socket", "io_error_replying", "send", "EHOSTUNREACH", 3),
    ("socket", "io_error_replying", "send", "ECONNRESET", 0), ("socket", "io_error_replying", "send", "ENETDOWN", 8),
    ("pipe", "io_error_in_wait", "recv", "EIO", 2), ("pipe", "io_error_in_serve_all", "recv", "EBADF", 0),
    ("pipe", "io_error_in_serve_all", "recv", "EIO", 8), ("pipe", "io_error_replying", "send", "EPIPE", 0),
    ("pipe", "io_error_replying", "send", "EIO", 3),
]


def real_cases():
    cases = [dict(kind="real", transport=t, scenario=sc) for t in REAL_TRANSPORTS for sc in REAL_SCENARIOS]
    for t, sc, op, en, after in REAL_FAULTS:
        cases.append(dict(kind="real", transport=t, scenario=sc, fault=dict(op=op, errno=en, after=after)))
    # several threads on one side when the end comes: nobody may stay blocked
    for t in REAL_TRANSPORTS:
        cases.append(dict(kind="real", transport=t, scenario="abrupt_two_waiters"))
        cases.append(dict(kind="real", transport=t, scenario="abrupt_serve_threaded"))
        cases.append(dict(kind="real", transport=t, scenario="abrupt_bg_thread"))
        if t == "socket":
            # (on a pipe a local close() does not wake a thread of the same process that is polling the descriptor:
            # probed separately, see known_probes)
            cases.append(dict(kind="real", transport=t, scenario="local_close_while_waiter_blocked"))
    cases.append(dict(kind="real", transport="socket", scenario="io_error_two_waiters",
                      fault=dict(op="recv", errno="ECONNRESET", after=2)))
    cases.append(dict(kind="real", transport="socket", scenario="io_error_serve_threaded",
                      fault=dict(op="recv", errno="EHOSTUNREACH", after=0)))
    return cases


# ---------------------------------------------------------------------------------------------- direct oracle
def oracle(h):
    """the property restated on ONE real run (no model); None if it holds, else (text, signature)"""
    ev = h.rec.events
    if h.hang:
        return ("a request hung: the network reported a deadlock (all sides blocked without deadline)", "C11:hang")
    for side in "AB":
        # did this side close, was it told to close, or did it meet a failure WHILE SERVING?  Then it must report
        # closed (hook run once) as soon as control is back in the application, and at snapshot 1 at the latest
        must1 = False
        reason = None
        awaiting = False
        for e in ev:
            if e["t"] == "snapshot" and e["n"] == 1:
                if awaiting:
                    must1, reason = True, reason or "a response could not be sent"
                break
            if e.get("side") != side:
                continue
            t = e["t"]
            if t == "api_ret":
                if awaiting and e["what"] != "close":
                    must1, reason, awaiting = True, reason or "a response could not be sent", False
                if must1 and not e["closed"]:
                    sig = ("C11:eof-while-delivering-response-leaves-open" if "being delivered" in reason else
                           "C11:reply-send-failure-leaves-open" if "response" in reason else "C11:not-closed")
                    return ("side %s: %s, but closed == False when control returned to the application (hook runs %d)"
                            % (side, reason, e["hooks"]), sig)
                if e["closed"] and e["hooks"] != 1 and e["what"] != "close-inner":
                    return ("side %s reports closed with %d hook runs when control returned to the application"
                            % (side, e["hooks"]), "C11:closed-without-hook")
                continue
            if t == "api_close_end":
                must1, reason = True, "close() returned"
            elif t == "recvbody" and not (e.get("eof") or e.get("faulted")):
                pass
            elif t == "recv" and e.get("handler") == consts.HANDLE_CLOSE and not (e.get("eof") or e.get("faulted")) \
                    and e.get("cut") is None:
                must1, reason = True, "the peer's close was received"
            elif t == "serve_all_exit":
                must1, reason = True, "serve_all() ended"
            elif t in ("recv", "recvbody", "poll") and (e.get("eof") or e.get("faulted") or
                                                        (t == "poll" and e["own_closed"])):
                must1, reason = True, "EOF / I/O error while receiving (%s)" % t
            elif t == "write" and e["msg"] != consts.MSG_REQUEST and not e["ok"]:
                must1, reason = True, "failure while a response was being written"
            elif t == "write" and e["msg"] == consts.MSG_REQUEST and not e["ok"] and not e["own_closed"] \
                    and e.get("nested") in (consts.MSG_REPLY, consts.MSG_EXCEPTION) \
                    and e.get("handler") not in (consts.HANDLE_DEL, consts.HANDLE_CLOSE):
                must1, reason = True, "a request made while a response was being delivered (inside serve()) could not be written"
            if t == "finish":
                awaiting = True
            elif t == "write" and e["msg"] != consts.MSG_REQUEST:
                awaiting = False
        s1, s2 = h.snap[1][side], h.snap[2][side]
        if must1 and not s1["closed"]:
            sig = ("C11:eof-while-delivering-response-leaves-open" if "being delivered" in reason else
                   "C11:reply-send-failure-leaves-open" if "response" in reason else
                   "C11:serve-all-exit-leaves-open" if "serve_all" in reason else "C11:not-closed")
            return ("side %s: %s, but closed == False after the workload (hook runs %d)" % (side, reason, s1["hooks"]), sig)
        for n, s in ((1, s1), (2, s2)):
            if "AttributeError" in s["close_results"]:
                return ("side %s: close() raised AttributeError (a second _cleanup of the same connection)" % side,
                        "C11:close-raises-attributeerror")
            if s["hooks"] > 1:
                return ("side %s: disconnect hook ran %d times" % (side, s["hooks"]), "C11:hook-twice")
            if s["closed"] and s["hooks"] != 1:
                return ("side %s reports closed but its disconnect hook ran %d times" % (side, s["hooks"]), "C11:closed-without-hook")
            if s["closed"] and s["tables"] is not None and sum(s["tables"]) != 0:
                boxed_late = any(e["t"] == "api_req" and e["side"] == side and e["ref"] and e["own_closed"] for e in ev) \
                    or h.workload == "close_in_callback_ref"
                sig = "C11:box-after-close-holds-objects" if (s["tables"][0] and boxed_late and sum(s["tables"][1:]) == 0) \
                    else "C11:raising-disconnect-hook-skips-cleanup" if h.hook_raises.get(side) \
                    else "C11:tables-not-cleared"
                return ("side %s is closed but holds (local objects, proxies, callbacks) = %r" % (side, s["tables"]), sig)
            if s["closed"] and s.get("unready"):
                return ("side %s reports closed but the result(s) of %r, pending when it ended, are not ready (and not expired): "
                        "`ready`/`error` stay False, add_callback functions never run, `while not ar.ready:` never ends"
                        % (side, s["unready"][:4]), "C11:pending-result-never-completed-after-end")
            twice = [lb for lb, k in s.get("ended", {}).items() if k > 1]
            if twice:
                return ("side %s: the callback of %r was told about the end %d times" % (side, twice[:3], s["ended"][twice[0]]),
                        "C11:end-callback-twice")
        # the last close() of the after-phase is a second close: a no-op
        if side == "A" or h.b_finished():
            if not s2["closed"]:
                return ("side %s is not closed after close()" % side, "C11:not-closed")
            if s2["close_results"] and s2["close_results"][-1] is not None:
                return ("side %s: closing again raised %s" % (side, s2["close_results"][-1]), "C11:close-again-raises")
    # requests: a value only if the peer sent it; after the end only EOFError or the own timeout
    sent_vals = {}
    for e in ev:
        if e["t"] == "write" and e["ok"] and e["msg"] in (consts.MSG_REPLY, consts.MSG_EXCEPTION):
            sent_vals.setdefault((e["side"], e["seq"]), frame_val(e))
    label_seq = {}
    for e in ev:
        if e["t"] == "write" and e.get("label") is not None and e["msg"] == consts.MSG_REQUEST:
            label_seq[e["label"]] = (e["side"], e["seq"], e["own_closed"])
    for label, lst in h.snap[2]["A"]["outcomes"].items():
        if len(lst) != 1:
            return ("request %s has %d outcomes %r" % (label, len(lst), lst), "C11:request-outcomes")
        o = lst[0]
        if o.startswith("other:") or o == "hang":
            return ("request %s ended with %s (neither a response, EOFError nor its timeout)" % (label, o), "C11:wrong-exception")
        if o.startswith("v"):
            info = label_seq.get(label)
            if info is None:
                return ("request %s returned a value although it never reached the transport" % label, "C11:unsent-value")
            side, seq, _oc = info
            peer = "B" if side == "A" else "A"
            if sent_vals.get((peer, seq)) != int(o[1:]):
                return ("request %s returned %s, the peer sent %r" % (label, o, sent_vals.get((peer, seq))), "C11:unsent-value")
    # every asynchronous result was resolved by the after-phase
    for label in h.asyncs:
        if label not in h.snap[2]["A"]["outcomes"]:
            return ("asynchronous request %s was never resolved" % label, "C11:hang")
    # requests issued after the side reported closed fail with EOFError
    closed_seen = {"A": False, "B": False}
    for e in ev:
        if e["t"] == "api_close_end":
            closed_seen[e["side"]] = True
        if e["t"] == "api_req" and closed_seen.get(e["side"]):
            o = h.snap[2]["A"]["outcomes"].get(e["label"], ["?"])[0]
            if o not in ("eof", "timeout"):
                return ("request %s issued after close() ended with %s" % (e["label"], o), "C11:after-close-not-eof")
    if h.notes:
        return ("harness-level exception: %s" % h.notes[:2], "C11:harness-exception")
    return None


def oracle_search(ctx, corr, broken):
    deadline = time.time() + ctx.budget(60, 600)

    def check(wname, f):
        try:
            h = Harness(wname, f).execute()
        except Exception:  # noqa
            return None
        res = oracle(h)
        if res and res[1] not in getattr(ctx, "known_signatures", set()):
            return (dict(kind="fault", workload=wname, fault=f, fired=h.fired), res[0], res[1])
        return None

    def check_real(case):
        res = run_real_case(case)
        if real_oracle(res):
            res = run_real_case(case)         # repeated once before it is believed
        r = real_oracle(res)
        if r and r[1] not in getattr(ctx, "known_signatures", set()):
            return (case, r[0], r[1])
        return None

    for d in corr.disagreements[:80]:
        cs = d.get("case", {})
        if cs.get("kind") == "real":
            r = check_real(cs)
            if r:
                return r
    for d in corr.disagreements[:80]:
        cs = d.get("case", {})
        if "workload" in cs:
            r = check(cs["workload"], cs.get("fault"))
            if r:
                return r
    for wname in WORKLOADS:
        if time.time() > deadline:
            break
        r = check(wname, None)
        if r:
            return r
    for case in real_cases():
        r = check_real(case)
        if r:
            return r
    for wname in WORKLOADS:
        try:
            _h0, faults = fault_points(wname, "some")
        except Exception:  # noqa
            continue
        for f in faults:
            if time.time() > deadline:
                return None
            r = check(wname, f)
            if r:
                return r
    return None


PIPE_LOCAL_CLOSE_SIGNATURE = "C11:pipe-local-close-does-not-wake-other-thread"


def known_probes(ctx):
    """PipeStream: thread 1 closes the connection while thread 2 is blocked in serve() waiting for a reply and the peer is
    silent.  PipeStream.close() closes the descriptors, which does not wake a poll() of the same process on them (there
    is no shutdown() for pipes): thread 2 stays blocked until the peer speaks or its own timeout.  Run only once the
    finding is listed in known_findings.json (status known: reported as KNOWN-FINDING; status fixed: a violation if it
    comes back)."""
    import json
    import os
    try:
        with open(os.path.join(os.path.dirname(os.path.abspath(__file__)), "..", "..", "known_findings.json")) as f:
            listed = [k for k in json.load(f).get("findings", []) if k.get("signature") == PIPE_LOCAL_CLOSE_SIGNATURE]
    except Exception:  # noqa
        listed = []
    if not listed:
        return []
    global REAL_CEILING
    saved = REAL_CEILING
    REAL_CEILING = 2.0
    try:
        res = run_real_case(dict(kind="real", transport="pipe", scenario="local_close_while_waiter_blocked"))
    finally:
        REAL_CEILING = saved
    r = real_oracle(res)
    out = []
    # the known finding is ONE symptom: the other thread is still blocked after the local close.  Everything else the
    # statement says about this run (closed, hook once, all tables empty, closing again quiet) is judged as usual - a
    # failure there is not the known finding and is reported under its own signature (not listed: a violation)
    blocked = bool(res.get("threads_still_blocked"))
    out.append((PIPE_LOCAL_CLOSE_SIGNATURE, blocked,
                (r[0] if (r and blocked) else "pipe: the blocked thread was released by the local close")))
    where = "pipe/local_close_while_waiter_blocked"
    other = None
    if not res.get("closed_in_time") or not res.get("closed"):
        other = ("%s: side A did not become closed by its own close()" % where, "C11:side-never-became-closed")
    elif res.get("hooks_after") != 1:
        other = ("%s: disconnect hook ran %r times" % (where, res.get("hooks_after")), "C11:hook-count")
    elif res.get("tables") is None or sum(res["tables"]) != 0:
        other = ("%s: closed but holds %r" % (where, res.get("tables")), "C11:tables-not-cleared")
    elif res.get("close_again") is not None:
        other = ("%s: closing again raised %s" % (where, res["close_again"]), "C11:close-again-raises")
    elif r and not blocked:
        other = r
    if other:
        out.append((other[1] + "@pipe-local-close", True, other[0]))
    return out


def replay(case):
    if case.get("kind") == "real":
        res = run_real_case(case)
        line = "life run " + " ".join(res["tokens"])
        try:
            got = run_driver([line], exe="drv_proto")[0]
        except DriverError as ex:
            got = "driver: %s" % ex
        r = real_oracle(res)
        return dict(case=case, implementation=real_view(res), model=real_model_view(got), model_ops=line,
                    observed=dict((k, v) for k, v in res.items() if k != "tokens"), oracle=r[0] if r else "holds")
    wname, f = case["workload"], case.get("fault")
    h, lines, metas = run_case(wname, f)
    out = dict(case=case, fired=h.fired, notes=h.notes, hang=h.hang)
    try:
        outs = run_driver(lines, exe="drv_proto")
    except DriverError as ex:
        outs = ["driver: %s" % ex] * len(lines)
    out["sides"] = []
    for (side, n, ids), line, got in zip(metas, lines, outs):
        impl, mod = compare(h, side, n, ids, got)
        out["sides"].append(dict(side=side, snapshot=n, implementation=impl, model=mod, model_ops=line))
    res = oracle(h)
    out["oracle"] = res[0] if res else "holds"
    return out
