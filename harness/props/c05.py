"""C05 — packets arrive whole, in order and unaltered under any fragmentation.

Correspondence: the REAL `rpyc.core.channel.Channel` over the REAL `SocketStream` / `PipeStream`, with a
scripted socket (`faults.FakeSocket`) or scripted `os.read`/`os.write` (`faults.patched_stream_os`)
underneath, against `Rpyc.Wire` (lean/RpycModel/Wire/Model.lean) through the compiled driver `drv_wire`.
The same script text drives both.  zlib is opaque in the model: the real `zlib.compress` output of every
packet travels on the op line as the oracle value of `z.compress`.

Direct oracle (real code only): what was received is what was sent — or a prefix of it followed by
`EOFError` with the stream closed.
"""
import contextlib
import time
import zlib

import faults
import wire_kernel
from faults import FakePipe, FakeSocket, Script, ScriptExhausted, patched_stream_os
from lineproto import run_driver, DriverError
from pipeline import Corr
from prng import Rng
from valtext import err_name

ID = "C05"
LEAN_MODULE = "RpycModel.Props.C05All"   # C05 theorems + their composition with brine (Compose/EndToEnd.lean)
NAMESPACE = "Rpyc.Props.C05"
GEN = ["Wire.lean", "Brine.lean"]
DRIVERS = ["drv_wire"]
TRUSTED = [
    "modelled, not verified: zlib is an opaque pair (compress, decompress) with the single law "
    "decompress(compress(b)) = b (structure Rpyc.Wire.Zlib); the driver is fed the real zlib output",
    "modelled, not verified: the kernel's socket/pipe behaviour is replaced by scripts (harness/faults.py): every "
    "answer recv/send/os.read/os.write/poll/fileno/close can give is a script event (partial length, socket.timeout, "
    "OSError(errno), end of stream, select error, refused descriptor, failing close); a script that runs out stands "
    "for a call that blocks forever. Tie to the real kernel: transfers over a real socketpair / real os.pipe pairs "
    "(harness/wire_kernel.py: small SO_SNDBUF/SO_RCVBUF/pipe size, capped random fragment sizes, partial writes, "
    "non-blocking reader with real EAGAIN, peer close mid-frame, ECONNRESET, EPIPE at the writer) whose recorded "
    "call traces are replayed as scripts through the model and must give the same packets, exception and closed state",
    "modelled, not verified: struct '!LB' packing = big-endian fixed-width fields (widths generated from "
    "FRAME_HEADER.format); the interpreter's mapping OSError(errno) -> subclass (BlockingIOError, TimeoutError = "
    "socket.timeout) is read from the live interpreter into Gen.timeoutErrnos; select.error is OSError",
    "modelled, not verified: a descriptor object whose close() raised is closed all the same (as CPython's socket "
    "and file objects are): afterwards socket recv/send/fileno raise EBADF and file.fileno() raises ValueError",
]
ASSUMPTIONS = [
    "payloads of 2**32 bytes or more (struct.error in FRAME_HEADER.pack) are excluded by the explicit guard `Fits` "
    "and not generated",
    "a stream subclass with MAX_IO_CHUNK < FRAME_HEADER.size (negative part1) is not modelled",
    "PIPE + WOULD-BLOCK (deviation by the letter, KNOWN FINDING c05:pipe-wouldblock-is-fatal, see C05_pipe_wouldblock_counterexample): PipeStream.read has no "
    "retry, so an EAGAIN/timeout reported by os.read on a pipe is fatal (EOFError + closed, packet lost). The claim "
    "'whatever transient would-block or timeout conditions' is proved for sockets (C05_transients_socket) and, for "
    "pipes, only for scripts of data events (C05_pipe_partial); safety (prefix, then EOFError + closed) holds for both. "
    "A real pipe reports EAGAIN only if O_NONBLOCK is set on its read end by the application or through a shared open "
    "file description; rpyc creates its pipes blocking and never sets it (real-pipe demonstration in the evidence). "
    "Same class, same finding: TLS streams (ssl-wrapped sockets under SocketStream) are NOT modelled; on a "
    "non-blocking TLS socket a would-block is reported as ssl.SSLWantReadError (an OSError with errno 2, not EAGAIN), "
    "which is not in retry_errnos, so it is fatal as well (probed on every run over an anonymous-DH TLS session, "
    "no certificates; text in the evidence). Noted, not claimed: SocketStream.ssl_connect calls ssl.wrap_socket, which "
    "does not exist on Python 3.12 (environmental; test_ssl fails in the baseline for it); the 3 s connect timeout "
    "SocketStream.connect leaves on the socket makes a send blocked longer than that fatal (write treats a timeout as "
    "fatal: conforming to 'EOFError + closed'); an ASYNCHRONOUS exception (KeyboardInterrupt) raised inside recv() "
    "leaves an open stream in mid-frame, so the next recv() is out of step - outside the statement (transport "
    "behaviour only) and outside the model",
    "'EOFError + closed' is claimed for failures met by read/write (recv/send). EXCLUDED: (a) a failure reported by "
    "Stream.poll itself - a failing poll() call other than EINTR or a descriptor register() refuses is re-raised as "
    "select_error with the stream left open; SocketStream.fileno re-raises a non-EBADF socket.error after closing "
    "(OSError, closed) and maps only EBADF to EOFError (modelled: Rpyc.Wire.dPoll, theorem poll_failure_is_not_eof_closed). "
    "On Linux sockets/pipes a dead or reset peer makes poll() answer 'readable' and the failure is then met by read "
    "(kernel probes in the evidence); the poll-error paths need a descriptor the application itself invalidated. "
    "(b) the descriptor's own close() raising inside the failure path of read/write/fileno: that OSError propagates "
    "instead of EOFError and stream.closed stays False (SocketStream.close / PipeStream.close assign ClosedFile only "
    "after the close() calls; modelled: Rpyc.Wire.dClose, theorem close_failure_is_not_eof_closed); a later read/write "
    "on the socket then closes cleanly with EOFError, on a pipe it raises ValueError (fileno() of the closed file "
    "object is not an EnvironmentError). No packet RETURNED by recv is ever altered (duplex_recv_is_recvPacket); but when "
    "only incoming.close() of a pipe pair failed, the write end stays usable, so a send() after a half-written frame "
    "puts a whole frame behind a partial one and the peer can no longer parse the stream (seen in the duplex cases, "
    "model agrees) - part of this excluded case",
    "thread-safety of a shared channel is C12/C13's subject; the duplex cases interleave calls of one thread, the "
    "kernel runs use one writer thread and one reader thread on separate streams",
    "TunneledSocketStream.close, Win32PipeStream and NamedPipeStream (platform-specific) are not modelled",
]
EXPLANATION = (
    "Theorems (all scripts, packet lists and sizes unbounded): concat(sendWrites) = frame; read(n) yields exactly the "
    "next n bytes, or EOFError+closed, or is still blocked; recvAll_frames: every failure-free fragmentation (any "
    "split/coalescing, timeouts/EAGAIN anywhere) delivers exactly the packets sent; recvAll_prefix: under EVERY script "
    "and for ANY prefix of the sent stream only whole packets in order are returned, then EOFError+closed; writeAll / "
    "sendAll_prefix: the transport has accepted a prefix of the frames, all of them whenever send returned (the converse is not stated), else "
    "EOFError+closed; transfer_exact / transfer_safe: both ends composed. zlib enters only through its round-trip law. "
    "Duplex layer (one stream, send/recv/poll/close in any order, failing close()): every packet recv returns is the "
    "one recvPacket returns (duplex_recv_is_recvPacket); send and poll never touch the incoming stream; poll's "
    "outcomes are classified and the two places where a failure is NOT 'EOFError + closed' are exhibited "
    "(poll_failure_is_not_eof_closed, close_failure_is_not_eof_closed). The would-block clause is proved for sockets "
    "and refuted by the letter for pipes (C05_pipe_wouldblock_counterexample, C05_pipe_partial). NOT proved: a "
    "whole-run invariant for arbitrary duplex call sequences (the per-call lemmas are what is proved). Remark "
    "(lemma level): a channel's frames depend only on that channel's packets - `frame`, `sendWrites`, `chanSend`, "
    "`recvPacket` are functions of the channel's own arguments and stream state, so two channels share no state in the "
    "model BY CONSTRUCTION; that the code has none either (no class-level or module-level scratch state in "
    "Channel/SocketStream/PipeStream) is what the two-channel correspondence checks: channel A's send/recv is preempted "
    "at every bytecode instruction inside Channel.send/recv and the stream's read/write/close by a complete call on an "
    "independent channel B, and each channel must behave exactly as the model of that channel alone.")


def mods():
    from rpyc.core import channel, stream
    return channel, stream


# ----------------------------------------------------------------------------------------------- real code side
_CLS = {}


def stream_class(kind, mx):
    """the real stream class with `write` calls logged, optionally with another MAX_IO_CHUNK"""
    key = (kind, mx)
    if key not in _CLS:
        _channel, S = mods()
        base = S.SocketStream if kind == "sock" else S.PipeStream

        class Logged(base):
            def __init__(self, *a):
                self.writes = []
                base.__init__(self, *a)

            def write(self, data):
                self.writes.append(bytes(data))
                return base.write(self, data)
        if mx is not None:
            Logged.MAX_IO_CHUNK = mx
        Logged.__name__ = "Logged" + base.__name__
        _CLS[key] = Logged
    return _CLS[key]


def max_of(kind, mx):
    return stream_class(kind, mx).MAX_IO_CHUNK


@contextlib.contextmanager
def open_stream(kind, mx, wire=b"", rscript=(), sscript=(), pscript=None, close_fault=None, shutdown_fault=False):
    cls = stream_class(kind, mx)
    ps = None if pscript is None else Script(pscript)
    if kind == "sock":
        tr = FakeSocket(wire=wire, recv_script=Script(rscript), send_script=Script(sscript), poll_script=ps,
                        close_fault=bool(close_fault), shutdown_fault=shutdown_fault)
        with patched_stream_os(tr):
            yield cls(tr), tr
    else:
        tr = FakePipe(wire=wire, recv_script=Script(rscript), send_script=Script(sscript), poll_script=ps,
                      close_fault=close_fault)
        with patched_stream_os(tr):
            yield cls(tr.incoming, tr.outgoing), tr


def tf(b):
    return "T" if b else "F"


def closed_text(stream, tr):
    """`stream.closed`, marked when the underlying descriptor's state differs from it"""
    return tf(stream.closed) + ("" if bool(tr.closed) == bool(stream.closed) else "!transport-%s" % tf(tr.closed))


def run_send(kind, cs, mx, packets, sscript):
    channel, _S = mods()
    with open_stream(kind, mx, sscript=sscript) as (stream, tr):
        chan = channel.Channel(stream, compress=cs)
        n, end, marks = 0, "done", [0]
        for p in packets:
            try:
                chan.send(p)
            except ScriptExhausted:
                end = "starved"
                break
            except Exception as ex:  # noqa
                end = err_name(ex)
                break
            n += 1
            marks.append(len(stream.writes))
        return dict(n=n, end=end, closed=closed_text(stream, tr), left=tr.send_script.remaining(),
                    sent=bytes(tr.sent), writes=list(stream.writes), marks=marks)


def run_recv(kind, cr, mx, wire, rscript, ncalls):
    channel, _S = mods()
    with open_stream(kind, mx, wire=wire, rscript=rscript) as (stream, tr):
        chan = channel.Channel(stream, compress=cr)
        got, end = [], "done"
        for _ in range(ncalls):
            try:
                got.append(chan.recv())
            except ScriptExhausted:
                end = "starved"
                break
            except Exception as ex:  # noqa
                end = err_name(ex)
                break
        return dict(got=got, end=end, closed=closed_text(stream, tr), left=tr.recv_script.remaining(),
                    rest=tr.wire_left())


def run_reads(kind, mx, wire, rscript, counts):
    with open_stream(kind, mx, wire=wire, rscript=rscript) as (stream, tr):
        out = []
        for n in counts:
            try:
                out.append("ok:x" + stream.read(n).hex())
            except ScriptExhausted:
                out.append("starved")
            except Exception as ex:  # noqa
                out.append(err_name(ex))
        return dict(results=out, closed=closed_text(stream, tr), left=tr.recv_script.remaining(), rest=tr.wire_left())


def run_swrites(kind, mx, sscript, datas):
    with open_stream(kind, mx, sscript=sscript) as (stream, tr):
        out = []
        for d in datas:
            try:
                stream.write(d)
                out.append("ok")
            except ScriptExhausted:
                out.append("starved")
            except Exception as ex:  # noqa
                out.append(err_name(ex))
        return dict(results=out, closed=closed_text(stream, tr), left=tr.send_script.remaining(), sent=bytes(tr.sent))


def xname(ex):
    """exception classes as the duplex model names them: every OSError that is not EOFError is 'OSError'"""
    if isinstance(ex, EOFError):
        return "EOFError"
    if isinstance(ex, OSError):
        return "OSError"
    return err_name(ex)


def run_duplex(case, packets_out):
    """ONE real stream (and channel) used in both directions, calls in the order of case['ops'], continuing after
    exceptions; `packets_out` are the materialised packets of the S ops, in order"""
    channel, _S = mods()
    kind = "pipe" if case["pipe"] else "sock"
    with open_stream(kind, case["max"], wire=bytes.fromhex(case["wire"]), rscript=case["rscript"],
                     sscript=case["sscript"], pscript=case["pscript"], close_fault=case["fault"] or None,
                     shutdown_fault=case.get("shutdown_fault", False)) as (stream, tr):
        chan = channel.Channel(stream, compress=case["c"])
        out, it = [], iter(packets_out)
        for op in case["ops"]:
            try:
                if op[0] == "S":
                    chan.send(next(it))
                    out.append("ok")
                elif op == "R":
                    out.append("ok:x" + chan.recv().hex())
                elif op == "P":
                    out.append(tf(stream.poll(0)))
                elif op == "C":
                    stream.close()
                    out.append("ok")
                elif op[0] == "r":
                    out.append("ok:x" + stream.read(int(op[1:])).hex())
                elif op[0] == "w":
                    stream.write(bytes.fromhex(op[2:]))
                    out.append("ok")
                else:
                    raise ValueError(op)
            except ScriptExhausted:
                out.append("starved")
            except Exception as ex:  # noqa
                out.append(xname(ex))
        return dict(results=out, closed=tf(stream.closed), rleft=tr.recv_script.remaining(),
                    sleft=tr.send_script.remaining(), pleft=tr.poll_script.remaining(), rest=tr.wire_left(),
                    sent=bytes(tr.sent))


# ------------------------------------------------------------------------- two channels, preemption at every instruction
import sys as _sys


def run_stepped(action, codes, on_step):
    """run action(), calling on_step() before every bytecode instruction executed inside one of the code objects
    `codes` (the points at which the interpreter may switch to another thread); instructions executed by on_step
    itself are not points"""
    busy = [False]
    if hasattr(_sys, "monitoring"):
        mon = _sys.monitoring
        tool = None
        for cand in (mon.DEBUGGER_ID, mon.PROFILER_ID, mon.OPTIMIZER_ID, 3, 4):
            try:
                mon.use_tool_id(cand, "c05-two-channels")
                tool = cand
                break
            except ValueError:
                continue
        if tool is None:
            raise RuntimeError("no free sys.monitoring tool id")

        def on_instruction(code, offset):
            if busy[0]:
                return
            busy[0] = True
            try:
                on_step()
            finally:
                busy[0] = False
        mon.register_callback(tool, mon.events.INSTRUCTION, on_instruction)
        for c in codes:
            mon.set_local_events(tool, c, mon.events.INSTRUCTION)
        try:
            return action()
        finally:
            for c in codes:
                mon.set_local_events(tool, c, 0)
            mon.register_callback(tool, mon.events.INSTRUCTION, None)
            mon.free_tool_id(tool)
    codeset = set(codes)

    def local(frame, event, arg):
        if event == "opcode" and not busy[0]:
            busy[0] = True
            try:
                on_step()
            finally:
                busy[0] = False
        return local

    def tracer(frame, event, arg):
        if event == "call" and frame.f_code in codeset and not busy[0]:
            frame.f_trace_opcodes = True
            return local
        return None
    old = _sys.gettrace()
    _sys.settrace(tracer)
    try:
        return action()
    finally:
        _sys.settrace(old)


def traced_codes(kind, mx):
    channel, S = mods()
    cls = stream_class(kind, mx)
    base = S.SocketStream if kind == "sock" else S.PipeStream
    return [channel.Channel.send.__code__, channel.Channel.recv.__code__, base.read.__code__, base.write.__code__,
            base.close.__code__, cls.write.__code__]


def run_two_channels(case, k):
    """Channel A performs case['a_op'] ('send' | 'recv'); at the k-th instruction inside Channel.send/recv or the
    stream's read/write/close of that call, 'another thread' performs a complete case['b_op'] on the independent
    channel B.  k = None: no preemption.  Returns (fired, observation of A, observation of B)."""
    channel, _S = mods()
    kind, mx = case["kind"], case["max"]
    pa, pb = make_packet(case["pa"]), make_packet(case["pb"])
    wa = run_send("sock", case["ca"], mx, [pa], ["a%d*9" % BIG])["sent"]
    wb = run_send("sock", case["cb"], mx, [pb], ["a%d*9" % BIG])["sent"]
    with open_stream(kind, mx, wire=wa, rscript=["c%d*%d" % (BIG, len(wa) + 3)], sscript=["a%d*%d" % (BIG, len(wa) + 3)]) as (sa, ta):
        with open_stream(kind, mx, wire=wb, rscript=["c%d*%d" % (BIG, len(wb) + 3)], sscript=["a%d*%d" % (BIG, len(wb) + 3)]) as (sb, tb):
            # (the second patch is nested: both descriptors must stay registered; re-register the first pair)
            cha, chb = channel.Channel(sa, compress=case["ca"]), channel.Channel(sb, compress=case["cb"])
            obs = {}

            def do(name, chan, op, pkt):
                try:
                    obs[name] = "sent" if op == "send" and chan.send(pkt) is None else "ok:x" + chan.recv().hex() if op == "recv" else "?"
                except ScriptExhausted:
                    obs[name] = "starved"
                except Exception as ex:  # noqa
                    obs[name] = xname(ex)
            state = dict(n=0, fired=False)

            def on_step():
                if state["n"] == k and not state["fired"]:
                    state["fired"] = True
                    do("B", chb, case["b_op"], pb)
                state["n"] += 1
            if k is None:
                do("A", cha, case["a_op"], pa)
                do("B", chb, case["b_op"], pb)
                state["fired"] = True
            else:
                run_stepped(lambda: do("A", cha, case["a_op"], pa), traced_codes(kind, mx), on_step)
            return state["fired"], (obs.get("A"), bytes(ta.sent), tf(sa.closed)), (obs.get("B"), bytes(tb.sent), tf(sb.closed))


def two_channel_points(case, limit=5000):
    """every preemption point of the case: list of (k, obsA, obsB)"""
    out = []
    k = 0
    while k < limit:
        fired, oa, ob = run_two_channels(case, k)
        if not fired:
            break
        out.append((k, oa, ob))
        k += 1
    return out


def two_channel_property(case, points=None):
    """per channel: what the transport accepted decodes to exactly that channel's packet / recv returned exactly
    that channel's packet, wherever the other channel's call was interleaved"""
    pa, pb = make_packet(case["pa"]), make_packet(case["pb"])
    for k, oa, ob in (points if points is not None else two_channel_points(case)):
        for name, op, pkt, (res, sent, closed) in (("A", case["a_op"], pa, oa), ("B", case["b_op"], pb, ob)):
            if op == "send":
                if res != "sent":
                    return "channel %s: send raised %s when the other channel's %s ran at instruction #%d of its call" % (
                        name, res, case["b_op"] if name == "A" else case["a_op"], k)
                back = run_recv("sock", False, case["max"], sent, ["c%d*%d" % (BIG, len(sent) + 3)], 1)
                if back["got"] != [pkt]:
                    return ("channel %s sent a %d-byte packet but its receiver gets %s (%s): the other channel's call ran at "
                            "instruction #%d of channel A's %s" % (name, len(pkt), [len(g) for g in back["got"]], back["end"],
                                                                   k, case["a_op"]))
            elif res != "ok:x" + pkt.hex():
                return "channel %s: recv gave %s instead of its own %d-byte packet (other channel interleaved at #%d)" % (
                    name, (res or "")[:40], len(pkt), k)
    return None


# ----------------------------------------------------------------------------------------------- packets
def make_packet(spec):
    """spec = [size, 'c' | 'r', seed] (compressible pattern / pseudo-random bytes) or ['hex', text]"""
    if spec[0] == "hex":
        return bytes.fromhex(spec[1])
    n, k, seed = spec
    if k == "c":
        return bytes(((i * 7 + seed) % 251) for i in range(n)) if n < 4096 else \
            (bytes(((i * 7 + seed) % 251) for i in range(251)) * (n // 251 + 1))[:n]
    return Rng(seed * 7919 + n).bytes(n)


_ZCACHE = {}


def compressed(p):
    channel, _S = mods()
    r = _ZCACHE.get(p)
    if r is None:
        r = zlib.compress(p, channel.Channel.COMPRESSION_LEVEL)
        if len(_ZCACHE) > 400:
            _ZCACHE.clear()
        _ZCACHE[p] = r
    return r


def pkt_token(p, with_z):
    return "Z%s:%s" % (p.hex(), compressed(p).hex()) if with_z else "P" + p.hex()


def size_class(n):
    channel, S = mods()
    t = channel.Channel.COMPRESSION_THRESHOLD
    m = S.SocketStream.MAX_IO_CHUNK
    edge = m - channel.Channel.FRAME_HEADER.size - len(channel.Channel.FLUSHER)
    if n <= 1:
        return str(n)
    for name, v in (("thr", t), ("edge", edge), ("chunk", m)):
        if n in (v - 1, v, v + 1):
            return "%s%+d" % (name, n - v)
    if n < t:
        return "small"
    if n < edge:
        return "mid"
    return "big" if n < 3 * m else "huge"


# ----------------------------------------------------------------------------------------------- scenarios
BIG = 10 ** 6
SOCK_NOISE = ["t", faults.EAGAIN, faults.ETIMEDOUT]       # everything SocketStream.read retries on
SOCK_TRANSIENT = ["t", faults.EAGAIN]                     # what the STATEMENT calls transient (judged for completeness)
# errnos a dead or broken transport can report beyond reset / broken pipe (each must be fatal, none retried)
import errno as _errno
OTHER_ERRNOS = ["e%d" % e for e in (_errno.EIO, _errno.ENOMEM, _errno.EINVAL, _errno.ECONNABORTED, _errno.ENOBUFS,
                                      _errno.ENOTCONN, _errno.EHOSTUNREACH, _errno.ENETDOWN, _errno.ENETRESET,
                                      _errno.ECONNREFUSED, _errno.ESHUTDOWN, _errno.EINPROGRESS, _errno.EALREADY,
                                      _errno.EINTR, _errno.EBADF, 2, 1)]


def sock_noise(r):
    """3 scripts in 4 use only the statement's transient events (and are judged for completeness by the oracle)"""
    return SOCK_TRANSIENT if r.below(4) else SOCK_NOISE




def family_script(r, family, total, kind, side):
    """a failure-free script of the named family for `total` bytes; side 'c' (receive) or 'a' (send).
    (`SocketStream.write` re-slices the remaining data after every partial send, so one-byte sends of a
    large packet cost quadratic time in the real code: large sends use pieces of at least 977 bytes.)"""
    noise = sock_noise(r) if (kind == "sock" and side == "c") else []
    small = 1 if (side == "c" or total < 20000) else 977
    if family == "whole":
        return ["%s%d*%d" % (side, BIG, total + 3)]
    if family == "dribble":
        return faults.dribble(total, small, side)
    if family == "dribble+noise":
        out = []
        for _ in range(min(total + 3, 40)):
            out += [r.choice(noise) if noise else "%s1" % side, "%s%d" % (side, small)]
        return out + faults.dribble(total, small, side)
    if family == "pieces":
        k = r.choice([2, 3, 5, 6, 977, 4096, 63999, 64000, 64001])
        return faults.dribble(total, max(k, small), side)
    return faults.random_benign(r, total, side, noise=noise,
                                reserves=(1, 1, 7, 977, 64000, 100000) if small == 1 else (977, 64000, 100000))


FAMILIES = ["whole", "dribble", "dribble+noise", "pieces", "random", "random"]


def wire_bound(packets):
    """an upper bound on the bytes a packet list can occupy on the wire (statement-level: header + flusher per
    packet, zlib may expand incompressible data slightly)"""
    return sum(len(p) + len(p) // 1000 + 80 for p in packets)


def boundary_sizes():
    channel, S = mods()
    t = channel.Channel.COMPRESSION_THRESHOLD
    m = S.SocketStream.MAX_IO_CHUNK
    edge = m - channel.Channel.FRAME_HEADER.size - len(channel.Channel.FLUSHER)
    return [0, 1, 2, 5, t - 1, t, t + 1, edge - 1, edge, edge + 1, m - 1, m, m + 1, 200000]


def gen_transfer_cases(r, ctx):
    """yield case dicts of op 'xfer' (send a list of packets through one scripted transport, receive what the
    first transport accepted through another)"""
    sizes = boundary_sizes()
    # S1: every boundary size, alone, compressible or not, compression on/off at each end, both stream kinds
    k = 0
    for size in sizes:
        for comp in ("c", "r"):
            for cs in (True, False):
                for kind in ("sock", "pipe"):
                    k += 1
                    big = size > 20000
                    fams = [FAMILIES[k % len(FAMILIES)]] if big and ctx.tier != "thorough" else \
                        [FAMILIES[k % len(FAMILIES)], FAMILIES[(k // 2 + 3) % len(FAMILIES)]]
                    for fam in fams:
                        yield dict(op="xfer", group="S1-boundary", kind_s=kind, kind_r=r.choice(["sock", "pipe"]),
                                   cs=cs, cr=bool((k // 3) % 2), max_s=None, max_r=None,
                                   packets=[[size, comp, k]], fam_s=r.choice(FAMILIES), fam_r=fam, expect="exact")
    # S2: small MAX_IO_CHUNK: the one-write / three-write boundary and multi-send writes at small scale
    for mx in (5, 6, 7, 16, 50):
        for size in range(0, mx + 4):
            for kind in ("sock", "pipe"):
                yield dict(op="xfer", group="S2-smallchunk", kind_s=kind, kind_r=kind, cs=bool(size % 2), cr=False,
                           max_s=mx, max_r=r.choice([None, mx, 1, 3]), packets=[[size, "r", size + mx]],
                           fam_s=r.choice(FAMILIES), fam_r=r.choice(FAMILIES), expect="exact")
    # S3: sequences of packets, random failure-free fragmentation with transient conditions
    t = sizes[5]
    pool = [0, 0, 1, 2, 3, 10, 100, 255, 256, t - 1, t, t + 1, t + 500, 7000]
    for i in range(ctx.budget(500, 20000)):
        n = r.range(2, 6)
        specs = [[r.choice(pool) if r.chance(3, 4) else r.below(400), r.choice("cr"), r.below(1000)] for _ in range(n)]
        yield dict(op="xfer", group="S3-sequence", kind_s=r.choice(["sock", "pipe"]), kind_r=r.choice(["sock", "pipe"]),
                   cs=r.chance(1, 2), cr=r.chance(1, 2),
                   max_s=r.choice([None, None, None, 16, 100, t + 7]), max_r=r.choice([None, None, 1, 16, 4096]),
                   packets=specs, fam_s=r.choice(FAMILIES), fam_r=r.choice(FAMILIES), expect="exact")


def fault_streams(r, ctx):
    """(packets specs, cs, max) of the two-packet streams used for faults at every byte offset"""
    channel, _S = mods()
    t = channel.Channel.COMPRESSION_THRESHOLD
    out = [
        ([["hex", "6162"], ["hex", "78797a"]], False, None, "all"),
        ([["hex", ""], [12, "r", 1]], False, 16, "all"),                 # second packet goes out in three writes
        ([[t + 1, "c", 3], ["hex", "7461696c"]], True, None, "all"),     # first packet travels compressed
        ([[300, "r", 5], ["hex", "3132333435"]], False, None, "all-thorough"),
        ([[t + 1, "c", 4], ["hex", "7a"]], False, None, "sampled"),      # long uncompressed body
    ]
    if ctx.tier == "thorough":
        for i in range(30):
            out.append(([[r.below(40), "r", i], [r.below(40), "r", i + 100]], r.chance(1, 2),
                        r.choice([None, 5, 6, 16, 30]), "all"))
    return out


def gen_fault_cases(r, ctx):
    for specs, cs, mx, mode in fault_streams(r, ctx):
        packets = [make_packet(s) for s in specs]
        # the full stream, from the real sender over a transport that accepts everything
        full = run_send("sock", cs, mx, packets, ["a%d*%d" % (BIG, wire_bound(packets))])["sent"]
        L = len(full)
        first = len(run_send("sock", cs, mx, packets[:1], ["a%d*%d" % (BIG, wire_bound(packets))])["sent"])
        if ctx.tier == "thorough" and mode != "sampled" or (mode == "all" and L <= 64):
            offs = list(range(L + 1))
        else:
            want = ctx.budget(64 if mode != "sampled" else 32, 300)
            offs = set([0, 1, 4, 5, 6, first - 1, first, first + 1, first + 4, first + 5, first + 6, L - 1, L])
            while len(offs) < min(want, L + 1):
                offs.add(r.below(L + 1))
            offs = sorted(o for o in offs if 0 <= o <= L)
        for off in offs:
            for kind in (("sock", "pipe") if ctx.tier == "thorough" else (r.choice(["sock", "pipe"]),)):
                base = dict(op="xfer", group="S4-fault", cs=cs, cr=r.chance(1, 2), packets=specs, expect="safe",
                            offset=off, stream_len=L)
                ok_s = ["a%d*%d" % (r.choice([1, 9, BIG]), L + 3)]
                ok_r = faults.random_benign(r, L, "c", pieces=6, noise=sock_noise(r) if kind == "sock" else [])
                # receiver-side faults after exactly `off` bytes
                for name, script in (
                        ("recv-reset", faults.at_offset(off, faults.RESET, tail=["c9*9"])),
                        ("recv-eof", faults.at_offset(off, "z", tail=["c9*9"])),
                        ("recv-epipe", faults.at_offset(off, faults.EPIPE)),
                        ("recv-other-errno", faults.at_offset(off, r.choice(OTHER_ERRNOS), tail=["c9*9"])),
                        ("recv-timeout", faults.at_offset(off, "t", tail=faults.dribble(L, 3))),
                        ("recv-eagain", faults.at_offset(off, faults.EAGAIN, tail=faults.dribble(L, 7))),
                        ("recv-starved", ["c1*%d" % off] if off else [])):
                    yield dict(base, fault=name, kind_s="sock", kind_r=kind, max_s=mx, max_r=r.choice([None, mx, 4]),
                               sscript=ok_s, rscript=script)
                # the sender's transport dies after accepting exactly `off` bytes; the receiver's is healthy
                for name, script in (
                        ("send-reset", faults.at_offset(off, faults.RESET, "a", tail=["a9*9"])),
                        ("send-timeout", faults.at_offset(off, "t", "a", tail=["a9*9"])),
                        ("send-eagain", faults.at_offset(off, faults.EAGAIN, "a")),
                        ("send-other-errno", faults.at_offset(off, r.choice(OTHER_ERRNOS), "a", tail=["a9*9"])),
                        ("send-starved", ["a1*%d" % off] if off else [])):
                    yield dict(base, fault=name, kind_s=kind, kind_r=r.choice(["sock", "pipe"]), max_s=mx, max_r=None,
                               sscript=script, rscript=ok_r)


def gen_stream_cases(r, ctx):
    """stream.read / stream.write call sequences, continuing after EOFError (closed-stream behaviour)"""
    evs_r = ["c1", "c2", "c3", "c7", "c100", "c0", "t", "t", faults.EAGAIN, faults.ETIMEDOUT, faults.RESET, "z",
             faults.EBADF, faults.EINTR, "c64000", "c64001"] + OTHER_ERRNOS[:12:3]
    evs_s = ["a1", "a2", "a3", "a7", "a100", "a0", "a64000", "t", faults.EAGAIN, faults.RESET, faults.EPIPE] + OTHER_ERRNOS[1:12:4]
    for i in range(ctx.budget(400, 20000)):
        kind = r.choice(["sock", "pipe"])
        mx = r.choice([None, None, 1, 2, 5, 16])
        wire = r.bytes(r.below(60))
        faulty = r.chance(1, 2)
        pool = evs_r if faulty else [e for e in evs_r if e[0] == "c" and e != "c0"] + (["t", faults.EAGAIN] if kind == "sock" else [])
        script = [r.choice(pool) for _ in range(r.below(40))]
        counts = [r.choice([0, 1, 1, 2, 3, 5, 8, 20, 70]) for _ in range(r.range(1, 8))]
        yield dict(op="reads", group="S5-read", kind=kind, max=mx, wire=wire.hex(), script=script, counts=counts)
    for i in range(ctx.budget(400, 20000)):
        kind = r.choice(["sock", "pipe"])
        mx = r.choice([None, None, 1, 2, 5, 16])
        faulty = r.chance(1, 2)
        pool = evs_s if faulty else ["a1", "a2", "a3", "a7", "a100", "a64000"]
        script = [r.choice(pool) for _ in range(r.below(40))]
        datas = [r.bytes(r.choice([0, 0, 1, 2, 5, 17, 40])).hex() for _ in range(r.range(1, 7))]
        yield dict(op="swrites", group="S5-write", kind=kind, max=mx, script=script, datas=datas)


def gen_rawwire_cases(r, ctx):
    """receiver fed frames the real sender would not produce: wrong trailing byte (not checked by the code),
    flag bytes other than 0/1, flag and payload mismatched, length field beyond the data"""
    channel, _S = mods()
    C = channel.Channel
    for i in range(ctx.budget(150, 5000)):
        n = r.range(1, 4)
        packets = [r.bytes(r.choice([0, 1, 5, 40])) if r.chance(2, 3) else make_packet([r.range(1, 300), "c", i]) for _ in range(n)]
        wire = b""
        table = []
        muts = []
        for p in packets:
            flag, payload, trail = 0, p, C.FLUSHER
            m = r.below(8)
            if m == 0:
                trail = bytes([r.below(256)]) * len(C.FLUSHER)
                muts.append("trailing-byte")
            elif m == 1:
                flag, payload = r.choice([1, 2, 255]), compressed(p)
                table.append(p)
                muts.append("flag%d+zlib" % flag)
            elif m == 2:
                flag = r.choice([1, 2, 255])
                muts.append("flag-on-plain")
            elif m == 3:
                payload = compressed(p)
                muts.append("zlib-unflagged")
            else:
                muts.append("plain")
            length = len(payload)
            if m == 4:
                length += r.range(1, 9)
                muts[-1] = "length-too-long"
            wire += C.FRAME_HEADER.pack(length, flag) + payload + trail
        kind = r.choice(["sock", "pipe"])
        yield dict(op="rawrecv", group="S6-rawwire", kind=kind, max=r.choice([None, 3, 16]), wire=wire.hex(),
                   script=faults.random_benign(r, len(wire), "c", pieces=5, noise=sock_noise(r) if kind == "sock" else []),
                   ncalls=n + 1, table=[p.hex() for p in table], muts=muts)


def gen_duplex_cases(r, ctx):
    """one stream object, both directions, calls in any order: send / recv / poll / close / raw read / raw write;
    healthy and failing scripts, failing poll / fileno, the descriptor's own close() raising"""
    channel, _S = mods()
    t = channel.Channel.COMPRESSION_THRESHOLD
    ev_r = ["c1", "c2", "c3", "c7", "c100", "c64000", "c0", "t", faults.EAGAIN, faults.RESET, "z", faults.EPIPE] + OTHER_ERRNOS[2:12:4]
    ev_s = ["a1", "a2", "a5", "a100", "a64000", "a0", "t", faults.EAGAIN, faults.RESET, faults.EPIPE] + OTHER_ERRNOS[3:12:4]
    for i in range(ctx.budget(700, 30000)):
        pipe = r.chance(1, 2)
        kind = "pipe" if pipe else "sock"
        mode = r.choice(["healthy", "healthy", "faulty", "closefault", "closefault", "pollfault"])
        peer_c = r.chance(1, 2)
        inc = [[r.choice([0, 1, 5, 40, 300, t + 1]), r.choice("cr"), r.below(999)] for _ in range(r.below(4))]
        inc_p = [make_packet(x) for x in inc]
        wire = run_send("sock", peer_c, None, inc_p, ["a%d*%d" % (BIG, wire_bound(inc_p) + 3)])["sent"]
        if r.chance(1, 4) and wire:
            wire = wire[:r.below(len(wire) + 1)]
        L = len(wire)
        if mode in ("healthy", "pollfault"):
            rscript = faults.random_benign(r, L, "c", pieces=8, noise=sock_noise(r) if not pipe else [])
            sscript = ["a%d" % r.choice([1, 3, 7, 100, 64000]) for _ in range(r.below(6))] + ["a7*9000"]
        else:
            rscript = [r.choice(ev_r) for _ in range(r.below(14))]
            # accept events move one byte (or none) each, so that where a fault falls depends on the BYTE offset only,
            # not on how the code cuts a frame into write()/send() calls (which is not part of the claim)
            sscript = []
            for _ in range(r.below(5)):
                sscript += ["a1*%d" % r.range(1, 30)] + (["a0"] if r.chance(1, 4) else []) + \
                           [r.choice([e for e in ev_s if e[0] != "a"])]
            sscript += ["a1*%d" % r.below(40)] if r.chance(1, 2) else []
        pool = ["r", "r", "i", "n"] + (["s5", "g", "s9"] + ([] if pipe else [faults.RESET.replace("e", "f"), "f9"])
                                        if mode == "pollfault" else [])
        pscript = [r.choice(pool) for _ in range(r.range(0, 12))] + (["r*6"] if mode != "pollfault" else [])
        fault = 0 if mode != "closefault" else (r.choice([1, 2]) if pipe else 1)
        ops, outs = [], []
        for _ in range(r.range(3, 12)):
            k = r.below(12 if mode in ("healthy",) else 16)
            if k < 4:
                spec = [r.choice([0, 1, 2, 9, 11, 30, t + 1]) if r.chance(5, 6) else 7000, r.choice("cr"), r.below(999)]
                outs.append(spec)
                ops.append("S")
            elif k < 9:
                ops.append("R")
            elif k < 12:
                ops.append("P")
            elif k == 12:
                ops.append("C")
            elif k == 13:
                ops.append("r%d" % r.choice([0, 1, 3, 9]))
            else:
                ops.append("wx" + r.bytes(r.choice([0, 1, 4])).hex())
        yield dict(op="duplex", group="S7-duplex:" + mode, pipe=pipe, max=r.choice([None, None, 16, 5, 100]),
                   c=r.chance(1, 2), fault=fault, shutdown_fault=(not pipe and r.chance(1, 4)), rscript=rscript,
                   sscript=sscript, pscript=pscript, wire=wire.hex(), incoming=inc, peer_c=peer_c, ops=ops, outgoing=outs)


KERNEL_FLAVOURS = [("plain", "sock"), ("plain", "pipe"), ("cut", "sock"), ("cut", "pipe"), ("nonblocking", "sock"),
                   ("nonblocking", "tcp"), ("timeout-reader", "sock"), ("reset", "sock"), ("reader-dies", "sock"),
                   ("reader-dies", "pipe"), ("plain", "tcp"), ("cut", "tcp"), ("timeout-reader", "tcp"),
                   ("reader-dies", "tcp")]


def gen_kernel_cases(r, ctx):
    """transfers over a real socketpair / loopback TCP connection / real pipes (wire_kernel.py); the flavours come in
    a fixed order, so every run has every one of them"""
    channel, S = mods()
    t = channel.Channel.COMPRESSION_THRESHOLD
    m = S.SocketStream.MAX_IO_CHUNK
    for i in range(ctx.budget(len(KERNEL_FLAVOURS), 420)):
        flavour, kind = KERNEL_FLAVOURS[i % len(KERNEL_FLAVOURS)]
        n = r.range(2, 5)
        pool = [0, 1, 7, 300, t - 1, t, t + 1, 9000, m - 7, m - 6, m - 5, m + 1]
        specs = [[r.choice(pool) if r.chance(4, 5) else 150000, r.choice("cr"), r.below(999)] for _ in range(n)]
        case = dict(op="kernel", group="S8-kernel:" + flavour, kind=kind, seed=r.below(10 ** 9), packets=specs,
                    cs=r.chance(1, 2), cr=r.chance(1, 2), bufsize=r.choice([2048, 4096, 16384, 212992]),
                    cut=None, reader_stops_after=None, nonblocking=False, timeouts=[0, 1], reset=False, gated=False,
                    reader_timeout=None, min_send=1)
        if flavour == "cut":
            case["cut"] = r.range(0, 40)
        elif flavour == "nonblocking":
            # the writer sends nothing until the kernel has answered the reader EAGAIN once more: real would-blocks
            # before the first byte and between the pieces of every frame, deterministically
            case.update(nonblocking=True, timeouts=[1, 6], gated=True, min_send=977)
        elif flavour == "timeout-reader":
            case.update(reader_timeout=0.004, gated=True, min_send=2000)
        elif flavour == "reset":
            case["reset"] = True
        elif flavour == "reader-dies":
            case["packets"] = [[0, "r", 1]] + [[r.choice([70000, 150000, 250000]), "r", j] for j in range(4)]
            case["reader_stops_after"] = 1
        if kind == "tcp" and case["gated"]:
            case["bufsize"] = 65536        # (tiny TCP windows plus a gated writer only add delayed-ACK stalls)
        yield case


def gen_two_channel_cases(r, ctx):
    """two independent channels over their own transports; A's call is preempted at every instruction by a complete
    call on B (a packet of different length / compression)"""
    channel, _S = mods()
    t = channel.Channel.COMPRESSION_THRESHOLD
    pairs = [([10, "r", 1], [20, "r", 2], False, False, None), ([0, "r", 3], [t + 1, "c", 4], True, True, None),
             ([t + 1, "c", 5], [7, "r", 6], True, False, None), ([12, "r", 7], [3, "r", 8], False, False, 16),
             ([3, "r", 9], [12, "r", 10], False, False, 16), ([300, "c", 11], [t + 1, "r", 12], False, True, None)]
    extra = ctx.budget(0, 10)
    for i in range(extra):
        pairs.append(([r.choice([0, 1, 9, 11, 30, t + 1]), r.choice("cr"), 100 + i], [r.choice([0, 2, 10, 12, 40, t + 1]), r.choice("cr"), 200 + i],
                      r.chance(1, 2), r.chance(1, 2), r.choice([None, 16, 5])))
    n = 0
    for pa, pb, ca, cb, mx in pairs:
        for a_op, b_op in (("send", "send"), ("recv", "recv"), ("send", "recv"), ("recv", "send")):
            n += 1
            yield dict(op="twochan", group="S9-two-channels:%s/%s" % (a_op, b_op), kind=("sock", "pipe")[(n + n // 4) % 2], max=mx,
                       pa=pa, pb=pb, ca=ca, cb=cb, a_op=a_op, b_op=b_op)


# ----------------------------------------------------------------------------------------------- running one case
def scripts_for(case, packets):
    """materialise the family scripts of a case (deterministic per case)"""
    if "sscript" in case:
        return case["sscript"], case["rscript"]
    rr = Rng(case.get("script_seed", 1)).fork("scripts")
    total = wire_bound(packets)
    s = family_script(rr, case["fam_s"], total, case["kind_s"], "a")
    rcv = family_script(rr, case["fam_r"], total, case["kind_r"], "c")
    return s, rcv


def impl_xfer(case):
    packets = [make_packet(s) for s in case["packets"]]
    sscript, rscript = scripts_for(case, packets)
    snd = run_send(case["kind_s"], case["cs"], case["max_s"], packets, sscript)
    ncalls = case.get("ncalls", len(packets) if case["expect"] == "exact" else len(packets) + 1)
    rcv = run_recv(case["kind_r"], case["cr"], case["max_r"], snd["sent"], rscript, ncalls)
    return packets, sscript, rscript, snd, rcv, ncalls


def send_text(snd):
    return "%d %s %s %d x%s" % (snd["n"], snd["end"], snd["closed"], snd["left"], snd["sent"].hex())


def recv_text(rcv):
    return "%s %s %d %d [ %s]" % (rcv["end"], rcv["closed"], rcv["left"], rcv["rest"],
                                  "".join("x%s " % g.hex() for g in rcv["got"]))


def writes_text(ws):
    return "ok [ %s]" % "".join("x%s " % w.hex() for w in ws)


def xfer_lines(case, packets, sscript, rscript, snd, ncalls):
    cs = case["cs"]
    ms, mr = max_of(case["kind_s"], case["max_s"]), max_of(case["kind_r"], case["max_r"])
    toks = [pkt_token(p, cs) for p in packets]
    send_line = "wire send %s %d %s %s" % (tf(cs), ms, Script(sscript).text(), " ".join(toks))
    ztoks = [t for t in toks if t[0] == "Z"]
    recv_line = "wire recv %s %d %d %s x%s %s" % (tf(case["kind_r"] == "sock"), mr, ncalls, Script(rscript).text(),
                                                   snd["sent"].hex(), " ".join(ztoks))
    return send_line.rstrip(), recv_line.rstrip(), ["wire writes %s %d %s" % (tf(cs), ms, t) for t in toks]


def compact(case):
    """the case as stored in evidence / disagreements / replays (scripts in text form)"""
    c = dict(case)
    for k in ("sscript", "rscript", "script", "pscript"):
        if k in c:
            c[k] = Script(c[k]).text()
            if len(c[k]) > 4000:
                c[k] = c[k][:4000] + "...(truncated)"
    return c


class Batch:
    """op lines with the implementation's answers; flushed through the driver in bounded pieces"""

    def __init__(self, corr):
        self.corr = corr
        self.items = []
        self.size = 0

    def add(self, line, want, case, what, post=None):
        self.items.append((line, want, case, what, post))
        self.size += len(line) + len(want)
        if self.size > 48 * 10 ** 6:
            self.flush()

    def flush(self):
        if not self.items:
            return
        items, self.items, self.size = self.items, [], 0
        outs = run_driver([it[0] for it in items], exe="drv_wire")
        c = self.corr
        for (line, want, case, what, post), got in zip(items, outs):
            c.evaluations += 1
            toks = got.split(" ")
            c.count("model:%s:%s" % (what, (toks[1] if what == "send" and len(toks) > 1 else toks[0]).split(":")[0][:14]))
            if post is not None:
                msg = post(got)
                if msg:
                    c.disagreements.append(dict(op=what, case=compact(case), impl=msg[:300], model=got[:300]))
                continue
            if got != want:
                c.disagreements.append(dict(op=what, case=compact(case), impl=want[:400], model=got[:400],
                                            line=line[:300]))


def same_but_left(want):
    """send results agree in everything but the number of script events left"""
    w = want.split(" ")

    def post(got):
        g = got.split(" ")
        if len(g) != 5 or g[:3] + g[4:] != w[:3] + w[4:]:
            return want[:300]
        return None
    return post


def same_but_send_events_left(want):
    """duplex results agree in everything but the number of send-script events left (= how many send() calls the
    code needed, which is not part of the claim)"""
    def split(text):
        head, _, tail = text.rpartition(" | ")
        t = tail.split(" ")
        return head, t[:2] + t[3:]

    def post(got):
        return None if split(got) == split(want) else want[:400]
    return post


def same_frame(ws, corr):
    """the write() calls of one send(): what is claimed (and compared) is their CONCATENATION = the frame; whether
    the code cuts it into the same calls as the model's sendWrites is recorded as information only"""
    joined = b"".join(ws).hex()

    def post(got):
        if not got.startswith("ok [ "):
            return "model: %s; implementation wrote %d bytes" % (got[:60], len(joined) // 2)
        planned = [t[1:] for t in got[5:-1].split(" ") if t]
        if "".join(planned) != joined:
            return "write() calls concatenate to x%s..., the model's frame is x%s..." % (joined[:80], "".join(planned)[:80])
        corr.count("info:write-call-list-%s-the-model's" % ("equals" if planned == [w.hex() for w in ws] else "DIFFERS-from"))
        return None
    return post


def check_partial_writes(snd, planned_text_by_index):
    """once the model's planned writes of the failing packet are known: the bytes the real `send` tried to write
    for it are a non-empty prefix of the frame (how they were cut into write() calls is not compared)"""
    def post(got):
        if not got.startswith("ok [ "):
            return None if snd["end"] not in ("EOFError", "starved") else "model plans no writes: %s" % got[:80]
        frame = "".join(t[1:] for t in got[5:-1].split(" ") if t)
        real = b"".join(snd["writes"][snd["marks"][-1]:]).hex()
        if snd["end"] in ("EOFError", "starved"):
            if not snd["writes"][snd["marks"][-1]:] or not frame.startswith(real):
                return "the bytes the failing send tried to write (%d) are not a prefix of the frame (%d bytes)" % (
                    len(real) // 2, len(frame) // 2)
        return None
    return post


def feed_case(case, batch, corr, seen_writes):
    op = case["op"]
    if op == "xfer":
        packets, sscript, rscript, snd, rcv, ncalls = impl_xfer(case)
        send_line, recv_line, write_lines = xfer_lines(case, packets, sscript, rscript, snd, ncalls)
        # the number of send()/os.write calls a send() makes is not part of the claim: the events left of the send
        # script are reported but not compared
        batch.add(send_line, send_text(snd), case, "send", post=same_but_left(send_text(snd)))
        batch.add(recv_line, recv_text(rcv), case, "recv")
        for i, wl in enumerate(write_lines):
            if i < snd["n"]:
                ws = snd["writes"][snd["marks"][i]:snd["marks"][i + 1]]
                key = (wl, b"".join(ws))
                if key not in seen_writes:
                    seen_writes.add(key)
                    batch.add(wl, writes_text(ws), case, "writes", post=same_frame(ws, corr))
                corr.count("impl:writes-per-send:%d" % (snd["marks"][i + 1] - snd["marks"][i]))
            elif i == snd["n"] and snd["end"] != "done":
                batch.add(wl, "", case, "writes-partial", post=check_partial_writes(snd, None))
        msg = xfer_property(case, packets, sscript, rscript, snd, rcv, ncalls)
        if msg:
            corr.disagreements.append(dict(op="xfer-oracle", case=compact(case), impl=msg, model="(direct oracle)"))
        corr.count("oracle:xfer:" + ("judged-for-completeness" if xfer_is_healthy(case, packets, sscript, rscript, ncalls)
                                     else "judged-for-safety-only"))
        corr.count("impl:send:" + snd["end"])
        corr.count("impl:recv:" + rcv["end"])
        corr.count("group:" + case["group"] + (":" + case["fault"] if "fault" in case else ""))
        corr.count("kinds:%s->%s" % (case["kind_s"], case["kind_r"]))
        corr.count("compress:sender=%s,receiver=%s" % (tf(case["cs"]), tf(case["cr"])))
        for p in packets:
            corr.count("packet-size:" + size_class(len(p)))
        sig = ("xfer", case["group"], case.get("fault", case.get("fam_r")), case["kind_s"], case["kind_r"], case["cs"],
               tuple(size_class(len(p)) for p in packets), case["max_s"], snd["end"], rcv["end"], len(rcv["got"]))
        if packets:
            corr.signatures.add(sig)
        return dict(case=compact(case), send_script=Script(sscript).text()[:300], recv_script=Script(rscript).text()[:300],
                    packet_lengths=[len(p) for p in packets], send=send_text(snd)[:120], recv=recv_text(rcv)[:120])
    if op == "reads":
        res = run_reads(case["kind"], case["max"], bytes.fromhex(case["wire"]), case["script"], case["counts"])
        want = " ".join(res["results"]) + " | %s %d %d" % (res["closed"], res["left"], res["rest"])
        line = "wire reads %s %d %s x%s %s" % (tf(case["kind"] == "sock"), max_of(case["kind"], case["max"]),
                                               Script(case["script"]).text(), case["wire"],
                                               " ".join(str(n) for n in case["counts"]))
        batch.add(line, want, case, "reads")
        msg = oracle_reads(case)
        if msg:
            corr.disagreements.append(dict(op="reads-oracle", case=compact(case), impl=msg, model="(direct oracle)"))
        for x in res["results"]:
            corr.count("impl:read:" + x.split(":")[0])
        corr.signatures.add(("reads", case["kind"], case["max"], tuple(x.split(":")[0] for x in res["results"]), res["closed"]))
        return dict(case=compact(case), outcome=want[:160])
    if op == "swrites":
        res = run_swrites(case["kind"], case["max"], case["script"], [bytes.fromhex(d) for d in case["datas"]])
        want = " ".join(res["results"]) + " | %s %d x%s" % (res["closed"], res["left"], res["sent"].hex())
        line = "wire swrites %d %s %s" % (max_of(case["kind"], case["max"]), Script(case["script"]).text(),
                                          " ".join("x" + d for d in case["datas"]))
        batch.add(line, want, case, "swrites")
        msg = oracle_swrites(case)
        if msg:
            corr.disagreements.append(dict(op="swrites-oracle", case=compact(case), impl=msg, model="(direct oracle)"))
        for x in res["results"]:
            corr.count("impl:write:" + x)
        corr.signatures.add(("swrites", case["kind"], case["max"], tuple(res["results"]), res["closed"]))
        return dict(case=compact(case), outcome=want[:160])
    if op == "rawrecv":
        res = run_recv(case["kind"], False, case["max"], bytes.fromhex(case["wire"]), case["script"], case["ncalls"])
        ztoks = ["Z%s:%s" % (h, compressed(bytes.fromhex(h)).hex()) for h in case["table"]]
        line = ("wire recv %s %d %d %s x%s %s" % (tf(case["kind"] == "sock"), max_of(case["kind"], case["max"]),
                                                   case["ncalls"], Script(case["script"]).text(), case["wire"],
                                                   " ".join(ztoks))).rstrip()
        batch.add(line, recv_text(res), case, "rawrecv")
        corr.count("impl:rawrecv:" + res["end"])
        for m in case["muts"]:
            corr.count("rawwire:" + m)
        corr.signatures.add(("rawrecv", case["kind"], tuple(case["muts"]), res["end"], len(res["got"])))
        return dict(case=compact(case), outcome=recv_text(res)[:160])
    if op == "duplex":
        outs = [make_packet(x) for x in case["outgoing"]]
        res = run_duplex(case, outs)
        want = " ".join(res["results"]) + " | %s %d %d %d %d x%s" % (
            res["closed"], res["rleft"], res["sleft"], res["pleft"], res["rest"], res["sent"].hex())
        batch.add(duplex_line(case, outs), want, case, "duplex", post=same_but_send_events_left(want))
        kinds = tuple(x.split(":")[0] for x in res["results"])
        for o, x in zip(case["ops"], kinds):
            corr.count("impl:duplex:%s:%s" % (o[0], x))
        corr.count("group:" + case["group"])
        corr.signatures.add(("duplex", case["group"], case["pipe"], case["fault"], tuple(o[0] for o in case["ops"]), kinds,
                             res["closed"]))
        msg = duplex_property(case, res, outs)
        if msg:
            corr.disagreements.append(dict(op="duplex-oracle", case=compact(case), impl=msg, model="(direct oracle)"))
        return dict(case=compact(dict(case, wire=case["wire"][:120])), outcome=want[:200])
    if op == "twochan":
        points = two_channel_points(case)
        _f, base_a, base_b = run_two_channels(case, None)
        msg = two_channel_property(case, points)
        if msg:
            corr.disagreements.append(dict(op="twochan-oracle", case=compact(case), impl=msg, model="(direct oracle)"))
        # the model has no state shared between channels: each channel alone is what it predicts, at every point
        for name, op_, spec, comp, idx in (("A", case["a_op"], case["pa"], case["ca"], 1), ("B", case["b_op"], case["pb"], case["cb"], 2)):
            if op_ != "send":
                continue
            pkt = make_packet(spec)
            seen = set((pt[idx][0], pt[idx][1], pt[idx][2]) for pt in points) | set([(base_a, base_b)[idx - 1]])
            mx = max_of(case["kind"], case["max"])

            def post(got, seen=seen, name=name):
                toks = got.split(" ")
                model = (toks[0:3] + toks[4:5]) if len(toks) == 5 else toks
                bad = [x for x in seen if ["1", "done", x[2], "x" + x[1].hex()] != model or x[0] != "sent"]
                if bad:
                    return "channel %s alone should give [%s]; with the other channel interleaved: %s" % (
                        name, got[:80], ["%s %s x%s" % (b[0], b[2], b[1].hex()[:60]) for b in bad[:3]])
                return None
            batch.add("wire send %s %d a%d*9 %s" % (tf(comp), mx, BIG, pkt_token(pkt, comp)), "", case, "twochan-send", post=post)
        corr.count("group:" + case["group"])
        corr.count("two-channels:preemption-points", len(points))
        corr.signatures.add(("twochan", case["group"], case["kind"], case["max"], size_class(len(make_packet(case["pa"]))),
                             size_class(len(make_packet(case["pb"]))), case["ca"], case["cb"], len(points)))
        return dict(case=compact(case), preemption_points=len(points), outcome="A %s / B %s at every point" % (base_a[0], base_b[0]))
    if op == "kernel":
        packets, tail, res = run_kernel(case)
        msg = kernel_property(case, packets, res)
        if msg:
            corr.disagreements.append(dict(op="kernel-oracle", case=compact(case), impl=msg, model="(direct oracle)"))
        cs = case["cs"]
        skind = "pipe" if case["kind"] == "pipe" else "sock"
        mx = max_of(skind, None)
        if case.get("nonblocking") and res.eagain < 1:
            corr.disagreements.append(dict(op="kernel-setup", case=compact(case), model="(harness)",
                                           impl="the non-blocking reader met no EAGAIN from the kernel: the case tested nothing"))
        if case.get("reader_timeout") and res.kernel_timeouts < 1:
            corr.disagreements.append(dict(op="kernel-setup", case=compact(case), model="(harness)",
                                           impl="the reader with a socket timeout met no timeout from the kernel: the case tested nothing"))
        toks = [pkt_token(p, cs) for p in packets]
        want_s = "%d %s %s 0 x%s" % (res.wn, res.wend, tf(res.wclosed), res.sent.hex())
        batch.add(("wire send %s %d %s %s" % (tf(cs), mx, Script(res.strace).text(), " ".join(toks))).rstrip(),
                  want_s, case, "kernel-send")
        wire = res.sent + tail
        consumed = sum(int(ev[1:]) * n for ev, n in res.rtrace if ev[0] == "c")
        stops = case["reader_stops_after"] is not None
        ncalls = len(res.got) + (0 if res.rend == "done" else 1)
        want_r = "%s %s 0 %d [ %s]" % (res.rend, "F" if stops else tf(res.rclosed), len(wire) - consumed,
                                       "".join("x%s " % g.hex() for g in res.got))
        ztoks = [tk for tk in toks if tk[0] == "Z"]
        batch.add(("wire recv %s %d %d %s x%s %s" % (tf(skind == "sock"), mx, ncalls, Script(res.rtrace).text(),
                                                     wire.hex(), " ".join(ztoks))).rstrip(), want_r, case, "kernel-recv")
        corr.count("group:" + case["group"])
        corr.count("kernel:%s:reader:%s" % (case["kind"], res.rend))
        corr.count("kernel:%s:writer:%s" % (case["kind"], res.wend))
        corr.count("kernel:poll-before-the-read-that-meets-the-end:%s" % (res.polled,))
        corr.count("kernel:recv-calls", sum(n for _e, n in res.rtrace))
        corr.count("kernel:send-calls", sum(n for _e, n in res.strace))
        corr.count("kernel:EAGAIN-from-the-kernel", res.eagain)
        corr.count("kernel:socket.timeout-from-the-kernel", res.kernel_timeouts)
        corr.count("kernel:transport:" + res.transport)
        if case.get("nonblocking"):
            corr.count("kernel:nonblocking-cases-that-met-a-real-EAGAIN", 1 if res.eagain else 0)
        corr.count("kernel:partial-recv", sum(n for e, n in res.rtrace if e[0] == "c"))
        corr.signatures.add(("kernel", case["group"], case["kind"], tuple(size_class(len(p)) for p in packets),
                             res.rend, res.wend, len(res.got)))
        return dict(case=compact(case), send_trace=Script(res.strace).text()[:200], recv_trace=Script(res.rtrace).text()[:200],
                    outcome="reader: %d packets then %s closed=%s; writer: %d sent then %s" % (
                        len(res.got), res.rend, res.rclosed, res.wn, res.wend))
    raise ValueError(op)


def duplex_line(case, outs):
    c = case["c"]
    it = iter(outs)
    toks = []
    for o in case["ops"]:
        toks.append("S" + pkt_token(next(it), c) if o == "S" else o)
    table = [pkt_token(make_packet(x), True) for x in case["incoming"]] if case["peer_c"] else []
    kind = "pipe" if case["pipe"] else "sock"
    return ("wire duplex %s %d %s %s %s %s %s x%s %s %s" % (
        tf(case["pipe"]), max_of(kind, case["max"]), tf(c), {0: "n", 1: "1", 2: "2"}[case["fault"]],
        Script(case["rscript"]).text(), Script(case["sscript"]).text(), Script(case["pscript"]).text(), case["wire"],
        " ".join(toks), " ".join(table))).rstrip()


def duplex_property(case, res, outs):
    """statement-level check of one duplex run on the real code (no model): packets returned are a prefix of the
    packets on the incoming wire; what the transport accepted decodes to the packets whose send returned, in order;
    EOFError only with a closed stream; other exceptions only where the descriptor itself misbehaved (failing
    close(), failing poll()/fileno(): excluded from 'EOFError + closed' by assumption)"""
    incoming = [make_packet(x) for x in case["incoming"]]
    got = [bytes.fromhex(x[4:]) for o, x in zip(case["ops"], res["results"]) if o == "R" and x.startswith("ok:x")]
    # a raw stream.read(n > 0) by the application takes bytes out of the framing: recv() is then not judged
    raw_reads = any(o[0] == "r" and x.startswith("ok:x") and len(x) > 4 for o, x in zip(case["ops"], res["results"]))
    if not raw_reads and got != incoming[:len(got)]:
        return "a packet returned by recv() is not the next packet of the incoming stream"
    ok_sent = []
    it = iter(outs)
    for o, x in zip(case["ops"], res["results"]):
        if o == "S":
            p = next(it)
            if x == "ok":
                ok_sent.append(p)
    raw_writes = any(o[0] == "w" and len(o) > 2 for o in case["ops"])
    # (after a failing close() of a pipe's read end the write end stays usable although a frame may have been left
    # half-written: what follows on the wire is then unparsable for the peer - inside the excluded case, not judged)
    if ok_sent and not raw_writes and not case["fault"]:
        back = run_recv("sock", False, None, res["sent"], ["c%d*%d" % (BIG, len(res["sent"]) + 3)], len(ok_sent))
        if back["got"] != ok_sent:
            return "the bytes the transport accepted do not decode to the packets whose send() returned"
    kinds = [x.split(":")[0] for x in res["results"]]
    if "EOFError" in kinds and res["closed"] != "T":
        return "EOFError was raised but the stream is not closed at the end"
    # what poll() and close() themselves raise is outside the claim; read/write/send/recv may raise something other
    # than EOFError only where the descriptor's own close() failed (excluded by assumption)
    odd = sorted(set(k for o, k in zip(case["ops"], kinds)
                     if o[0] in ("SRrw" if not raw_reads else "Srw") and k not in ("ok", "EOFError", "starved")))
    if odd and not case["fault"]:
        return "unexpected exception(s) %s from send/recv/read/write with a well-behaved descriptor" % odd
    return None


def run_kernel(case):
    channel, _S = mods()
    packets = [make_packet(x) for x in case["packets"]]
    tail = b""
    if case["cut"] is not None:
        extra = make_packet([60, "r", 77])
        frame = channel.Channel.FRAME_HEADER.pack(len(extra), 0) + extra + channel.Channel.FLUSHER
        tail = frame[:min(case["cut"], len(frame) - 1)]
    res = wire_kernel.run_pair(case["kind"], Rng(case["seed"]), packets, case["cs"], case["cr"], tail=tail,
                               reader_stops_after=case["reader_stops_after"], nonblocking=case["nonblocking"],
                               timeouts=tuple(case["timeouts"]), bufsize=case["bufsize"], reset=case["reset"],
                               gated=case.get("gated", False), reader_timeout=case.get("reader_timeout"),
                               min_send=case.get("min_send", 1))
    return packets, tail, res


def kernel_property(case, packets, res):
    """the property on one real-kernel transfer (no model)"""
    if res.hung or res.werror:
        return "writer thread %s" % ("did not finish" if res.hung else "crashed: %s" % res.werror)
    if res.got != packets[:len(res.got)]:
        return "a packet received over the kernel transport differs from the packet sent"
    if case["reader_stops_after"] is not None:
        if res.wend not in ("done", "EOFError"):
            return "writer raised %s" % res.wend
        if res.wend == "EOFError" and not res.wclosed:
            return "writer got EOFError but its stream is not closed"
        return None
    if res.wend != "done":
        return "writer ended with %s on a healthy transport" % res.wend
    if len(res.got) != len(packets):
        return "only %d of %d packets arrived over a healthy kernel transport (%s)" % (len(res.got), len(packets), res.rend)
    if res.rend != "EOFError" or not res.rclosed:
        return "after the writer went away the reader got %s, closed=%s" % (res.rend, res.rclosed)
    return None


def correspondence(ctx):
    c = Corr()
    c.rule = (
        "xfer: real Channel.send over a scripted socket/pipe, then real Channel.recv of the bytes that transport "
        "accepted over a second scripted socket/pipe; compared with the model: packets returned, exception class, "
        "stream.closed (and the fake descriptor's closed state), script events left, bytes accepted / wire left, the "
        "write() calls of every send (bytes), and for a failing send that its write() calls are a prefix of the planned "
        "ones. S1: every size in {0,1,2,5, threshold-1/0/+1, one-write/three-write edge-1/0/+1, chunk-1/0/+1, 200000} x "
        "compressible/incompressible x sender compression on/off x socket/pipe (receiver compression alternating) under "
        "script families whole / 1-byte dribble / dribble with timeouts+EAGAIN+ETIMEDOUT / fixed pieces / random pieces "
        "with noise; S2: MAX_IO_CHUNK in {5,6,7,16,50} x all sizes 0..chunk+3; S3: random 2-6 packet sequences; S4: two-"
        "packet streams (plain, three-write, compressed, long body) with a reset / end of stream / EPIPE / timeout / "
        "EAGAIN / script end after EXACTLY k bytes on the receiving side and a reset / timeout / EAGAIN / script end "
        "after exactly k accepted bytes on the sending side, k = every offset (short streams; all streams in thorough) "
        "or 64 sampled offsets incl. all frame-boundary neighbours; S5: stream.read / stream.write call sequences "
        "continuing after EOFError; S6: frames with a wrong trailing byte, odd flag bytes, flag/payload mismatch, length "
        "beyond the data. S7 (duplex): ONE real stream and channel used in both directions with send / recv / poll / "
        "close / raw read / raw write calls in random order, continuing after every exception, under healthy and "
        "failing recv/send scripts, poll scripts (ready, idle, EINTR, select error, refused descriptor, fileno raising "
        "ECONNRESET / EBADF), sock.shutdown raising, and the descriptor's own close() raising once (sock.close / "
        "incoming.close / outgoing.close); compared: every call's result or exception class, final closed, events left "
        "of all three scripts, wire left, bytes accepted. S8 (kernel): transfers over a real socketpair / real os.pipe "
        "pairs through a size-capping, logging shim (small buffers, non-blocking reader, cut mid-frame, ECONNRESET, "
        "reader dying under the writer); the recorded traces are replayed through the model. S9 (two channels): two "
        "independent real channels over their own scripted transports; channel A's send (or recv) is single-stepped and at "
        "EVERY bytecode instruction inside Channel.send/recv and the stream's read/write/close (sys.monitoring INSTRUCTION "
        "events: every point at which the interpreter can switch threads) a complete send or recv of a packet of "
        "different length/compression runs on channel B, one point per run; at every point both channels must give what the "
        "model gives for each channel alone (bytes accepted, closed) and each receiver exactly its own packet. Non-trivial = moves "
        "at least one packet or one read/write/poll call; distinct = distinct (group, "
        "fault or script family, stream kinds, sender compression, packet size classes, chunk size, both outcomes, "
        "number of packets received) resp. (call sequence, result sequence, closed) for S5-S7.")
    r = Rng(ctx.seed).fork("c05")
    batch = Batch(c)
    seen_writes = set()
    n = 0
    try:
        gens = [gen_transfer_cases(r.fork("xfer"), ctx), gen_fault_cases(r.fork("fault"), ctx),
                gen_stream_cases(r.fork("stream"), ctx), gen_rawwire_cases(r.fork("raw"), ctx),
                gen_duplex_cases(r.fork("duplex"), ctx), gen_kernel_cases(r.fork("kernel"), ctx),
                gen_two_channel_cases(r.fork("twochan"), ctx)]
        for g in gens:
            for case in g:
                n += 1
                case.setdefault("script_seed", n)
                sample = feed_case(case, batch, c, seen_writes)
                if len(c.samples) < 12 and n % 397 == 5:
                    c.samples.append(sample)
        batch.flush()
    except DriverError as ex:
        c.error = str(ex)
        return c
    c.extra["scripts_run"] = n
    c.extra["kernel_probes"] = wire_kernel.probe_dead_peer_poll()
    lost, text = wire_kernel.probe_pipe_wouldblock()
    _probed, _tls_lost, tls_text = wire_kernel.probe_tls_wouldblock()
    c.extra["observations_outside_the_claim"] = [
        "non-blocking TLS socket under SocketStream (TLS is not modelled; same class as the pipe finding): " + tls_text,
        "PipeStream on a real pipe whose read end is O_NONBLOCK (set by the application or by a process sharing the "
        "open file description; rpyc itself never sets it): " + text,
        "the descriptor's own close() raising inside the failure path of read/write (FakeSocket/FakePipe close_fault): "
        "that OSError propagates instead of EOFError and stream.closed stays False (modelled: Rpyc.Wire.dClose); "
        "Stream.poll re-raises a failing poll()/refused descriptor as select_error with the stream left open and "
        "SocketStream.fileno re-raises a non-EBADF socket.error after closing (modelled: Rpyc.Wire.dPoll); on kernel "
        "sockets/pipes a dead peer makes poll() answer True (kernel_probes) and the failure is met by read",
    ]
    for k, v in c.extra["kernel_probes"].items():
        want = ("raised OSError closed=False" if k.endswith("application -> poll") else
                "True" if k.endswith("-> poll") else "raised EOFError closed=True")
        if v != want:
            c.disagreements.append(dict(op="kernel-probe", case=dict(op="probe", probe=k), impl=v, model=want))
    c.exhaustive = False
    return c


# ----------------------------------------------------------------------------------------------- direct oracle
DATA_EVENTS = {"c": ("c",), "a": ("a",)}


def script_is_benign(items, side, sock, need):
    """statement-level premise: no failure event, every data event moves at least one byte, at least `need` of them"""
    s = Script(items)
    data = 0
    for ev, n in s.items_left():
        if ev[0] == side:
            if int(ev[1:]) < 1:
                return False
            data += n
        elif side == "c" and sock and ev in ("t", faults.EAGAIN):
            continue
        else:
            return False
    return data >= need


def xfer_is_healthy(case, packets, sscript, rscript, ncalls):
    """the statement's premise for 'received exactly': no failure event on either transport (data events and, on a
    socket, timeouts / EAGAIN only), enough data events, one recv() per packet"""
    need = wire_bound(packets)
    return (script_is_benign(sscript, "a", True, need) and script_is_benign(rscript, "c", case["kind_r"] == "sock", need)
            and ncalls >= len(packets))


def xfer_property(case, packets, sscript, rscript, snd, rcv, ncalls):
    """the property on one transfer of the real code (no model); None if it holds"""
    got = rcv["got"]
    if got != packets[:len(got)]:
        k = next((i for i in range(len(got)) if i >= len(packets) or got[i] != packets[i]), len(got))
        return "received packet #%d differs from the packet sent (len %d vs %s)" % (
            k, len(got[k]) if k < len(got) else -1, len(packets[k]) if k < len(packets) else "none sent")
    if snd["end"] not in ("done", "EOFError", "starved"):
        return "send raised %s" % snd["end"]
    if rcv["end"] not in ("done", "EOFError", "starved"):
        return "recv raised %s" % rcv["end"]
    if snd["end"] == "EOFError" and not snd["closed"].startswith("T"):
        return "send raised EOFError but the stream is not closed"
    if rcv["end"] == "EOFError" and not rcv["closed"].startswith("T"):
        return "recv raised EOFError but the stream is not closed"
    if xfer_is_healthy(case, packets, sscript, rscript, ncalls):
        if snd["end"] != "done":
            return "healthy sending transport, but send ended with %s" % snd["end"]
        if len(got) < len(packets):
            return "healthy transports, but only %d of %d packets were received (%s)" % (len(got), len(packets), rcv["end"])
    return None


def oracle_xfer(case):
    """None if the property holds on the real code for this case, else a description"""
    packets, sscript, rscript, snd, rcv, ncalls = impl_xfer(case)
    return xfer_property(case, packets, sscript, rscript, snd, rcv, ncalls)


def oracle_reads(case):
    wire = bytes.fromhex(case["wire"])
    res = run_reads(case["kind"], case["max"], wire, case["script"], case["counts"])
    pos = 0
    for n, x in zip(case["counts"], res["results"]):
        if x.startswith("ok:x"):
            d = bytes.fromhex(x[4:])
            if d != wire[pos:pos + n] or len(d) != n:
                return "read(%d) returned %d bytes that are not the next %d bytes of the stream" % (n, len(d), n)
            pos += n
        elif x == "EOFError":
            if not res["closed"].startswith("T"):
                return "read raised EOFError but the stream is not closed"
            break
        elif x == "starved":
            break
        else:
            return "read raised %s" % x
    return None


def oracle_swrites(case):
    datas = [bytes.fromhex(d) for d in case["datas"]]
    res = run_swrites(case["kind"], case["max"], case["script"], datas)
    total = b"".join(datas)
    if not total.startswith(res["sent"]):
        return "the transport accepted bytes that are not a prefix of the data written"
    done = b""
    for d, x in zip(datas, res["results"]):
        if x == "ok":
            done += d
            if not res["sent"].startswith(done):
                return "write returned but the transport has not accepted all of its data"
        elif x == "EOFError":
            if not res["closed"].startswith("T"):
                return "write raised EOFError but the stream is not closed"
            break
        elif x == "starved":
            break
        else:
            return "write raised %s" % x
    return None


def oracle_case(case):
    op = case.get("op")
    if op == "xfer":
        return oracle_xfer(case)
    if op == "reads":
        return oracle_reads(case)
    if op == "swrites":
        return oracle_swrites(case)
    if op == "duplex":
        outs = [make_packet(x) for x in case["outgoing"]]
        return duplex_property(case, run_duplex(case, outs), outs)
    if op == "kernel":
        packets, _tail, res = run_kernel(case)
        return kernel_property(case, packets, res)
    if op == "twochan":
        return two_channel_property(case)
    return None


def uncompact(case):
    c = dict(case)
    for k in ("sscript", "rscript", "script", "pscript"):
        if k in c and isinstance(c[k], str):
            if c[k].endswith("...(truncated)"):
                return None
            c[k] = [] if c[k] == "-" else c[k].split(",")
    return c


def shrink(case, msg):
    """fewer packets / simpler scripts while the oracle still fails"""
    if case.get("op") != "xfer":
        return case, msg
    best, best_msg = case, msg
    improved = True
    while improved and len(best["packets"]) > 1:
        improved = False
        for i in range(len(best["packets"])):
            cand = dict(best, packets=best["packets"][:i] + best["packets"][i + 1:])
            try:
                m = oracle_case(cand)
            except Exception:  # noqa
                m = None
            if m:
                best, best_msg, improved = cand, m, True
                break
    for fam in ("whole", "dribble"):
        if "fam_r" in best:
            cand = dict(best, fam_s=fam, fam_r=fam)
            try:
                m = oracle_case(cand)
            except Exception:  # noqa
                m = None
            if m:
                best, best_msg = cand, m
                break
    return best, best_msg


def signature_of(msg):
    return "c05:" + msg.split("(")[0].strip()[:60]


def oracle_search(ctx, corr, broken):
    deadline = time.time() + ctx.budget(60, 600)
    r = Rng(ctx.seed).fork("c05-search")

    def candidates():
        for d in corr.disagreements[:300]:
            c = uncompact(d.get("case") or {})
            if c:
                yield c
        n = 0
        for g in (gen_transfer_cases(r.fork("xfer"), ctx), gen_fault_cases(r.fork("fault"), ctx),
                  gen_two_channel_cases(r.fork("twochan"), ctx),
                  gen_stream_cases(r.fork("stream"), ctx), gen_duplex_cases(r.fork("duplex"), ctx),
                  gen_kernel_cases(r.fork("kernel"), ctx)):
            for case in g:
                n += 1
                case.setdefault("script_seed", n)
                yield case
        k = 0
        while time.time() < deadline:
            k += 1
            for case in gen_transfer_cases(r.fork("more%d" % k), ctx):
                if case["group"] == "S3-sequence":
                    case.setdefault("script_seed", 10 ** 6 + k)
                    yield case
                if time.time() >= deadline:
                    break

    best = None
    fails = 0
    for case in candidates():
        if time.time() >= deadline and best is not None:
            break
        try:
            msg = oracle_case(case)
        except Exception as ex:  # noqa
            msg = "the harness could not run the case: %r" % (ex,)
            continue
        if msg and signature_of(msg) not in ctx.known_signatures:
            fails += 1
            size = sum(len(make_packet(s)) for s in case.get("packets", [])) + len(str(case))
            if best is None or size < best[2]:
                best = (case, msg, size)
            if fails >= 25 or size < 400:
                break
    if best is None:
        return None
    case, msg = shrink(best[0], best[1])
    if case.get("op") == "xfer" and "sscript" not in case:
        # make the replay self-contained: the scripts the families expanded to
        ss, rs = scripts_for(case, [make_packet(s) for s in case["packets"]])
        if len(Script(ss).text()) < 4000 and len(Script(rs).text()) < 4000:
            case = dict(case, sscript=ss, rscript=rs)
    out = compact(case)
    out["kind"] = "fault" if case.get("expect") == "safe" or case.get("op") in ("reads", "swrites", "duplex", "kernel") else "schedule" if case.get("op") == "twochan" else "input"
    return out, msg, signature_of(msg)


def replay(case):
    c = uncompact(case)
    if c is None:
        return dict(case=case, error="the stored script was truncated; re-run the check to regenerate the case")
    out = dict(case=case)
    corr = Corr()
    batch = Batch(corr)
    out["oracle"] = oracle_case(c) or "holds"
    if c.get("op") == "xfer":
        packets, sscript, rscript, snd, rcv, ncalls = impl_xfer(c)
        send_line, recv_line, _w = xfer_lines(c, packets, sscript, rscript, snd, ncalls)
        out["implementation"] = dict(send=send_text(snd)[:2000], recv=recv_text(rcv)[:2000])
        m = run_driver([send_line, recv_line], exe="drv_wire")
        out["model"] = dict(send=m[0][:2000], recv=m[1][:2000])
        out["agree"] = (m[0] == send_text(snd) and m[1] == recv_text(rcv))
    else:
        feed_case(c, batch, corr, set())
        items = list(batch.items)
        batch.flush()
        out["implementation"] = [it[1][:2000] for it in items]
        out["model"] = [x[:2000] for x in run_driver([it[0] for it in items], exe="drv_wire")]
        out["agree"] = not corr.disagreements
    return out


# ----------------------------------------------------------------------------------------------- known findings
PIPE_WOULDBLOCK = "c05:pipe-wouldblock-is-fatal"


def known_probes(ctx):
    """Listed in known_findings.json (status 'known'); armed only while it is listed as such.  The witness of
    Rpyc.Props.C05.C05_pipe_wouldblock_counterexample is replayed on a real pipe whose read end is O_NONBLOCK."""
    if PIPE_WOULDBLOCK not in getattr(ctx, "known_signatures", ()):
        return []
    lost, text = wire_kernel.probe_pipe_wouldblock()
    probed, tls_lost, tls_text = wire_kernel.probe_tls_wouldblock()
    extra = "; likewise SSLWantReadError on a non-blocking TLS socket: " + tls_text if probed and tls_lost else ""
    return [(PIPE_WOULDBLOCK, lost, "a would-block reported by os.read on a pipe is fatal: " + text + extra)]
