"""C07 — a hostile peer cannot step outside what the service exposes.

Correspondence (real `rpyc.core.protocol.Connection` vs. Rpyc.Handlers through the compiled driver `drv_handlers`):
seeded *sessions*; in each a raw script (not a Connection) writes brine-encoded, framed hostile messages into the
stream of a real Connection that serves a canary service over harness/simnet.py.  The messages come from the model's
own message type: every handler id (valid, float/bool/complex-equal, invalid), every boxing label (incl. invalid and
numerically-equal ones), argument tuples of any arity and type, packages that are not pairs, LOCAL_REF ids harvested
from THIS connection, from a SECOND connection of the same process, stale (released) and forged ones, REMOTE_REF
packages of builtin / foreign / non-text class names (so the server calls back: HANDLE_INSPECT - which the script
ANSWERS well-formed in a good share of sessions, with names of importable-but-not-imported canary and standard modules,
their dotted prefixes, imported modules, builtins, so that netref.class_factory runs on peer-chosen names), identifiers
boxed to the well-behaved peer of a SECOND real connection of the same process (who still holds them, released them,
or closed), replies and
exception payloads with matching / stale / never-issued sequence numbers (crafted exception tuples: canary modules,
`os.system`, `builtins.eval`, NUL in names, hostile attribute lists), values that are not messages at all and
payloads that do not decode.  Messages are written in bursts, so that messages arrive *while* a handler waits for
the peer (nested dispatch) and waits end by answer or by (virtual-time) timeout.

Compared per session, as one canonical text: every primitive touch the protocol performs (kind, object, attribute name,
operands) in order, every frame it writes (reply / exception reply with class / own requests), for every incoming
reply whether it was delivered / dropped / ignored, expiry of waits, cleanup, how the connection ended; then the
contents of `_local_objects._dict` (keys, objects, counts) and the closed flag.  The environment's answers (what
`hasattr`/`getattr`/a call/... returned or raised, and which callbacks a callee made) are observed on the real run and
handed to the model as its tape.

Direct oracle (`oracle_session`): the STATEMENT on the real code alone, on the same kind of session, default config.
"""
import json
import sys
import time

import handlers_rt as rt
import handlers_world as hw
from lineproto import run_driver, DriverError
from pipeline import Corr
from prng import Rng

ID = "C07"
LEAN_MODULE = "RpycModel.Props.C07"
NAMESPACE = "Rpyc.Props.C07"
GEN = ["Handlers.lean", "Brine.lean"]
DRIVERS = ["drv_handlers"]
TRUSTED = [
    "modelled, not verified: what a primitive operation on a Python object does once the protocol has decided to "
    "perform it (getattr/setattr/delattr, a call, repr/str/hash/dir, islice(iter), isinstance, pickle.dumps, "
    "get_id_pack, get_methods, class_factory, bool(), raise, *-unpacking of a non-plain value, on_disconnect) is the "
    "environment's move: universally quantified in the theorems (any result, any exception, any number of callbacks to "
    "the peer, stateful), observed on the real run in the correspondence",
    "the interpreter is CPython 3.12 (the one /venv/bin/python runs; obligation interpreter_hashes_slices on the generated "
    "measurement): every plain value is hashable there, slices included, "
    "so a dict lookup with any decoded value (handler id, LOCAL_REF identifier, sequence number) is KeyError-or-hit; on 3.11 "
    "a slice inside such a value gives TypeError instead (the model would have to split that case)",
    "CPython facts the dispatch code relies on, transcribed by hand: tuple/str/bytes/frozenset unpacking and indexing "
    "with their TypeError/ValueError/IndexError split, `==`/hash of numbers across bool/int/float/complex in dict "
    "lookups (handler id, label, message type, id packs, sequence numbers), truth values, PEP 479 inside the "
    "generator expressions of `_box`/`_unbox`; `str(v)` of a non-text class name in a REMOTE_REF is supplied by the harness",
    "the recorder (harness/handlers_rt.py): run-time substitutions in protocol/netref/vinegar namespaces and on "
    "Connection methods that map a real run to the model's event alphabet; sessions it cannot place in the model's "
    "event order (non-plain id packs in inspect/instancecheck, non-plain argument list in oldslicing, a callback made "
    "outside any observed primitive) are counted as `unobservable`, not compared",
    "vinegar.dump of the exception a handler raised always yields an exception reply of that class (C09 models the "
    "payload; the repaired _send_exception answers even when the payload cannot be serialized); proxy finalisation "
    "traffic (HANDLE_DEL sent by netref.__del__) is kept out by holding every proxy until the session ends (C10)",
]
ASSUMPTIONS = [
    "single serving thread per connection (serve_all); concurrency is C12-C14's subject",
    "the peer's messages are well-framed (C05); a payload that does not decode ends the connection with the decoder's exception",
    "chained connections (an object of ANOTHER rpyc connection held in this table) are outside the model (`notModelled` branch)",
    "repaired while this check was built (known_findings.json: fixed): HANDLE_DEL with a count that is not an int "
    "(RefCountingColl.decref compared under its non-reentrant lock: a proxy as count could block the serving thread for "
    "good) and HANDLE_CALL with args/kwargs that are not tuples (dict(kwargs) ran keys()/[k] of a held object); the oracle "
    "demands both refusals, and the recorder refuses to run a decref with a non-int count (`unobservable`); HANDLE_DEL "
    "with a count below 1 (raised the stored count), class_factory / vinegar.load running a module-level __getattr__ with "
    "a peer-chosen name: all followed in the model",
    "two weaknesses found by the reviews were repaired upstream and are now DEMANDED (ratchet EXPECTED_FIXED, measured on "
    "the code on every run - evidence coverage.measured - plus canaries in every session): HANDLE_CMP lets an object's "
    "own _rpyc_getattr decide (it used to apply the connection's policy to type(obj), so a safe-listed operator the "
    "object's hook denies still ran; canary `Hooked`), and class_factory accepts only classes and asks the object it "
    "finds nothing (it used to read `__class__` of ANY module-level object the peer named and store it as the proxy's "
    "class; canary handlers_world.SPY)",
]
EXPLANATION = (
    "Theorems (Lean, for every environment, every finite sequence of bursts of arbitrary decoded values / undecodable "
    "payloads, every fuel): under the generated default configuration every attribute access and every hasattr probe is on "
    "a name the policy allows with the operation enabled (touch_policy; the CMP operator name included - the "
    "CVE-2019-16328 shape), LOCAL_REF resolves only through this connection's table and every operand of every touch is "
    "a value from a message, a table member, the root or something the environment returned earlier (touch_caps, "
    "table_growth); every table entry was put there by _box under that id pack, a LOCAL_REF yields only such a lent object, "
    "and what the environment merely returned (modules, types, attribute values not yet sent) is not nameable by the peer "
    "(table_only_lent, local_ref_only_lent, lent_known); the first pass of _unbox changes nothing (local_refs_resolved_first), no pickle and no import / sys.modules lookup for an exception class happens (no_pickle, no_import), every request is "
    "answered exactly once or aborted with the connection ending / the exception re-raised in the serving thread "
    "(outcome_total), building a proxy's class after the peer's HANDLE_INSPECT answer only looks the peer-chosen dotted "
    "name up in sys.modules and reads the class out of that module's namespace as data (classLookup: never an import, "
    "no getattr on a module, so no module-level __getattr__ runs; closed_world_class_factory pins the calls class_factory "
    "makes), and likewise an exception class named in an exception reply (classGate), and the "
    "handler table, signatures and primitive touches of the source equal the modelled ones (closed_world, decide). "
    "The policy invariant (Touch.good) constrains five kinds of operation - attribute get/set/del, hasattr probe, pickle, "
    "__import__, sys.modules lookup for exceptions; every other kind (call, repr/str/hash/dir, islice, isinstance, "
    "*-unpacking, ...) is constrained only in its OPERANDS: the callable/object must be `known` (touch_caps), i.e. have been "
    "obtained through permitted operations - 'the peer cannot invoke a callable the policy denies' rests on that, not on a "
    "per-call policy test (rpyc has none). nested_local_refs_only_lent / unbox_only_lent: for ANY package, at any tuple "
    "depth, every local object _unbox produces is a table entry lent under that identifier. "
    "Handlers' effects on user objects are abstract (environment moves).")

CFG_KEYS = ["allow_safe_attrs", "allow_exposed_attrs", "allow_public_attrs", "allow_all_attrs", "allow_getattr",
            "allow_setattr", "allow_delattr", "allow_pickle", "import_custom_exceptions", "instantiate_custom_exceptions",
            "propagate_KeyboardInterrupt_locally", "propagate_SystemExit_locally"]
ALT_CONFIGS = ["110011110010", "111100000010", "110011001110", "000010000011", "110000010000", "011011100010",
               "110010000001", "110011111111"]


def config_of(text):
    if text == "default":
        return {}
    return dict((k, ch == "1") for k, ch in zip(CFG_KEYS, text))


def pick_config(r):
    if r.chance(5, 6):
        return "default"
    return r.choice(ALT_CONFIGS)


def session_case(seed, index, n_bursts=None):
    """deterministic re-creation of session `index` of run `seed`"""
    r = Rng(seed).fork("c07").fork("s%d" % index)
    cfg = pick_config(r)
    nb = r.range(4, 11) if n_bursts is None else n_bursts
    if n_bursts is not None:
        r.range(4, 11)
    return r, cfg, nb


class SessionHang(BaseException):
    """a session did not finish within the watchdog's (real-time) limit: the serving thread is stuck"""


def _alarm(_sig, _frm):
    raise SessionHang("session exceeded %d s" % WATCHDOG_S)


WATCHDOG_S = 20


def run_case(seed, index, n_bursts=None, force_default=False):
    import signal
    r, cfg, nb = session_case(seed, index, n_bursts)
    if force_default:
        cfg = "default"
    old = signal.signal(signal.SIGALRM, _alarm)
    signal.alarm(WATCHDOG_S)
    try:
        s, desc = hw.run_session(r, nb, config=config_of(cfg), cfg_text=cfg)
    finally:
        signal.alarm(0)
        signal.signal(signal.SIGALRM, old)
    s.cfg_text = cfg
    return s, desc


# ---------------------------------------------------------------------------------------------- correspondence
def event_kinds(impl_line):
    out = []
    for e in impl_line.split(" | ")[0].split(" ; "):
        if not e:
            continue
        head = e.split(" ", 1)[0]
        if head.startswith("t:"):
            out.append(head)
        elif head == "exc":
            out.append("exc:" + e.rsplit(" ", 1)[1])
        elif head in ("ended", "aborted"):
            out.append(head + ":" + e.rsplit(" ", 1)[1])
        elif head == "req":
            out.append("req:h%s" % e.split(" ")[2])
        elif head.startswith("a:") or head in ("request", "lent"):
            continue
        else:
            out.append(head)
    return out


def signatures_of(impl_line):
    """distinct = (previous touch kinds since the last frame, the frame/outcome that closed them)"""
    sigs = set()
    cur = []
    for k in event_kinds(impl_line):
        if k.startswith("t:"):
            if len(cur) < 6:
                cur.append(k[2:])
        else:
            sigs.add(",".join(cur) + ">" + k)
            cur = []
    return sigs


def correspondence(ctx):
    c = Corr()
    c.rule = ("seeded sessions of 4-11 bursts x 1-4 hostile messages (generator: harness/handlers_world.py Gen) against a "
              "real Connection serving the canary service, 6/7 under the default configuration and 1/7 under eight other "
              "switch settings; a case (= one message's processing) is non-trivial unless it produced nothing but a plain "
              "reply without any touch; distinct = distinct (sequence of touch kinds since the previous frame, the frame or "
              "outcome that ended it incl. exception class)")
    n_sessions = ctx.budget(1400, 11000)
    lines, impls, meta = [], [], []
    t0 = time.time()
    nmsg = 0
    for i in range(n_sessions):
        try:
            s, desc = run_case(ctx.seed, i)
        except rt.Unobservable as ex:
            c.count("unobservable:" + str(ex)[:60])
            continue
        except SessionHang as ex:
            c.count("hang")
            c.disagreements.append(dict(case=dict(kind="history", seed=ctx.seed, index=i), first_difference=-1,
                                        impl="the serving thread hangs (%s)" % ex, model="every session terminates"))
            continue
        except Exception as ex:  # noqa
            c.error = "session %d crashed the harness: %r" % (i, ex)
            return c
        nmsg += s.sent
        if len(s.gen.held) >= 2:
            c.count("self-check:sessions-in-which-the-peer-obtained-two-or-more-references")
        lines.append(s.final_model_line)
        impls.append(s.final_impl)
        meta.append((i, s.cfg_text, desc, s.hits))
        c.count("config:" + s.cfg_text)
        c.count("other-connection:" + s.second_desc.split(", config")[0].replace("other connection: ", "")
                + (", own config" if "default" not in s.second_desc.split("config ")[-1][:8] else ", default config"))
        if time.time() - t0 > ctx.budget(70, 700):
            c.count("stopped-early-at-session", i)
            break
    unobs = sum(v for k, v in c.distribution.items() if k.startswith("unobservable:"))
    if unobs * 50 > n_sessions:
        # the recorder gives up on sessions it cannot map to the model's events; that must stay a rarity, else a changed
        # rpyc could hide behind it
        c.disagreements.append(dict(case=dict(kind="history", seed=ctx.seed, index=-1), first_difference=-1,
                                    impl="%d of %d sessions were not observable: %r" % (
                                        unobs, n_sessions, sorted((k, v) for k, v in c.distribution.items() if k.startswith("unobservable:"))),
                                    model="at most 2% of the sessions may be unobservable"))
    ok_sessions = c.distribution.get("self-check:sessions-in-which-the-peer-obtained-two-or-more-references", 0)
    if lines and ok_sessions * 2 < len(lines):
        c.error = ("harness self-check failed: in only %d of %d sessions did the scripted peer obtain references through the "
                   "exposed interface (the canary service or the recorder is broken)" % (ok_sessions, len(lines)))
        return c
    try:
        outs = run_driver(lines, exe="drv_handlers")
    except DriverError as ex:
        c.error = str(ex)
        return c
    keys_calls = 0
    for (i, cfg, desc, hits), want, got in zip(meta, impls, outs):
        g = hw.model_core(got)
        kinds = event_kinds(want)
        c.evaluations += sum(len(b) for b in desc)
        for k in kinds:
            c.count(("touch:" + k[2:]) if k.startswith("t:") else ("out:" + k.split(" ")[0]))
        sg = signatures_of(want)
        sg.discard(">reply")
        c.signatures |= sg
        keys_calls += len(hits["keys"])
        if "NOT-MODELLED" in got or "NO-ANSWER" in got:
            c.count("model:not-modelled-or-diverged")
        lured = [m for m in hits.get("new_modules", []) if m in hw.CANARY_MODULES or m.split(".")[0] in hw.LURE_MODULES
                 or m.startswith("concurrent.futures.")]
        if cfg == "default" and (hits["imported"] or hits["imports"] or hits["pickle"] or hits["denied_attr"]
                                 or hits["denied_call"] or hits["keys"] or lured or hits["module_hooks"]
                                 or (armed("class_factory_reads_no_module_object") and hits["module_object_reads"])
                                 or (armed("cmp_respects_object_hook") and _hook_bypassed(hits["special"]))
                                 or hw.illegitimate_writes(hits["state_writes"])):
            # the canaries are independent of the recorder: under the default configuration none may ever be hit
            c.disagreements.append(dict(
                case=dict(kind="history", seed=ctx.seed, index=i, config=cfg, sent=desc), first_difference=-1,
                impl=("canaries hit: module-hooks=%r module-object-reads=%r hook-bypassed=%r " % (
                    hits["module_hooks"][:2], hits["module_object_reads"][:2], _hook_bypassed(hits["special"])[:2]) + "imported=%r import-calls=%r pickle=%r denied-attr=%r denied-call=%r keys=%r modules=%r "
                      "state-writes=%r" % (hits["imported"][:2], hits["imports"][:2], hits["pickle"][:2], hits["denied_attr"][:2],
                                           hits["denied_call"][:2], hits["keys"][:2], lured[:3],
                                           hw.illegitimate_writes(hits["state_writes"])[:2]))[:400],
                model="the model has no such touch under the default configuration (no_import / no_pickle / touch_policy)"))
        elif g != want:
            we, ge = want.split(" | ")[0].split(" ; "), g.split(" | ")[0].split(" ; ")
            k = 0
            while k < min(len(we), len(ge)) and we[k] == ge[k]:
                k += 1
            c.disagreements.append(dict(
                case=dict(kind="history", seed=ctx.seed, index=i, config=cfg, sent=desc),
                first_difference=k,
                impl=(we[k] if k < len(we) else "<end> | " + " | ".join(want.split(" | ")[1:]))[:400],
                model=(ge[k] if k < len(ge) else "<end> | " + " | ".join(g.split(" | ")[1:]))[:400]))
        elif len(c.samples) < 8 and i % 251 == 7:
            c.samples.append(dict(session=i, config=cfg, sent=desc[-2:], events=want.split(" | ")[0].split(" ; ")[-12:],
                                  table=want.split(" | ")[1][:300]))
    c.count("keys()-run-on-a-held-object(must be 0)", keys_calls)
    try:
        from rpyc.core import vinegar as _v
        c.extra["global_cache_sizes_after_run"] = dict(generic_exceptions=len(_v._generic_exceptions_cache),
                                                       exception_classes=len(_v._exception_classes_cache))
    except Exception:  # noqa
        pass
    c.extra["measured"] = hw.measured()
    c.extra["expected_fixed"] = dict(EXPECTED_FIXED)
    for k_, v_ in hw.measured().items():
        if not v_ and EXPECTED_FIXED[k_]:
            c.disagreements.append(dict(case=dict(kind="history", seed=ctx.seed, index=-1), first_difference=-1,
                                        impl="measured on the code under test: %s is False" % k_,
                                        model="%s (a repaired weakness; EXPECTED_FIXED in harness/props/c07.py)" % k_))
        elif not v_:
            c.count("known-weakness(measured, clause not armed):" + k_)
    c.extra["sessions"] = len(lines)
    c.extra["messages"] = nmsg
    c.extra["unpoliced_by_design"] = [
        "HANDLE_CALL on any held object (args must be a tuple and kwargs a tuple of pairs; members are the callee's business)",
        "repr", "str", "hash", "dir", "HANDLE_BUFFITER islice(iter(obj))", "HANDLE_INSTANCECHECK isinstance(_, obj)",
        "HANDLE_CTXEXIT bool(exc) / raise exc", "HANDLE_INSPECT get_methods", "hasattr(obj, '____conn__')", "get_id_pack(obj)",
        "a type's own _rpyc_getattr/_rpyc_setattr/_rpyc_delattr hook"]
    c.exhaustive = False
    return c


# ---------------------------------------------------------------------------------------------- direct oracle
def _local_refs(pkg, depth=0):
    """LOCAL_REF ids inside a boxed package (as the statement's 'identifiers' - read off the message we sent)"""
    out = []
    if depth > 8 or type(pkg) is not tuple or len(pkg) != 2:
        return out
    label, value = pkg
    try:
        if label == 3:
            out.append(value)
        elif label == 2 and type(value) in (tuple, frozenset):
            for x in value:
                out += _local_refs(x, depth + 1)
    except Exception:  # noqa
        pass
    return out


def _collect_names(group, named):
    """every dotted prefix of every text that could be taken for a module path in what the peer sends"""
    def walk(v, d):
        if d > 8:
            return
        if type(v) is str:
            parts = v.split(".")
            if 0 < len(parts) <= 6 and all(p.isidentifier() for p in parts):
                for k in range(1, len(parts) + 1):
                    named.add(".".join(parts[:k]))
        elif type(v) in (tuple, frozenset):
            for x in v:
                walk(x, d + 1)
    for _kind, m in group:
        walk(m, 0)


LAST_SENT = []      # what the most recent oracle_session wrote, burst by burst (for the replay file)


def _unboxes_to_tuple(pkg):
    """would `_unbox(pkg)` give an exact tuple (as far as the sender can tell from the package it wrote)"""
    if type(pkg) is not tuple or len(pkg) != 2 or type(pkg[0]) is not int:
        return None                       # irregular package: not judged
    if pkg[0] == 1:
        return type(pkg[1]) is tuple
    if pkg[0] == 2:
        return True
    if pkg[0] in (3, 4):
        return False
    return None


def _forbidden_objects(s):
    """objects of the serving process the canary service never hands out, found in the table of references lent to the
    peer: 'obtain a reference to an object that was never sent to that peer'"""
    import os
    import types
    from rpyc.core import protocol
    out = []
    for key, slot in list(s.conn._local_objects._dict.items()):
        obj = slot[0]
        if obj is s.conn or isinstance(obj, protocol.Connection) or isinstance(obj, types.ModuleType) or obj is os.environ \
                or obj is sys.modules or obj is protocol.DEFAULT_CONFIG or obj is hw.HITS or obj is rt.REC:
            out.append("%s (lent as %r)" % (type(obj).__name__, key[0] if type(key) is tuple and key else key))
    return out


def _cross_connection_probe(s, g, r):
    """two connections of one process: the hostile peer of connection 1 registers a callback with an ordinary
    publish/subscribe service and queues its answer to it - an exception naming a builtin class; the innocent peer of
    connection 2 publishes.  Whatever the answer names, connection 2's request must be answered and connection 2 must
    stay usable."""
    import builtins
    from rpyc.core import brine
    if s.second_phase == "closed" or s.ended or s.conn.closed or s.conn2.closed or not g.held:
        return None
    names = sorted(n for n, v in vars(builtins).items() if isinstance(v, type) and issubclass(v, BaseException))
    cls = r.choice(names + ["KeyboardInterrupt", "SystemExit", "GeneratorExit", "BaseException"] * 8)
    root1 = g.held[0]
    got = s.burst([("v", (1, 9001, (8, (2, ((3, root1), (1, "subscribe"), (2, ((4, ("builtins.function", 990, 1)),)))))))])
    if not any(type(m) is tuple and m[:2] == (2, 9001) for m in got):
        return None
    g.learn(got)
    nxt = len(g.out_seqs)
    # what connection 1's peer has ready for the next question it is asked
    payload = (("builtins", cls), (), (), "tb")
    s.srv.inbox += hw.frame(brine.dump((3, nxt, payload)))
    saved, rt.REC = rt.REC, None
    try:
        p2 = s.conn2._channel.stream.peer
        p2.write(hw.frame(brine.dump((1, 9002, (8, (2, ((3, s.other_ids[0]), (1, "publish"), (1, (5,)))))))))
        escaped = None
        try:
            while s.conn2._channel.stream.inbox and not s.conn2.closed:
                s.conn2.serve(0)
        except BaseException as ex:  # noqa
            escaped = ex
        answers = [m for m in s._drain(p2) if type(m) is tuple and len(m) == 3 and m[0] in (2, 3) and m[1] == 9002]
    finally:
        rt.REC = saved
    if escaped is not None or not answers or s.conn2.closed:
        return ("an exception reply naming builtins.%s, sent by the peer of connection 1 in answer to a callback, %s on connection 2 "
                "(another client's connection): its request was %s" % (
                    cls, "made %s escape serve()" % type(escaped).__name__ if escaped is not None else "caused damage",
                    "answered" if answers else "never answered"))
    return None


# two reported weaknesses of the pinned code and whether the tree is expected to have them repaired.  The clauses about them
# (in the canary cross-check of the correspondence and in the direct oracle) are armed as soon as EITHER this says so or the
# code is measured to behave (handlers_world.measured); once an entry is True here, measuring False is itself a failure -
# so a repair is picked up without a false alarm, and its later loss is caught.
EXPECTED_FIXED = dict(cmp_respects_object_hook=True, class_factory_reads_no_module_object=True)


def armed(key):
    return EXPECTED_FIXED[key] or hw.measured()[key]


def _hook_bypassed(special):
    """special methods run on the `Hooked` canary (its own `_rpyc_getattr` allows x, exposed_m, __exit__ only) that no
    handler reaches except through an attribute access (`__iter__` is excluded: HANDLE_BUFFITER iterates by design)"""
    return [h for h in special if h[0] == "h4" and h[1] in ("__getitem__", "__lt__")]


def _must_refuse(m):
    """the repaired handlers' duty, read off the message we are about to send: HANDLE_DEL with a count that is not an
    exact int >= 1, HANDLE_CALL / HANDLE_CALLATTR with args or kwargs that are not exact tuples -> (why, ) or None"""
    try:
        msg, _seq, raw = m
        if type(msg) is not int or msg != 1 or type(raw) is not tuple or len(raw) != 2:
            return None
        h, argpkg = raw
        if type(h) is not int or type(argpkg) is not tuple or len(argpkg) != 2:
            return None
        if argpkg[0] == 2 and type(argpkg[1]) is tuple:
            items = list(argpkg[1])
        elif argpkg[0] == 1 and type(argpkg[1]) is tuple:
            items = [(1, v) for v in argpkg[1]]
        else:
            return None
    except Exception:  # noqa
        return None
    if h == 15 and len(items) == 2:
        c = items[1]
        if type(c) is tuple and len(c) == 2 and type(c[0]) is int:
            if (c[0] == 1 and (type(c[1]) is not int or c[1] < 1)) or c[0] in (2, 3, 4):
                return "HANDLE_DEL with a count that is not a positive int"
    pos = {7: (1, 2), 8: (2, 3)}.get(h)
    if pos and len(items) in (pos[0] + 1, pos[1] + 1):
        for k in pos:
            if k < len(items) and _unboxes_to_tuple(items[k]) is False:
                return "HANDLE_CALL%s with %s that is not a tuple" % ("ATTR" if h == 8 else "", "args" if k == pos[0] else "kwargs")
    return None


def oracle_session(seed, index, n_bursts=None):
    """None if the statement holds on this session (real code only, default configuration), else a description.
    Messages are sent ONE AT A TIME here, so that what each one caused can be told apart."""
    import signal
    hw.ensure_canary_modules()
    r, _cfg, nb = session_case(seed, index, n_bursts)
    del LAST_SENT[:]
    problems = []
    mods_before = set(sys.modules)
    old = signal.signal(signal.SIGALRM, _alarm)
    rt.GUARD_DECREF = False
    phase = r.choice(["holding", "holding", "released", "closed"])
    second_cfg = r.choice(hw.SECOND_CONFIGS)
    second_first = r.chance(1, 2)
    named = set()                  # module names (every dotted prefix) the peer put into messages
    sess = None
    try:
        with hw.Session(config={}, second_phase=phase, second_cfg=second_cfg, second_first=second_first) as s:
            sess = s
            LAST_SENT.append([("other-connection", "%s; opened %s; config %r" % (
                phase, "first" if second_first else "second",
                dict((k, sorted(v) if isinstance(v, set) else v) for k, v in (second_cfg or {}).items())))])
            g = hw.Gen(r, s)
            boxed = []                 # every id the server ever boxed to this peer on this connection
            plan = [g.setup_burst] if r.chance(9, 10) else []
            n_requests = {}
            n_responses = {}
            for b in range(nb):
                if s.ended:
                    break
                if plan:
                    maker = plan.pop(0)
                elif b < 3 and g.held and r.chance(3, 4):
                    maker = g.fetch_burst
                elif g.held and r.chance(1, 8):
                    maker = g.fetch_burst
                else:
                    maker = g.hostile_burst
                msgs = maker()
                LAST_SENT.append([(k, repr(m)[:300]) for k, m in msgs])
                got_all = []
                # one message at a time, except that answers (replies / exceptions) travel with the request before them:
                # they are what the peer has ready for the server's own questions (HANDLE_INSPECT, callbacks)
                groups = []
                for kind, m in msgs:
                    is_answer = kind == "v" and type(m) is tuple and len(m) == 3 and type(m[0]) is int and m[0] in (2, 3)
                    if groups and is_answer:
                        groups[-1].append((kind, m))
                    else:
                        groups.append([(kind, m)])
                for group in groups:
                    if s.ended:
                        break
                    kind, m = group[0]
                    _collect_names(group, named)
                    foreign, key, refuse = None, None, None
                    if kind == "v":
                        try:
                            from rpyc.core import brine
                            msg, seq, raw = brine.load(brine.dump(m))    # as `_dispatch` unpacks it (any 3-iterable)
                        except Exception:  # noqa
                            msg = None
                        if msg is not None and msg == 1:
                            key = repr(seq)
                            n_requests[key] = n_requests.get(key, 0) + 1
                            if type(raw) is tuple and len(raw) == 2:
                                for idp in _local_refs(raw[1]):
                                    try:
                                        known = idp in boxed
                                    except Exception:  # noqa
                                        known = False
                                    if not known:
                                        foreign = idp
                            refuse = _must_refuse(m)
                    before = (len(hw.HITS.keys_calls), len(hw.HITS.special))
                    before_state = (len(hw.illegitimate_writes(hw.HITS.state_writes)), s.svc.state, len(hw.HITS.denied_attr),
                                    len(hw.HITS.denied_call))
                    signal.alarm(WATCHDOG_S)
                    try:
                        got = s.burst(group)
                    except rt.Unobservable:
                        return None
                    except SessionHang:
                        return ("the serving thread hangs on %s: the message is neither answered nor ignored and the connection "
                                "does not end" % (repr(m)[:200],))
                    finally:
                        signal.alarm(0)
                    got_all += got
                    for f in got:
                        if type(f) is tuple and len(f) == 3 and f[0] in (2, 3):
                            k2 = repr(f[1])
                            n_responses[k2] = n_responses.get(k2, 0) + 1
                            if f[0] == 2 and k2 == key and foreign is not None:
                                problems.append("a request carrying the identifier %r, which was never boxed to this peer on this "
                                                "connection, was answered with a reply" % (foreign,))
                            if f[0] == 2 and k2 == key and refuse:
                                problems.append("%s was answered with a reply: %s" % (refuse, repr(m)[:200]))
                        if type(f) is tuple and len(f) == 3:
                            for idp in _harvest_all(f):
                                if idp not in boxed:
                                    boxed.append(idp)
                    after_state = (len(hw.illegitimate_writes(hw.HITS.state_writes)), s.svc.state, len(hw.HITS.denied_attr),
                                   len(hw.HITS.denied_call))
                    if after_state != before_state and len(problems) < 4:
                        problems.append("after %s: state writes %r, service state %r, denied attributes %r, denied calls %r" % (
                            repr(m)[:220], hw.illegitimate_writes(hw.HITS.state_writes)[before_state[0]:][:3], s.svc.state,
                            hw.HITS.denied_attr[before_state[2]:][:3], hw.HITS.denied_call[before_state[3]:][:3]))
                    if not s.conn.closed:
                        bad = _forbidden_objects(s)
                        if bad and len(problems) < 4:
                            problems.append("after %s the peer holds a reference to an object of the serving process that was never "
                                            "sent to it: %s" % (repr(m)[:220], ", ".join(bad[:3])))
                    # (answers travelling with the request may hand the server's own objects back to it - e.g. as the
                    # method list of a HANDLE_INSPECT reply, which class_factory iterates: that is not the handler's doing)
                    answers_lend = False
                    for _k2, a in group[1:]:
                        try:
                            answers_lend = answers_lend or (a[0] == 2 and bool(list(_local_refs(a[2]))))
                        except Exception:  # noqa
                            answers_lend = True
                    if refuse and not answers_lend and (len(hw.HITS.keys_calls), len(hw.HITS.special)) != before:
                        problems.append("%s made the protocol run %r on a held object: %s" % (
                            refuse, (hw.HITS.keys_calls[before[0]:] + hw.HITS.special[before[1]:])[:3], repr(m)[:200]))
                g.learn(got_all)
            if not problems:
                signal.alarm(WATCHDOG_S)
                try:
                    cross = _cross_connection_probe(s, g, r)
                except (rt.Unobservable, SessionHang):
                    cross = None
                finally:
                    signal.alarm(0)
                if cross:
                    problems.append(cross)
            ended = s.ended or s.conn.closed
            if not ended:
                for key, n in n_requests.items():
                    if n_responses.get(key, 0) != n:
                        problems.append("request seq %s: %d sent, %d answered, connection still open" % (key, n, n_responses.get(key, 0)))
                for key in s.conn._local_objects._dict:
                    if key not in boxed:
                        problems.append("the table holds %r, which was never boxed to this peer" % (key,))
            if hw.HITS.denied_attr:
                problems.append("policy-denied attribute looked up on a canary: %r" % (hw.HITS.denied_attr[:3],))
            if hw.HITS.denied_call:
                problems.append("policy-denied callable ran: %r" % (hw.HITS.denied_call[:3],))
            if hw.HITS.keys_calls:
                problems.append("keys() of a held object ran (a name the policy denies): %r" % (hw.HITS.keys_calls[:3],))
            if hw.illegitimate_writes(hw.HITS.state_writes) or s.svc.state != 0:
                problems.append("service state changed by an attempt the service never allowed: %r state=%r" % (
                    hw.illegitimate_writes(hw.HITS.state_writes)[:3], s.svc.state))
            if rt.PICKLE_LOG:
                problems.append("pickle was used: %r" % (rt.PICKLE_LOG[:3],))
            if rt.IMPORT_LOG or hw.IMPORTED:
                problems.append("an import was attempted: %r %r" % (rt.IMPORT_LOG[:3], hw.IMPORTED[:3]))
            if armed("class_factory_reads_no_module_object") and hw.HITS.module_object_reads:
                problems.append("attributes %r were read on a module-level object of the serving process that was never sent "
                                "(named by the peer as a class)" % (hw.HITS.module_object_reads[:3],))
            if armed("cmp_respects_object_hook") and _hook_bypassed(hw.HITS.special):
                problems.append("special methods %r of an object whose own _rpyc_getattr refuses them were invoked"
                                % (_hook_bypassed(hw.HITS.special)[:3],))
            if hw.HITS.module_hooks:
                problems.append("a module-level __getattr__ hook ran with a peer-chosen name: %r" % (hw.HITS.module_hooks[:3],))
            new = [m for m in set(sys.modules) - mods_before
                   if m in hw.CANARY_MODULES or m in named or any(m.startswith(n + ".") for n in named)]
            if new:
                problems.append("the process imported %r, named only by the peer" % sorted(new))
    finally:
        rt.GUARD_DECREF = True
        signal.alarm(0)
        signal.signal(signal.SIGALRM, old)
    if problems and sess is not None and getattr(sess, "default_changed", None):
        problems.append("(opening the other connection changed the process-wide DEFAULT_CONFIG: %s)" % "; ".join(sess.default_changed)[:300])
    return "; ".join(problems) if problems else None


def _harvest_all(m):
    out = []

    def walk(p, d):
        if d > 8 or type(p) is not tuple:
            return
        if len(p) == 2 and type(p[0]) is int and p[0] == 4:
            out.append(p[1])
        for x in p:
            walk(x, d + 1)
    walk(m[2], 0)
    return out


def _signature(msg):
    return msg.split(":")[0].split("%")[0][:60]


def oracle_search(ctx, corr, broken):
    deadline = time.time() + ctx.budget(40, 600)
    tried = set()

    def attempt(seed, index):
        tried.add((seed, index))
        try:
            msg = oracle_session(seed, index)
        except Exception as ex:  # noqa
            return None
        if not msg:
            return None
        sig = _signature(msg)
        if sig in ctx.known_signatures:
            return None
        nb = None
        for k in range(1, 12):        # shrink: the shortest prefix of the session that still fails
            try:
                m2 = oracle_session(seed, index, k)
            except Exception:  # noqa
                m2 = None
            if m2:
                nb, msg = k, m2
                break
        return dict(kind="history", seed=seed, index=index, n_bursts=nb, sent=[list(b) for b in LAST_SENT]), msg, sig

    for d in corr.disagreements[:100]:
        found = attempt(d["case"]["seed"], d["case"]["index"])
        if found:
            return found
        if time.time() > deadline:
            return None
    i = 0
    while time.time() < deadline:
        if (ctx.seed + 1000, i) not in tried:
            found = attempt(ctx.seed + 1000, i)
            if found:
                return found
        i += 1
    return None


# ---------------------------------------------------------------------------------------------- standing probes
def _deep_bytes(depth, seq, kind):
    """a PING request whose argument is nested `depth` levels deep, assembled byte by byte (no recursion here):
    kind 'tuple': LABEL_TUPLE packages inside one another (recursion in `_unbox`); kind 'value': one LABEL_VALUE whose
    value is a deeply nested tuple (recursion in brine)"""
    from rpyc.core import brine
    t1, t2, t3 = brine.TAG_TUP1, brine.TAG_TUP2, brine.TAG_TUP3
    if kind == "tuple":
        inner = brine.dump((1, 5))
        for _ in range(depth):
            inner = t2 + brine.dump(2) + t1 + inner
        args = t2 + brine.dump(2) + t1 + inner                      # (2, (<deep package>,))
    else:
        v = brine.dump(5)
        for _ in range(depth):
            v = t1 + v
        args = t2 + brine.dump(1) + t1 + v                          # (1, (<deep value>,))
    return t3 + brine.dump(1) + brine.dump(seq) + t2 + brine.dump(1) + args


def known_probes(ctx):
    """statement-level probes run on EVERY check (real code only): packages far deeper / larger than anything sane must
    end in an exception reply or in that one connection closing - never in a hang, a dead process, or silence"""
    import signal
    out = []
    problems = []
    old = signal.signal(signal.SIGALRM, _alarm)
    try:
        for kind in ("tuple", "value"):
            for depth in (50, 400, 800, 1200, 3000, 20000):
                signal.alarm(WATCHDOG_S)
                try:
                    with hw.Session(config={}, second=False) as s:
                        rt.REC = None                 # the recorder's own frames would only eat stack
                        got = s.burst([("g", _deep_bytes(depth, 77, kind))])
                        answered = [m for m in got if type(m) is tuple and len(m) == 3 and m[0] in (2, 3) and m[1] == 77]
                        if not answered and not (s.ended or s.conn.closed):
                            problems.append("%s nesting %d: no answer and the connection stays open" % (kind, depth))
                        elif answered and not (s.ended or s.conn.closed):
                            again = s.burst([("v", (1, 78, (1, (1, ("still there",)))))])
                            if not any(type(m) is tuple and m[:2] == (2, 78) for m in again):
                                problems.append("%s nesting %d: answered, but the connection no longer serves" % (kind, depth))
                except SessionHang:
                    problems.append("%s nesting %d: the serving thread hangs" % (kind, depth))
                except rt.Unobservable:
                    pass
                finally:
                    signal.alarm(0)
        signal.alarm(WATCHDOG_S)
        try:
            with hw.Session(config={}, second=False) as s:
                rt.REC = None
                big = bytes(3 * 1024 * 1024)
                got = s.burst([("v", (1, 79, (1, (1, (big,)))))])
                if not any(type(m) is tuple and m[:2] == (2, 79) and m[2] == (1, big) for m in got):
                    problems.append("a 3 MiB argument was not echoed by HANDLE_PING")
        except SessionHang:
            problems.append("a 3 MiB argument hangs the serving thread")
        finally:
            signal.alarm(0)
    finally:
        signal.alarm(0)
        signal.signal(signal.SIGALRM, old)
        rt.REC = None
    out.append(("C07:deep-or-large-package-not-contained", bool(problems),
                "deep / large packages: " + ("; ".join(problems) if problems else "all answered with an exception reply, echoed, or "
                                             "that one connection closed")))
    ctx.log("probes: deep/large packages %s" % ("FAILED: " + "; ".join(problems) if problems else "contained"))
    return out


def replay(case):
    out = dict(case=dict((k, v) for k, v in case.items() if k != "sent"))
    seed, index, nb = case["seed"], case["index"], case.get("n_bursts")
    try:
        s, desc = run_case(seed, index, nb, force_default=("config" not in case))
        out["sent"] = desc
        out["implementation"] = s.final_impl.split(" ; ")[-25:]
        out["model"] = hw.model_core(run_driver([s.final_model_line], exe="drv_handlers")[0]).split(" ; ")[-25:]
        out["agree"] = hw.model_core(run_driver([s.final_model_line], exe="drv_handlers")[0]) == s.final_impl
    except (rt.Unobservable, SessionHang) as ex:
        out["implementation"] = "not comparable with the model: %s" % ex
    out["oracle"] = oracle_session(seed, index, nb) or "holds"
    return out
