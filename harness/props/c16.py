"""C16 — a server keeps serving good clients whatever bad clients do.

Correspondence: the REAL `ThreadedServer`, `ThreadPoolServer` (in this process) and `ForkingServer` (in a subprocess),
over TCP and unix sockets, with and without an authenticator, against the containment automaton `Rpyc.Srv`
(lean/RpycModel/Srv/Server.lean) through `drv_server`.  A case interleaves well-behaved clients (connect, ping with
checked echo, a call that lends an object by reference and checks the state of its own service instance, use of
another connection's object id, graceful close) with hostile sessions: random bytes, bad tags, a ping frame truncated at
every offset, bit flips in header and payload (the C04 mutation corpus re-framed), corrupt and truncated compressed
payloads, the length field 0xFFFFFFFF, several frames in one write, disconnecting at each point, failing, stalled and
slow authentication (credentials sent by a later operation), connections reset right after the handshake (SO_LINGER 0,
in bursts), errors from the server's accept() injected between the clients' actions, well-formed requests that name builtin / foreign types for the sender's own objects and answer the server's
class inspection with nothing, junk or dangerous method names (while well-behaved clients pass by-reference arguments of
those builtin types - range, dict views, map, zip, enumerate, reversed, generators, memoryview, iterators, functions - to
a service method that iterates, measures, indexes or calls them through callbacks, results checked; hostile clients also
answer the server's class inspection or its call on their object with exception replies naming KeyboardInterrupt, SystemExit,
GeneratorExit, BaseException, StopIteration), two clients logging in while the service constructor of a third is still running
(each then asks which credentials and peer address its connection carries), and forged references: a client sends, on its own connection, the id of an object lent to another client
(while that one holds it, after it released it, after it disconnected).  The byte strings go to the model as bytes: the model cuts them into frames itself (`classify`, with the
brine decoder of C04) — only `zlib.decompress` results are supplied as environment facts.  After each operation the
harness waits (ceiling 10 s, 3 ms polls, no fixed sleeps) until the observable state of the real server equals the
model's; a case that does not get there is run a second time before it is believed.

Direct oracle (real code only, written from the statement): `oracle_case`.
"""
import struct
import time
import zlib

import servers
from lineproto import run_driver, DriverError
from pipeline import Corr
from prng import Rng

ID = "C16"
LEAN_MODULE = "RpycModel.Props.C16"
NAMESPACE = "Rpyc.Props.C16"
GEN = ["Server.lean", "Wire.lean", "Brine.lean"]
DRIVERS = ["drv_server"]
TRUSTED = [
    "PARTIAL: the theorems are about the containment / bookkeeping automaton (which records, tables, threads-as-roles "
    "and counters each client action can touch); threads, sockets, poll(2) and fork are real only in the correspondence, "
    "which samples them — kernel socket, scheduler and process behaviour is modelled, not verified",
    "modelled, not verified: a decodable REQUEST frame is answered by the guarded `_dispatch_request` (reply or exception) "
    "and the connection continues - except the protocol's own HANDLE_CLOSE with no arguments, which the model classifies "
    "as the end of that connection; requests whose arguments carry remote references (the server calls back to the sender) "
    "are sent by the harness's own `x` / `u` operations only; unsolicited REPLY / EXCEPTION frames are dropped "
    "(`_deliver_response` keeps decode failures to itself); replies carrying remote references, 3-element frozensets and "
    "payloads outside the brine model are resolved by the environment parameter `Env.raises`: the driver reports them "
    "NOT-MODELLED and the case is run on the real server and judged by the direct oracle instead; zlib is an environment "
    "parameter",
    "quiescent states only: each client action is run to the point where every thread is blocked again; interleavings "
    "inside one action (other than the gated ones the harness builds: a blocking on_disconnect, a slow service "
    "constructor) are sampled by the runtime, not enumerated",
    "a request whose handler calls back into the client that sent it (by-reference arguments: `u` / `x` operations) is one "
    "frame to the model, answered when the callbacks are - whatever the client answers them with, exception replies naming "
    "KeyboardInterrupt / SystemExit / GeneratorExit / BaseException / StopIteration included (`x` with the answers from "
    "servers.FIRST_RAISE on); a client that stops answering such callbacks (the server would wait sync_request_timeout) is "
    "not generated",
    "each connection carries the credentials and peer address of its own client: checked by the correspondence (service "
    "hooks are attributed to clients by the peer address the server-side connection was configured with) and by the oracle "
    "(`w`: the client asks); to the model a service constructor that takes its time (option \"gate\") is the bookkeeping state "
    "of an authenticator that waits (`connect k silent` ... `creds k good`); the model has no shared configuration to mix up",
    "rpyc keeps process-wide state (netref class caches): the direct oracle is evaluated in a fresh interpreter per script, "
    "so that a reported script reproduces on its own",
    "forking server: object ids are per process, so the model's global object counter idealises them (a foreign id that "
    "coincides with a local one resolves to the prober's own object; `probe` operations are not generated for it)",
    "the harness observes the real server through its public attributes, a recording wrapper around the pool's poll object, "
    "/proc/self/fd, service hooks, and a class-level wrapper around `Connection.serve` counting consumed frames (installed at "
    "run time for the duration of a case, never in /repo)",
]
ASSUMPTIONS = [
    "an `accept()` that fails - for lack of descriptors or buffers (EMFILE, ENOBUFS: a client only has to open connections "
    "up to the limit), or because a connection was aborted while being set up (ECONNABORTED, EPROTO) - is IN scope: "
    "operation `E`, injected through a wrapper around the server's listener (the real thing needs the process to run out of "
    "descriptors: fixes/demo_C16_accept_error_kills_server.py part 2), obligation accept_survives_transient_errors, theorems "
    "accept_fault_changes_nothing / run_ignores_accept_faults.  Likewise a newcomer for which no thread / child process can be "
    "started (`spawn()` RuntimeError, `os.fork()` EAGAIN: operation `f<k>`, injected by patching `rpyc.utils.server.spawn` / "
    "`os.fork` in the server process at run time; obligation spawn_failure_turns_client_away, theorem "
    "spawn_failure_turns_one_client_away), and a server process that already holds about a thousand descriptors, so that "
    "its clients' sockets get numbers beyond select()'s 1024 (case option \"hifd\": invisible to the model).  What else fails "
    "when a process is out of descriptors or memory is out of scope; so is latency (the 0.2 s sleeps of the pool's catch-alls under a stream of undecodable frames)",
    "`dict(self.protocol_config, ...)` is a shallow copy: mutable VALUES of a user-supplied protocol_config would be shared "
    "between connections; the harness's configurations have none",
    "a pool has at least one worker thread; server kinds of the quantifier: threaded, pool, forking",
    "KNOWN FINDINGS carried by the model (pool server only): (a) >= nbThreads clients holding an incomplete frame open "
    "occupy every worker: C16_pool_counterexample, signature C16:pool:>=nbThreads-incomplete-frame-clients; (b) with an "
    "authenticator, one client that sends no credentials occupies the accept thread: C16_pool_stall_counterexample, "
    "signature C16:pool:auth-stall-blocks-accept.  `good_client_unaffected` / `accept_survives` are proved for the pool "
    "under exactly the negations of these two conditions",
    "OUTSIDE the model (its `blocked` workers come from incomplete frames and blocking hooks only), probed on the real pool once "
    "listed as known findings: complete requests carrying a by-reference object whose INSPECT the sender never answers occupy "
    "a worker for sync_request_timeout each (signature C16:pool:>=nbThreads-requests-awaiting-peer-answer; such frames are "
    "NOT-MODELLED and judged by the oracle); a departure by RST runs the service's on_disconnect in the pool's polling thread "
    "(C16:pool:rst-departure-runs-disconnect-hook-in-poller; RST and FIN are one operation to the model)",
    "'arbitrary byte strings' is per write: in the model a hostile client that sent an incomplete frame can only leave (it "
    "cannot complete the frame later)",
]
EXPLANATION = ("Theorems for every sequence of client actions including arbitrary byte strings, reused descriptor numbers and "
               "blocking hooks: accept_survives / new_client_served (threaded, forking; pool unless an authentication is "
               "stalled), good_client_unaffected for arbitrary requests of the good client (threaded, forking: every other "
               "client only ever changes its own record; pool: while a worker is free at every point), isolation (all "
               "kinds, all histories: service instances and object tables are never shared, a foreign object id does not "
               "resolve); the pool counterexamples are proved and reproduced on the real server on every run.")

KINDS = ["threaded", "pool", "forking"]
SIG_STARVE = "C16:pool:>=nbThreads-incomplete-frame-clients"
SIG_STALL = "C16:pool:auth-stall-blocks-accept"
SIG_RSTHOOK = "C16:pool:rst-departure-runs-disconnect-hook-in-poller"
SIG_AWAIT = "C16:pool:>=nbThreads-requests-awaiting-peer-answer"
HEADER = struct.Struct("!LB")


# ---------------------------------------------------------------------------------------------- hostile bytes
def frame(payload, flag=0):
    return HEADER.pack(len(payload), flag) + payload + b"\n"


def frames_of(data):
    """(complete frames [(flag, body)], incomplete_tail: bool) — the wire grammar only (header, length + 1 bytes)"""
    out, i = [], 0
    while i < len(data):
        if len(data) - i < HEADER.size:
            return out, True
        n, flag = HEADER.unpack_from(data, i)
        if len(data) - i - HEADER.size < n + 1:
            return out, True
        out.append((flag, data[i + HEADER.size:i + HEADER.size + n]))
        i += HEADER.size + n + 1
    return out, False


def awaits_peer(data):
    """does a write contain a complete, decodable REQUEST frame whose arguments carry a by-reference package: handling it makes
    the server ask the sender (INSPECT) and wait for the answer"""
    from rpyc.core import brine, consts

    def has_ref(v):
        if isinstance(v, tuple):
            if len(v) == 2 and v[0] == consts.LABEL_REMOTE_REF and not isinstance(v[0], bool):
                return True
            return any(has_ref(x) for x in v)
        return False
    for flag, body in frames_of(data)[0]:
        try:
            v = brine.load(zlib.decompress(body) if flag else body)
            if isinstance(v, tuple) and len(v) == 3 and v[0] == consts.MSG_REQUEST and has_ref(v[2]):
                return True
        except Exception:  # noqa
            pass
    return False


def zlib_facts(data):
    facts = []
    for flag, body in frames_of(data)[0]:
        if flag:
            try:
                res = zlib.decompress(body).hex()
            except zlib.error:
                res = "E"
            facts.append("%s=%s" % (body.hex(), res))
    return ",".join(facts)


def raw_tok(k, data):
    z = zlib_facts(data)
    return "r%d:%s%s" % (k, data.hex(), (":" + z) if z else "")


def hostile_corpus():
    """fixed part: every truncation of a ping frame, absurd lengths, corrupt / truncated compressed payloads, bad tags"""
    ping = servers.ping_frame()
    payload = ping[HEADER.size:-1]
    out = [ping[:i] for i in range(1, len(ping))]                      # truncated at every offset (all incomplete)
    out += [b"\xff\xff\xff\xff", b"\xff\xff\xff\xff\x00", b"\xff\xff\xff\xff\x00" + b"A" * 30,
            b"\x7f\xff\xff\xff\x01xyz", b"\x00\x00\x10\x00\x00" + b"B" * 100]
    out += [frame(b"\x78\x9c garbage that is not zlib", 1), frame(zlib.compress(payload)[:-3], 1),
            frame(zlib.compress(payload), 1), frame(zlib.compress(b"\xff\xfe" * 2000), 7),
            frame(zlib.compress(payload), 1)[:-4]]
    out += [frame(bytes([t])) for t in (0x07, 0x09, 0x1c, 0xff, 0xf0)]                       # unknown / unused tags
    out += [frame(b""), frame(b"\x00"), frame(payload[:-1]), frame(payload + b"\x00"), frame(payload) * 3,
            frame(payload) + ping[:7], frame(b"\xff" * 5) + frame(payload)]
    # more frames in one write than the pool serves in one go (requestBatchSize = 10): the connection goes round the queue
    out += [frame(payload) * 12, frame(payload) * 25, frame(payload) * 10 + frame(b"\xff\xfe"), frame(payload) * 11 + ping[:5]]
    out += protocol_frames()
    return out


def protocol_frames():
    """well-formed messages a client has no business sending: the protocol's own goodbye as a request (with no arguments it
    really closes the connection; with one it is a failing request like any other), replies and exception messages nobody
    asked for - plain, undecodable, naming local references that do not exist, naming BaseException classes"""
    from rpyc.core import brine, consts as c
    msgs = [
        (c.MSG_REQUEST, 3, (c.HANDLE_CLOSE, (c.LABEL_TUPLE, ()))),
        (c.MSG_REQUEST, 3, (c.HANDLE_CLOSE, (c.LABEL_VALUE, ()))),
        (c.MSG_REQUEST, 3, (c.HANDLE_CLOSE, (c.LABEL_VALUE, b""))),
        (c.MSG_REQUEST, 3, (c.HANDLE_CLOSE, (c.LABEL_TUPLE, ((c.LABEL_VALUE, 1),)))),
        (1.0, 3, (2.0, (2.0, ()))),
        (c.MSG_REPLY, 9, (c.LABEL_VALUE, 5)), (c.MSG_REPLY, 9, 17), (c.MSG_REPLY, 1, (c.LABEL_LOCAL_REF, 12345)),
        (c.MSG_REPLY, 0, (c.LABEL_TUPLE, ((c.LABEL_VALUE, 1), (c.LABEL_LOCAL_REF, 7), 5))), (c.MSG_REPLY, (), ()),
        (c.MSG_EXCEPTION, 9, (("builtins", "KeyboardInterrupt"), (), (), "tb")),
        (c.MSG_EXCEPTION, 1, (("builtins", "SystemExit"), (1,), (), "tb")),
        (c.MSG_EXCEPTION, 2, (("os", "system"), ("id",), (), "tb")), (c.MSG_EXCEPTION, 9, 5),
        (c.MSG_EXCEPTION, 9, (("builtins", "GeneratorExit"), (), (("__class__", 1),), "tb")), (True, 4, (c.HANDLE_PING, 0)),
    ]
    return [frame(brine.dump(m)) for m in msgs]


def gen_hostile(r, corp):
    k = r.below(10)
    ping = servers.ping_frame()
    payload = ping[HEADER.size:-1]
    if k < 3:
        return r.choice(corp)
    if k == 3:
        return r.bytes(r.range(1, 40))
    if k == 4:                                   # flip one byte anywhere in a ping frame
        b = bytearray(ping)
        b[r.below(len(b))] = r.below(256)
        return bytes(b)
    if k in (5, 6):                              # the C04 mutation corpus on the payload, correctly framed
        import c04
        p = payload
        for _ in range(r.range(1, 2)):
            p = c04.mutate(r, p)
        return frame(p[:2000])
    if k == 7:                                   # wrong length field around the truth
        n = max(0, len(payload) + r.range(-3, 3))
        return HEADER.pack(n, 0) + payload + b"\n"
    if k == 8:
        return frame(r.bytes(r.range(1, 12)), r.choice([0, 1, 255]))
    return b"".join(r.choice(corp) for _ in range(2))[:600]


# ---------------------------------------------------------------------------------------------- cases
def case_dict(kind, transport, auth, nb, toks, opts=()):
    d = dict(kind="history", server=kind, transport=transport, auth=bool(auth), nb=nb, ops=list(toks))
    if opts:
        d["opts"] = sorted(opts)      # harness-side configuration the model does not see (servers.Session)
    return d


def corpus():
    out = []
    t4 = "ffffffff"
    for kind in KINDS:
        for tr in ("tcp", "unix"):
            # a good client before, during and after: garbage, an absurd length held open, an abrupt disconnect inside a
            # header, a new good client after each
            out.append(case_dict(kind, tr, False, 3,
                                 ["c1:g", "p1", "c2:g", "r2:" + frame(b"\xff\xfe\xfd").hex(), "p1", "c3:g", "p3",
                                  "c4:g", "r4:" + t4, "p1", "p3", "c5:g", "p5", "a4", "c6:g", "r6:0000", "a6", "p1", "g3",
                                  "c7:g", "p7", "l1", "l7", "l1"] + ([] if kind == "forking" else ["o7:0", "o1:1", "o1:0"])))
        # authentication: failing, stalled (threaded / forking: harmless), good
        out.append(case_dict(kind, "tcp", True, 3, ["c1:g", "p1", "c2:b", "p1", "c3:g", "p3", "c4:b", "a4", "p1"]))
    for kind in ("threaded", "forking"):
        out.append(case_dict(kind, "tcp", True, 3, ["c1:g", "c2:s", "c3:g", "p3", "c4:s", "p1", "a2", "c5:g", "p5", "a4"]))
        # many more hostile clients holding incomplete frames than a pool would have workers
        toks = ["c1:g", "p1"]
        for k in range(2, 8):
            toks += ["c%d:g" % k, "r%d:%s" % (k, t4), "p1"]
        out.append(case_dict(kind, "unix", False, 2, toks + ["c9:g", "p9", "p1"]))
    for kind in KINDS:
        # connect and reset at once (SO_LINGER 0), many times in a row, with and without an authenticator (TCP only)
        for auth in (False, True):
            out.append(case_dict(kind, "tcp", auth, 3, ["c1:g", "p1"] + ["c%d:r" % k for k in range(2, 10)] +
                                 ["p1", "c10:g", "p10"] + ["c%d:r" % k for k in range(11, 15)] + ["p1", "p10"]))
        # a reference lent to client 1 forged by client 2 on its own connection (str / getattr / hash): while client 1 holds
        # it, after client 1 released it, after client 1 disconnected
        if kind != "forking":
            out.append(case_dict(kind, "tcp", False, 3,
                                 ["c1:g", "l1", "l1", "l1", "c2:g", "p2", "o2:0", "o2:1", "o2:2", "o1:0", "d1:0", "o2:0",
                                  "o1:0", "o1:1", "l2", "o1:3", "o2:3", "g1", "o2:1", "o2:2", "p2"]))
    nuses, nnames = len(servers.USES), len(servers.POISON_NAMES)
    for kind in KINDS:
        # by-reference ARGUMENTS: the service iterates / measures / indexes / calls objects of builtin types that have no
        # pre-built proxy class (range, dict views, map, zip, ...), through callbacks to the client that passed them; a
        # hostile client names those very types (and other clients' classes) for objects of its own and answers the server's
        # class inspection with nothing, junk, or dangerous method names - before and between the well-behaved calls
        toks = ["c1:g", "c2:g"] + ["x1:%d:%d" % (n, n) for n in range(nnames)] + ["u2:%d" % n for n in range(nuses)]
        out.append(case_dict(kind, "tcp", False, 3, toks + ["p2"]))
        toks = ["c1:g", "c2:g", "c3:g"]
        for n in range(nuses):
            toks += ["x1:%d:%d" % (n, n + 1), "u2:%d" % n, "x1:%d:%d" % (n + 7, n + 3), "u3:%d" % ((n + 5) % nuses)]
        out.append(case_dict(kind, "unix", False, 3, toks + ["p2", "p3"]))
    for kind in KINDS:
        # accept() fails (out of descriptors, a connection aborted while being set up, ...) with clients connected, between
        # connects, twice in a row, with a hostile client around: the server goes on, everybody stays served, newcomers come in
        for tr in ("tcp", "unix"):
            out.append(case_dict(kind, tr, tr == "unix", 3, ["c1:g", "p1", "E", "p1", "c2:g", "p2", "E", "E", "p1", "p2", "c3:g",
                                                             "r3:" + frame(b"\xff\xfe\xfd").hex(), "E", "p1", "c4:g", "p4",
                                                             "l1", "E", "p2"]))
    for kind in ("threaded", "forking"):
        # no thread / child process can be started for a newcomer (spawn() / os.fork() fail): it is turned away, the server and
        # everybody it serves go on, the next newcomer is served
        out.append(case_dict(kind, "tcp", False, 3, ["c1:g", "p1", "f2", "p1", "c3:g", "r3:" + frame(b"\xff\xfe\xfd").hex(), "f4",
                                                     "f5", "p1", "c6:g", "p6", "l1", "w6"]))
    for kind in KINDS:
        # a crowd holding connections open: the server process has about a thousand descriptors in use, so the sockets of the
        # clients that come now get numbers beyond 1024; they are served like anybody else, hostile ones are contained
        out.append(case_dict(kind, "tcp", False, 3, ["c1:g", "p1", "c2:g", "r2:" + frame(b"\xff\xfe\xfd").hex(), "p1", "l1",
                                                     "c3:g", "i3:t", "p1", "u1:0", "a3", "c4:g", "p4", "p1"], opts=["hifd"]))
    # descriptor 0 is free in the server process: the first client's server-side socket gets it (in-process kinds)
    for kind in ("pool", "threaded"):
        out.append(case_dict(kind, "tcp", False, 2, ["c1:g", "p1", "c2:g", "r2:" + frame(b"\xff\xfe\xfd").hex(), "p1", "l1", "c3:g",
                                                     "p3", "a2", "p1"], opts=["fd0"]))
    nexc = len(servers.BASE_EXC_NAMES)
    for kind in KINDS:
        # two small writes: an unsolicited REPLY carrying a by-reference object of an unknown class + the pre-sent EXCEPTION
        # reply (SystemExit, KeyboardInterrupt, GeneratorExit, BaseException) to the INSPECT the server then makes: a
        # BaseException out of serve() - more such clients than a pool has workers, some leaving, one repeating it
        toks = ["c1:g", "p1"]
        for i in range(nexc + 1):
            k = i + 2
            toks += ["c%d:g" % k, "y%d:%d" % (k, i)] + (["a%d" % k] if i % 2 else []) + ["p1"]
        toks += ["c20:g", "y20:0", "c21:g", "p21", "u1:0", "p1"]
        out.append(case_dict(kind, "tcp", False, 2, toks))
        # a service whose on_connect asks the peer for its root (what ClassicService does; on the pool that is the accept
        # thread): well-behaved clients answer, hostile ones answer with an exception reply naming SystemExit & co.
        toks = ["c1:g", "p1"]
        for i in range(nexc):
            toks += ["c%d:e" % (i + 2), "p1"]
        toks += ["c10:g", "p10", "l1", "c11:e", "c12:e", "p10", "p1"]
        out.append(case_dict(kind, "unix" if kind == "forking" else "tcp", True, 2, toks, opts=["occ"]))
    pf = protocol_frames()
    for kind in KINDS:
        # every one of the protocol's own messages sent by a client that has no business sending it, each on a connection of
        # its own; the goodbye requests end that connection, everything else is answered or dropped; good clients go on
        toks = ["c1:g", "p1"]
        for n, fr in enumerate(pf):
            toks += ["c%d:g" % (n + 2), raw_tok(n + 2, fr)] + (["p1"] if n % 4 == 3 else [])
        out.append(case_dict(kind, "tcp", False, 3, toks + ["c50:g", "p50", "p1"]))
        # more frames in one write than the pool's batch: 12, 25
        ping_payload = servers.ping_frame()[HEADER.size:-1]
        out.append(case_dict(kind, "unix", False, 2, ["c1:g", "p1", "c2:g", raw_tok(2, frame(ping_payload) * 12), "p1",
                                                      raw_tok(2, frame(ping_payload) * 25), "p1", "c3:g",
                                                      raw_tok(3, frame(ping_payload) * 11 + b"\xff\xff\xff\xff"), "p1", "a3",
                                                      "p1"]))
    for kind in KINDS:
        # the administrator closes the server in the middle of it all (C17's operation; here it only has to be the model's):
        # garbage handled, an incomplete frame held open, a failed authentication - then close, and what the clients see after
        for tr, auth in (("tcp", False), ("unix", True)):
            out.append(case_dict(kind, tr, auth, 3, ["c1:g", "p1", "c2:g", "r2:" + frame(b"\xff\xfe\xfd").hex(), "c3:g",
                                                     "i3:ht", "p1"] + (["c4:b"] if auth else []) +
                                 ["c5:g", "x5:14:6", "p1", "X", "p1", "c6:g", "X"]))
    foreign, first = servers.FOREIGN_NAMES, servers.FIRST_RAISE
    nraise = len(servers.POISON_ANSWERS) - first
    for kind in KINDS:
        # conversations in which the CLIENT answers what the server asks while it handles the client's request - the class
        # inspection of an object of a type the server has never seen, the call on that object - with an exception reply
        # naming KeyboardInterrupt, SystemExit, GeneratorExit, BaseException, StopIteration: more such clients than a pool has
        # workers, one of them several times on one connection; the well-behaved clients go on before, between and after
        toks = ["c1:g", "p1"]
        for i in range(nraise):
            k = i + 2
            toks += ["c%d:g" % k, "x%d:%d:%d" % (k, foreign[i % len(foreign)], first + i)]
            if i % 3 == 2:
                toks += ["p1"]
        toks += ["c30:g"] + ["x30:%d:%d" % (foreign[i % len(foreign)], first + (i * 4) % nraise) for i in range(4)]
        toks += ["p1", "u1:0", "c40:g", "p40", "u40:3"]
        out.append(case_dict(kind, "unix" if kind == "forking" else "tcp", False, 3, toks))
    for tr in ("tcp", "unix"):
        # every connection carries the credentials and the peer address of ITS client: the service's constructor of one client
        # takes its time (`s` with the "gate" option: good credentials at once, the constructor waits for `k<k>:g`) while
        # others log in and are served; each asks the server whose connection it is talking to (`w`)
        out.append(case_dict("threaded", tr, True, 3, ["c1:g", "w1", "c2:s", "c3:g", "w3", "k2:g", "w2", "w3", "w1", "c4:s",
                                                       "c5:s", "c6:g", "k5:g", "w5", "w6", "k4:g", "w4", "w5", "p2", "w2"],
                             opts=["gate"]))
    for kind in KINDS:
        out.append(case_dict(kind, "tcp", True, 3, ["c1:g", "w1", "c2:g", "w2", "c3:b", "w1", "a2", "c4:g", "w4", "w1"]))
    for kind in KINDS:
        # clients that reset while inside the authenticator (slow credentials, then RST) - except on the pool, where one
        # such client is the stall finding: there they reset at once
        if kind == "pool":
            toks = ["c1:g", "p1"] + ["c%d:r" % k for k in range(2, 8)] + ["p1", "c9:g", "p9"]
        else:
            toks = ["c1:g", "p1"]
            for k in range(2, 8):
                toks += ["c%d:s" % k, "z%d" % k]
            toks += ["p1", "c9:g", "p9"]
        out.append(case_dict(kind, "tcp", True, 3, toks))
    for kind in ("threaded", "forking"):
        # slow credentials: the authenticator of one client waits while everybody else goes on
        out.append(case_dict(kind, "tcp", True, 3, ["c1:g", "p1", "c2:s", "p1", "c3:s", "c4:g", "p4", "k2:g", "p2", "k3:b",
                                                    "p1", "p4"]))
    # the pool's table is keyed by descriptor NUMBER: a client whose service's on_disconnect blocks goes away (abruptly,
    # gracefully); while a worker sits in that hook - the connection closed, the number free - a new well-behaved client
    # connects and is given that very number; then the hook returns.  Also: no newcomer; newcomer after the release
    for bye in ("a1", "g1"):
        out.append(case_dict("pool", "tcp", False, 3, ["c1:g", "m1", "c2:g", "p2", bye, "c3:g:1", "p3", "u3:0", "h1", "p3", "p2",
                                                       "u3:4", "l3", "c4:g", "p4", "p3"]))
    out.append(case_dict("pool", "tcp", False, 2, ["c1:g", "m1", "c2:g", "a1", "p2", "h1", "c3:g:1", "p3", "p2"]))
    out.append(case_dict("pool", "tcp", True, 3, ["c1:g", "m1", "c2:g", "m2", "a1", "c3:g:1", "p3", "a2", "c4:g:2", "p4", "h2",
                                                  "p3", "p4", "h1", "p3", "p4"]))
    # the pool with FEWER than nbThreads workers blocked: unaffected
    out.append(case_dict("pool", "tcp", False, 3, ["c1:g", "c2:g", "r2:" + t4, "c3:g", "r3:" + t4 + "00", "p1", "c4:g", "p4",
                                                   "a2", "p1", "a3", "p4"]))
    # the two pool findings, as the model carries them: starvation and recovery; stalled authentication and recovery
    out.append(case_dict("pool", "tcp", False, 2, ["c1:g", "c2:g", "c3:g", "p3", "r1:" + t4, "r2:" + t4 + "00", "p3", "a1",
                                                   "p3", "a2", "p3"]))
    out.append(case_dict("pool", "unix", True, 2, ["c1:g", "p1", "c2:s", "p1", "c3:g", "p3", "a2", "p3", "p1"]))
    return out


def gen_case(r, corp, kind=None):
    kind = kind or r.choice(KINDS)
    transport = r.choice(["tcp", "unix"])
    auth = r.chance(1, 3)
    nb = r.choice([2, 3, 4])
    toks, nextk = [], 1
    good, stuck, hostile_open, late = [], [], [], []
    lends = 0
    owner = []
    dropped = set()

    def connect_good():
        nonlocal nextk
        toks.append("c%d:g" % nextk)
        toks.append("p%d" % nextk)
        good.append(nextk)
        nextk += 1
    connect_good()
    if r.chance(1, 2):
        connect_good()
    for _ in range(r.range(4, 9)):                                   # hostile sessions
        held = len(stuck)
        x = r.below(100)
        if auth and x < 12:                                          # failing authentication
            toks.append("c%d:b" % nextk)
            if r.chance(1, 2):
                toks.append("a%d" % nextk)
            nextk += 1
        elif auth and x < 20 and kind != "pool":                      # stalled authentication (pool: the known finding)
            toks.append("c%d:s" % nextk)
            if r.chance(1, 2):
                late.append(nextk)                                    # ... whose credentials come later
            else:
                hostile_open.append(nextk)
            nextk += 1
        elif x >= 94:                                                 # REPLY with a remote reference + pre-sent BaseException reply
            k = nextk
            nextk += 1
            toks.append("c%d:g" % k)
            hostile_open.append(k)
            toks.append("y%d:%d" % (k, r.below(len(servers.BASE_EXC_NAMES))))
        elif x < 44 and x >= 32:                                      # names builtin / foreign types, answers INSPECT with junk
            k = nextk
            nextk += 1
            toks.append("c%d:g" % k)
            hostile_open.append(k)
            for _ in range(r.range(1, 4)):
                toks.append("x%d:%d:%d" % (k, r.below(len(servers.POISON_NAMES)), r.below(len(servers.POISON_ANSWERS))))
                if good and r.chance(1, 2):
                    toks.append("u%d:%d" % (r.choice(good), r.below(len(servers.USES))))
        elif transport == "tcp" and x < 32:                           # connect and reset at once, several times in a row
            for _ in range(r.range(2, 6)):
                toks.append("c%d:r" % nextk)
                nextk += 1
        else:
            k = nextk
            nextk += 1
            toks.append("c%d:g" % k)
            hostile_open.append(k)
            for _ in range(r.range(1, 2)):
                data = gen_hostile(r, corp)
                incomplete = frames_of(data)[1]
                if incomplete and kind == "pool" and held + 1 >= nb:
                    data = frame(r.bytes(3))                          # keep fewer than nbThreads workers blocked
                    incomplete = False
                toks.append(raw_tok(k, data))
                if incomplete:
                    stuck.append(k)
                    break
        # well-behaved clients go on meanwhile
        for g in list(good):
            if r.chance(2, 3):
                toks.append(("w%d" if r.chance(1, 5) else "p%d") % g)
            if r.chance(1, 3):
                toks.append("u%d:%d" % (g, r.below(len(servers.USES))))
        if good and r.chance(1, 3):
            g = r.choice(good)
            toks.append("l%d" % g)
            owner.append(g)
            lends += 1
        if lends and kind != "forking" and r.chance(1, 3):
            g = r.choice(good)
            toks.append("o%d:%d" % (g, r.below(lends)))
        if lends and r.chance(1, 6):                                  # an owner lets go of an object it was lent
            n = r.below(lends)
            if owner[n] in good and n not in dropped:
                dropped.add(n)
                toks.append("d%d:%d" % (owner[n], n))
                if kind != "forking" and len(good) > 1:
                    toks.append("o%d:%d" % (r.choice([g for g in good if g != owner[n]]), n))
        if late and r.chance(1, 2):                                   # late credentials arrive
            k = late.pop(0)
            if r.chance(2, 3):
                toks.append("k%d:g" % k)
                toks.append("p%d" % k)
                good.append(k)
            else:
                toks.append("k%d:b" % k)
        if r.chance(1, 2) and hostile_open:                           # a hostile client disconnects abruptly
            k = r.choice(hostile_open)
            hostile_open.remove(k)
            if k in stuck:
                stuck.remove(k)
            toks.append(("z%d" if transport == "tcp" and r.chance(1, 2) else "a%d") % k)
        if r.chance(1, 9):                                            # accept() fails once; the server goes on
            toks.append("E")
        if kind in ("threaded", "forking") and r.chance(1, 9):        # no thread / child for a newcomer: turned away
            toks.append("f%d" % nextk)
            nextk += 1
        if r.chance(1, 2):                                            # the server still accepts
            connect_good()
            if len(good) > 3:
                g = good.pop(0)
                toks.append("g%d" % g)
    for g in good:
        toks.append("p%d" % g)
    if r.chance(1, 5):
        # the server is closed with all of this going on; what the clients see afterwards
        toks.append("X")
        toks += ["p%d" % g for g in good[:2]] + ["c%d:g" % nextk]
    return case_dict(kind, transport, auth, nb, toks)


def model_lines(case):
    line = "srv run %s %s %d %s" % (case["server"], "T" if case["auth"] else "F", case["nb"], " ".join(case["ops"]))
    out = run_driver([line], exe="drv_server")[0]
    if out == "NOT-MODELLED":
        return None
    if out == "bad-op":
        raise DriverError("driver refused %r" % (line[:300],))
    return out.split(" ; ")


def run_impl(case, expect=None, ceiling=servers.CEILING):
    return servers.run_case(case["server"], case["transport"], case["auth"], case["nb"], case["ops"], expect=expect,
                            ceiling=ceiling, opts=case.get("opts", ()))


def compare_case(case, ceiling=servers.CEILING):
    exp = model_lines(case)
    if exp is None:
        return None, [], None, None
    lines, bad = run_impl(case, exp, ceiling)
    if bad is None:
        return True, lines, exp, None
    lines2, bad2 = run_impl(case, exp, ceiling)       # a disagreeing case is repeated once before it is believed
    if bad2 is None:
        return True, lines2, exp, None
    return False, lines2, exp, bad2


def hostile_sessions(case):
    return sum(1 for t in case["ops"] if t[0] in "rxy" or (t[0] == "c" and t[-2:] in (":b", ":s", ":r", ":e")))


# ---------------------------------------------------------------------------------------------- correspondence
def signature_of(case, lines):
    """distinctness key: server kind, transport, authenticator, and the sequence of (operation kind, observation, frames
    consumed so far, clients that saw end-of-stream)"""
    parts = []
    for t, l in zip(case["ops"], lines):
        f = l.split("|")
        glob = f[1].split() if len(f) > 1 else []
        n = [g for g in glob if g.startswith("n")]
        eof = sum(1 for c in (f[2].split() if len(f) > 2 else []) if c.split(":")[1] == "E")
        parts.append("%s=%s/%s/%d" % (t[0], f[0], n[0] if n else "", eof))
    return "%s/%s/%s:%s" % (case["server"], case["transport"], "auth" if case["auth"] else "open", " ".join(parts))


def correspondence(ctx):
    c = Corr()
    c.rule = ("corpus (per kind x tcp/unix: good clients before, during and after garbage, an absurd length held open, a "
              "disconnect inside a header, failing and stalled authentication, 6 clients holding incomplete frames on "
              "threaded / forking, the pool below and at its worker limit) + seeded cases: 1-3 well-behaved clients "
              "interleaved with 4-9 hostile sessions each drawn from: every truncation of a ping frame, 0xFFFFFFFF "
              "lengths, corrupt / truncated / valid compressed payloads, unknown tags, single byte flips, the C04 "
              "mutation corpus re-framed, wrong length fields, random bytes, several frames per write.  An evaluation is "
              "one operation executed on the real server and compared with the model's state.  A case is non-trivial if "
              "it contains at least one hostile session; distinct = distinct (server kind, transport, authenticator, "
              "sequence of (operation kind, client observation, frames consumed, clients at end-of-stream)).")
    r = Rng(ctx.seed).fork("c16")
    corp = hostile_corpus()
    per_kind = ctx.budget(150, 1500)
    deadline = time.time() + ctx.budget(60, 800)
    sessions = dict((k, 0) for k in KINDS)
    believed = 0
    cases = corpus()
    import pipeline
    known_now = set(k.get("signature") for k in pipeline.load_known()
                    if k.get("property") == ID and k.get("status") == "known")

    def more():
        # round-robin over the kinds that are still short of hostile sessions
        short = [k for k in KINDS if sessions[k] < per_kind]
        return gen_case(r, corp, r.choice(short)) if short else None
    try:
        while True:
            if time.time() > deadline:
                c.count("stopped-at-deadline")
                break
            case = cases.pop(0) if cases else more()
            if case is None:
                break
            agree, lines, exp, bad = compare_case(case)
            if agree is None:
                # the model does not say what dispatching this payload does (a reply carrying by-reference packages, a
                # 3-element frozenset, a payload outside the brine model): the case is run on the real server all the same and
                # judged by the direct oracle
                c.count("not-modelled(Env.raises): judged by the direct oracle")
                res = oracle_case(case, known_now)
                if res is not None and res[1] not in known_now:
                    res = oracle_twice(case, known_now)
                if res is not None and res[1] not in known_now:
                    believed += 1
                    c.disagreements.append(dict(case=case, op_index=None, op="", impl="%s [%s]" % res,
                                                model="not modelled (Env.raises): judged by the direct oracle",
                                                note="direct oracle, in-process and twice in fresh processes"))
                continue
            sessions[case["server"]] += hostile_sessions(case)
            c.evaluations += len(lines)
            c.count("cases")
            c.count("kind:" + case["server"])
            c.count("transport:" + case["transport"])
            c.count("auth:" + ("yes" if case["auth"] else "no"))
            for o in case.get("opts", ()):
                c.count("option:" + o)
            for t, l in zip(case["ops"], lines):
                c.count("op:" + t[0])
                if t[0] in "plouw":
                    c.count("good-client-obs:" + l.split("|", 1)[0])
                if t[0] == "r":
                    fr, tail = frames_of(bytes.fromhex(t.split(":")[1]))
                    c.count("hostile:frames=%d%s%s" % (min(len(fr), 3), "+incomplete" if tail else "",
                                                       "+compressed" if any(f for f, _ in fr) else ""))
            if hostile_sessions(case):
                c.signatures.add(signature_of(case, lines))
            if not agree:
                believed += 1
                c.disagreements.append(dict(case=case, op_index=bad, op=case["ops"][bad][:120],
                                            impl=lines[bad] if bad < len(lines) else "?", model=exp[bad],
                                            note="state not reached within %.0f s, twice" % servers.CEILING))
                if believed >= 3:
                    c.count("stopped-after-3-disagreements")
                    break
            elif len(c.samples) < 6 and c.distribution["cases"] % 9 == 2:
                c.samples.append(dict(case=dict(case, ops=[t[:80] for t in case["ops"]]), observed=lines))
    except DriverError as ex:
        c.error = str(ex)
    for k in KINDS:
        c.extra["hostile_sessions_" + k] = sessions[k]
    c.exhaustive = False
    return c


# ---------------------------------------------------------------------------------------------- direct oracle
def oracle_case(case, known=(), ceiling=servers.CEILING):
    """The property restated on ONE script, evaluated on the real server only.  Returns None or (description, signature).
    Well-behaved = connected with good credentials and never sent raw bytes; their calls must be answered correctly, the
    server must accept afterwards, instances and tables must be distinct."""
    kind = case["server"]
    sess = servers.Session(kind, case["transport"], case["auth"], case["nb"], opts=case.get("opts", ()))
    gated = "gate" in case.get("opts", ())
    try:
        hostile, holding, stalled = set(), set(), set()
        armed, in_hook, waiting = set(), set(), set()
        unadmitted = set()
        awaiting = set()           # hostile clients that made the server ask them something they will not answer
        faulted = False
        for i, tok in enumerate(case["ops"]):
            t = tok[0]
            if t == "X":
                continue                 # not an operation of this property
            if t == "E":
                sess.do(tok)             # an error from accept(): an event of the environment
                faulted = True
                continue
            if t == "f":
                sess.do(tok)             # a newcomer nobody can be spawned for: whether IT is turned away is C17's business
                hostile.add(int(tok[1:]))
                faulted = True
                continue
            k = int(tok[1:].split(":")[0])

            where = "after op %d (%s): " % (i, tok[:60])
            if t == "c" and tok.split(":")[1] != "g" and not (gated and tok.endswith(":s")):
                # (incl. `e`: good credentials, then an exception reply to the service's on_connect request)
                hostile.add(k)
                if tok.endswith(":s") and case["auth"]:
                    stalled.add(k)
            if t == "c" and gated and tok.endswith(":s"):
                waiting.add(k)              # well-behaved; its service's constructor takes its time
            if t == "k" and gated:
                waiting.discard(k)
            if t == "k":
                stalled.discard(k)
                if tok.endswith(":g"):
                    hostile.discard(k)        # slow, but well-behaved from here on
            if t in "xy":
                hostile.add(k)
            if t in "ri":
                hostile.add(k)
                data = bytes.fromhex(tok.split(":")[1]) if t == "r" else b"".join(
                    servers.ITEM_BYTES[x]() for x in tok.split(":")[1])
                if frames_of(data)[1]:
                    holding.add(k)
                if awaits_peer(data):
                    awaiting.add(k)
            if t in "az":
                awaiting.discard(k)
                holding.discard(k)
                stalled.discard(k)
            obs = sess.do(tok)
            if t == "c" and tok.count(":") == 2 and obs != "ok":
                return None     # the kernel did not hand out the expected number: the scenario did not take place
            if t == "m" and obs == "done":
                armed.add(k)
            if t in "azg" and k in armed:
                in_hook.add(k)              # a worker stays inside its on_disconnect until `h`
                cl = sess.clients.get(k)
                if cl is not None:
                    # go on only when that hook has been entered (the connection is closed by then: its number is free)
                    servers.wait_for(lambda: sum(1 for w, peer, _i in sess.backend.hook_table()
                                                 if w == "d" and peer == cl.peer) >= 1, ceiling)
            if t == "h":
                in_hook.discard(k)
            if (t in "azh" or (t == "c" and tok[-2:] in (":r", ":b", ":e"))) and not in_hook:
                # a client that has gone (or was turned away) keeps no tracked socket and no descriptor of the server:
                # otherwise every such client costs the server a descriptor for good, and it dies of EMFILE in the end
                starving = kind == "pool" and (len(holding | awaiting) + len(in_hook) >= case["nb"] or stalled)
                if not starving:
                    def live():
                        return sum(1 for c2 in sess.clients.values() if c2.open and not c2.eof)

                    def clean():
                        sn = sess.backend.snapshot()
                        if kind != "forking":
                            sn["fds"] -= sum(1 for c2 in sess.clients.values() if c2.holds_fd())
                        n = live()
                        return (sn["c"] <= n and sn["f"] <= n and sn["ch"] <= n and
                                sn["fds"] <= sn["L"] + (0 if kind == "forking" else n))
                    cl = sess.clients.get(k)
                    if t == "c" and tok[-2:] in (":b", ":e") and cl is not None:
                        servers.wait_for(cl.sees_eof, ceiling)
                    if servers.wait_for(clean, ceiling) is None:
                        sn = sess.backend.snapshot()
                        return (where + "with %d client(s) still connected the server tracks %d socket(s), %d pool "
                                "connection(s) and holds %d descriptor(s) beyond its baseline (harness sockets included)"
                                % (live(), sn["c"], sn["f"], sn["fds"])), "C16:%s:departed-client-keeps-descriptor" % kind
            # which known shape, if any, excuses an unanswered good client right now
            # - starvation: >= nbThreads clients hold an incomplete frame open - excuses a TIMEOUT of anybody;
            # - stalled authentication (the accept thread is held): excuses a TIMEOUT of clients that connected while it lasted
            #   (they are not admitted yet); those served before go on being served by the workers
            excuse = None
            if kind == "pool" and len(holding | awaiting) >= case["nb"]:
                excuse = SIG_AWAIT if awaiting else SIG_STARVE
            if kind == "pool" and stalled and k in unadmitted:
                excuse = excuse or SIG_STALL
            if t == "c" and kind == "pool" and stalled:
                unadmitted.add(k)
            if not stalled:
                unadmitted.clear()
            if k in hostile or k in waiting or obs == "skip":
                continue
            if t == "c" and obs != "ok":
                return (where + "a well-behaved client could not connect: %s%s"
                        % (obs, " (after an error from accept() or a failed spawn()/fork())" if faulted else ""),
                        "C16:%s:%s" % (kind, "accept-or-spawn-error-closes-server" if faulted else "not-accepting"))
            if t in "plodumw":
                want = dict(p=("pong",), l=("ref",), o=("keyerr", "resolved"), d=("done",), u=("pong",), m=("done",),
                            w=("pong",))[t]
                if obs not in want:
                    if obs == "timeout" and excuse:
                        if excuse in known:
                            continue
                        return (where + "the call of well-behaved client %d was not answered within %.1f s while %s"
                                % (k, sess.call_timeout, "clients %s hold an incomplete frame open / leave a request of the server unanswered (nbThreads=%d)"
                                   % (sorted(holding | awaiting), case["nb"]) if excuse in (SIG_STARVE, SIG_AWAIT) else
                                   "client(s) %s stall the authentication" % sorted(stalled))), excuse
                    sig = "C16:%s:good-client-call-failed" % kind
                    if obs == "eof" and any(x[0] == "h" for x in case["ops"][:i]) and any(
                            x.count(":") == 2 and x[0] == "c" for x in case["ops"][:i]):
                        sig = "C16:pool:fd-reuse-drops-newcomer"
                    if obs == "eof" and faulted:
                        sig = "C16:%s:accept-or-spawn-error-closes-server" % kind
                    if t == "u":
                        sig = "C16:%s:good-client-wrong-result" % kind
                    if t == "w" and obs.startswith("wrong"):
                        sig = "C16:%s:connection-carries-another-clients-identity" % kind
                        return (where + "the server-side connection of well-behaved client %d carries (credentials, peer) %s"
                                % (k, obs[6:])), sig
                    if obs == "leak":
                        sig = "C16:%s:state-leak-between-instances" % kind
                    return where + "well-behaved client %d got %r" % (k, obs), sig
                if t == "o" and kind != "forking":
                    n = int(tok.split(":")[1])
                    if n < len(sess.lends):
                        mine = sess.lends[n][0] == k
                        released = ("d%d:%d" % (sess.lends[n][0], n)) in case["ops"][:i]
                        if obs == "resolved" and mine and released:
                            return (where + "client %d used an object it had released and it resolved" % k,
                                    "C16:%s:released-reference-resolved" % kind)
                        if obs == "resolved" and not mine:
                            return (where + "client %d used an object lent to client %d and it resolved"
                                    % (k, sess.lends[n][0])), "C16:%s:foreign-reference-resolved" % kind
        # afterwards: the accept thread is alive and a new well-behaved client is served
        snap = sess.backend.snapshot()
        if not snap["A"] or not snap["L"]:
            return ("at the end: accept loop alive=%s listener open=%s%s"
                    % (snap["A"], snap["L"], " (after an error from accept() or a failed spawn()/fork())" if faulted else ""),
                    "C16:%s:%s" % (kind, "accept-or-spawn-error-closes-server" if faulted else "accept-dead"))
        excuse = None
        if kind == "pool" and len(holding | awaiting) >= case["nb"]:
            excuse = SIG_AWAIT if awaiting else SIG_STARVE
        if kind == "pool" and stalled:
            excuse = excuse or SIG_STALL              # the newcomer connects while the stall lasts
        probe = servers.Client(9999, sess)
        res = probe.connect("g")
        if res == "ok":
            sess.clients[9999] = probe
            res = probe.call("ping")
        if res != "pong" and not (res == "timeout" and excuse and excuse in known):
            return ("at the end: a new well-behaved client got %r%s" % (res, " (%s)" % excuse if excuse else ""),
                    excuse or "C16:%s:not-accepting" % kind)
        # the pool still has all its workers (each one lost is capacity gone for good: nbThreads such clients and it serves
        # nobody)
        workers = getattr(getattr(sess.backend, "srv", None), "workers", None)
        if kind == "pool" and workers is not None:
            dead = sum(1 for w in workers if not w.is_alive())
            if dead:
                return ("at the end: %d of the pool's %d worker threads have died" % (dead, len(workers)),
                        "C16:pool:worker-died")
        # one service instance per connection
        seen = {}
        for what, peer, inst in sess.backend.hook_table():
            if what == "c":
                key = inst if isinstance(inst, str) else id(inst)
                if key in seen and seen[key] != peer:
                    return "two connections share one service instance", "C16:%s:shared-instance" % kind
                seen[key] = peer
        return None
    finally:
        sess.close()


def exhaustion_cases():
    return [dict(kind="fault", scenario="descriptor-limit", server=k, resets=120) for k in ("threaded", "pool")]


def oracle_fault(fault):
    """a server with an authenticator under a low RLIMIT_NOFILE (subprocess): `resets` clients connect and reset, at once or
    after one byte of their credentials; afterwards nothing of them is tracked and a well-behaved client is served"""
    res = servers.run_exhaustion(fault["server"], fault["resets"])
    if (res["good_client"] != "pong" or not res["accept_alive"] or not res["listener_open"] or res["tracked"] or
            res.get("leaked", 0) > 0):
        return ("after %d clients that reset inside / before the authenticator (descriptor limit %d): %r"
                % (fault["resets"], res["limit"], res)), "C16:%s:departed-client-keeps-descriptor" % fault["server"]
    return None


def oracle_fresh(case, known=(), ceiling=servers.CEILING):
    """`oracle_case` in a process of its own: rpyc keeps process-wide state (class caches), so a failure is only believed - and
    a shrunk script only accepted - if it reproduces from a clean interpreter, as the replay will run it"""
    import json
    import os
    import subprocess
    import sys
    here = os.path.dirname(os.path.abspath(__file__))
    env = dict(os.environ)
    env["RPYC_REPO"] = os.environ.get("RPYC_REPO", "/repo")
    env["PYTHONPATH"] = os.pathsep.join([env["RPYC_REPO"], here, os.path.normpath(os.path.join(here, ".."))])
    p = subprocess.run([sys.executable, os.path.abspath(__file__), "--oracle"], env=env, stdout=subprocess.PIPE,
                       stderr=subprocess.DEVNULL, timeout=600,
                       input=json.dumps(dict(case=case, known=sorted(known), ceiling=ceiling)).encode(), cwd=here)
    lines = [l for l in p.stdout.decode().split("\n") if l.startswith("RESULT ")]
    if not lines:
        raise servers.Infra("oracle subprocess gave no result (exit %s)" % p.returncode)
    res = json.loads(lines[-1][7:])
    return None if res is None else (res[0], res[1])


def oracle_twice(case, known):
    res = oracle_fresh(case, known)
    if res is None:
        return None
    res2 = oracle_fresh(case, known)      # a failing case is repeated once before it is believed
    if res2 is None or res2[1] != res[1]:
        return None
    return res2


def shrink(case, sig, known, budget_s=40):
    t0 = time.time()
    ops = list(case["ops"])
    chunk = max(1, len(ops) // 2)
    while time.time() - t0 < budget_s:
        i = 0
        while i < len(ops) and time.time() - t0 < budget_s:
            cand = ops[:i] + ops[i + chunk:]
            res = oracle_fresh(dict(case, ops=cand), known, ceiling=2.5) if cand else None
            if res is not None and res[1] == sig:
                ops = cand
            else:
                i += chunk
        if chunk == 1:
            break
        chunk = max(1, chunk // 2)
    return dict(case, ops=ops)


def amplify(case, known):
    """a script after which a pool has lost a worker, made into one after which it serves nobody: the hostile sessions
    repeated by nbThreads fresh clients, then a well-behaved newcomer"""
    ops = list(case["ops"])
    hostile = sorted(set(int(t[1:].split(":")[0]) for t in ops if t[0] in "xriy"))
    if not hostile:
        return None
    out, base = list(ops), 100
    for n in range(case["nb"]):
        for k in hostile:
            for t in ops:
                if t[0] in "cxriy" and int(t[1:].split(":")[0]) == k and t.count(":") < 3:
                    rest = t[1:].split(":", 1)
                    out.append(t[0] + str(base + k) + (":" + rest[1] if len(rest) > 1 else ""))
        base += 100
    out += ["c7:g", "p7"]
    big = dict(case, ops=out)
    res = oracle_fresh(big, known)
    if res is not None and res[1] not in known and res[1] != "C16:pool:worker-died":
        return big, res[0], res[1]
    return None


def oracle_search(ctx, corr, broken):
    known = set(ctx.known_signatures)
    r = Rng(ctx.seed).fork("c16-search")
    corp = hostile_corpus()
    deadline = time.time() + ctx.budget(60, 600)
    seen = []

    def candidates():
        for d in corr.disagreements[:20]:
            yield d["case"]
        cases = corpus()
        if any("spares_newcomer" in b for b in broken):
            # the obligation about reused descriptor numbers: its scenarios first
            cases.sort(key=lambda c: 0 if any(t[0] == "h" for t in c["ops"]) else 1)
        # boundary cases that contain the kind of operation at which model and server parted come first (pool first: it is
        # the kind whose workers are shared)
        letters = set(d["case"]["ops"][d["op_index"]][0] for d in corr.disagreements[:20]
                      if d.get("op_index") is not None and d["op_index"] < len(d["case"].get("ops", [])))
        if letters:
            cases.sort(key=lambda c: (0 if any(t[0] in letters for t in c["ops"]) else 1,
                                      0 if c["server"] == "pool" else 1))
        for case in cases:
            yield case
        while True:
            yield gen_case(r, corp)
    for fault in exhaustion_cases():
        res = oracle_fault(fault)
        if res is not None and res[1] not in known and oracle_fault(fault) is not None:
            return fault, res[0], res[1]
    for case in candidates():
        if time.time() > deadline:
            break
        if not case["ops"] or case in seen:
            continue
        seen.append(case)
        res = oracle_twice(case, known)
        if res is None:
            continue
        msg, sig = res
        if sig in known:
            continue
        small = shrink(case, sig, known, 40)
        res = oracle_fresh(small, known)
        if res is None or res[1] != sig:
            small, res = case, (msg, sig)
        if sig == "C16:pool:worker-died":
            worse = amplify(small, known)
            if worse is not None:
                return worse
        return small, res[0], sig
    return None


def known_probes(ctx):
    """the two defects the model carries (C16_pool_counterexample, C16_pool_stall_counterexample) on the real pool"""
    out = []
    t4 = "ffffffff"
    case = case_dict("pool", "tcp", False, 2, ["c1:g", "c2:g", "c3:g", "p3", "r1:" + t4, "r2:" + t4, "p3", "a1", "a2", "p3"])
    lines, _ = run_impl(case, None, 3.0)
    obs = [l.split("|", 1)[0] for l in lines]
    rep = obs[3] == "pong" and obs[6] == "timeout" and obs[9] == "pong"
    out.append((SIG_STARVE, rep,
                "ThreadPoolServer(nbThreads=2): two clients each send the 4 bytes ff ff ff ff and hold the socket; the call "
                "of a well-behaved client goes %s -> %s -> %s (before / while / after they are connected); signature %s"
                % (obs[3], obs[6], obs[9], SIG_STARVE)))
    case = case_dict("pool", "tcp", True, 2, ["c1:g", "p1", "c2:s", "c3:g", "p3", "a2", "p3"])
    lines, _ = run_impl(case, None, 3.0)
    obs = [l.split("|", 1)[0] for l in lines]
    rep = obs[1] == "pong" and obs[4] == "timeout" and obs[6] == "pong"
    out.append((SIG_STALL, rep,
                "ThreadPoolServer with an authenticator: one client connects and sends no credentials (the authenticator "
                "runs in the accept thread); a new well-behaved client's first call goes %s while it is connected and %s "
                "once it has left; signature %s" % (obs[4], obs[6], SIG_STALL)))
    # two more shapes of "a client occupies a thread of the pool", probed once they are listed as known findings (a probe that
    # reproduces without being listed is reported as a violation by the pipeline)
    listed = set(getattr(ctx, "known_signatures", ()) or ())
    if SIG_RSTHOOK in listed:
        case = case_dict("pool", "tcp", False, 2, ["c1:g", "m1", "c2:g", "p2", "z1", "p2", "h1", "p2"])
        lines, _ = run_impl(case, None, 3.0)
        obs = [l.split("|", 1)[0] for l in lines]
        rep = obs[3] == "pong" and obs[5] == "timeout" and obs[7] == "pong"
        out.append((SIG_RSTHOOK, rep,
                    "ThreadPoolServer: a client that departs by RST (SO_LINGER 0) is dropped by the POLLING thread "
                    "(_handle_poll_result -> _drop_connection), which runs the service's on_disconnect there: while that hook "
                    "runs (here it blocks until released) no connection is handed to the workers - another client's call goes "
                    "%s -> %s -> %s (before the RST / while the hook runs / after it returned); a departure by FIN runs the hook "
                    "in a worker; signature %s" % (obs[3], obs[5], obs[7], SIG_RSTHOOK)))
    if SIG_AWAIT in listed:
        from rpyc.core import consts as _c
        fr = servers.wire_frame((_c.MSG_REQUEST, 5, (_c.HANDLE_PING, (_c.LABEL_TUPLE, ((_c.LABEL_REMOTE_REF,
                                                                                       ("evil.T", 1, 0)),))))).hex()
        case = case_dict("pool", "tcp", False, 2, ["c1:g", "c2:g", "c3:g", "p3", "r1:" + fr, "r2:" + fr, "p3", "a1", "a2", "p3"])
        lines, _ = run_impl(case, None, 3.0)
        obs = [l.split("|", 1)[0] for l in lines]
        rep = obs[3] == "pong" and obs[6] == "timeout" and obs[9] == "pong"
        out.append((SIG_AWAIT, rep,
                    "ThreadPoolServer(nbThreads=2): two clients each send one complete, well-formed request whose argument is a "
                    "by-reference object of an unknown class and never answer the INSPECT the worker then sends (it waits "
                    "sync_request_timeout, 30 s by default); the call of a well-behaved client goes %s -> %s -> %s (before / "
                    "while they are connected / after they left); signature %s" % (obs[3], obs[6], obs[9], SIG_AWAIT)))
    return out


def replay(case):
    out = dict(case=case)
    if case.get("kind") == "fault":
        res = oracle_fault(case)
        out["implementation"] = servers.run_exhaustion(case["server"], case["resets"])
        out["oracle"] = "holds" if res is None else dict(failure=res[0], signature=res[1])
        return out
    try:
        exp = model_lines(case)
    except Exception as ex:  # noqa
        exp = ["model: %r" % (ex,)]
    usable = exp is not None and len(exp) == len(case["ops"])
    lines, bad = run_impl(case, exp if usable else None, servers.CEILING)
    out["model"] = exp
    out["implementation"] = lines
    out["first_disagreement"] = bad
    res = oracle_case(case)
    out["oracle"] = "holds" if res is None else dict(failure=res[0], signature=res[1])
    return out


if __name__ == "__main__":
    import json
    import os
    import sys
    if len(sys.argv) > 1 and sys.argv[1] == "--oracle":
        here = os.path.dirname(os.path.abspath(__file__))
        sys.path.insert(0, os.path.join(here, ".."))
        sys.path.insert(0, here)
        sys.path.insert(0, os.environ.get("RPYC_REPO", "/repo"))
        req = json.loads(sys.stdin.read())
        out = oracle_case(req["case"], set(req["known"]), req["ceiling"])
        print("RESULT " + json.dumps(None if out is None else [out[0], out[1]]), flush=True)
        os._exit(0)

