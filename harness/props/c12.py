"""C12 — concurrent senders never interleave, lose or strand a message.

Correspondence = trace acceptance.  The REAL `Connection._send` (and the real `Channel.send` under it) runs on
real threads under the line-level cooperative scheduler (harness/sched.py): every source line of `_send` that
mentions `self` is a scheduling point, and so is every stream write after the first of a packet.  The
connection's three shared objects are replaced by recording ones (instance attributes of a bare
`Connection`): the queue (a `list` subclass), the send lock (`sched.SchedLock`, mirroring the kind of lock the
constructor installs: one bit, no owner — blocking would be a scheduler state), and the stream under the
real `Channel`.  They log the shared actions the code actually performs — append,
queue truth test + result, try-lock + result, pop + what was popped, each stream write + which piece of
which packet (or its failure), release, call, return, exception — whatever the source text looks like, so
renamed locals, moved comments or an equivalent test do not disturb the mapping.  A re-entrant send is a
nested `_send` on the same thread, started at any line of `_send` (before or after any of its shared
actions, in particular inside the stream's `write`): either a direct call or — the production trigger — the
last reference to a real `BaseNetref` is dropped there, so that `__del__` -> HANDLE_DEL -> `_send` runs.
A transport failure is a stream write that raises (and closes the stream, as every rpyc stream does).

Each explored schedule's action sequence is given to the compiled Lean model (`drv_sendq`) as a trace to
ACCEPT: the model thread must be able to take the same action with the same result at every step; the
final-state facts of both sides are compared as well (wire parsed by the real `Channel.recv`).
Exploration (what each line of `_send` may touch is read off its AST, nothing is hard-coded): path-exhaustive
depth-first enumeration with replay (all interleavings at source-line granularity up to the order of steps
on different shared objects), state-exhaustive enumeration for the larger configurations, preemption-bounded
enumeration for three threads, and seeded random schedules.

Direct oracle (real code only): the property restated on one schedule.
"""
import ast
import inspect
import textwrap
import time

import sched as S
from lineproto import run_driver, DriverError
from pipeline import Corr
from prng import Rng

ID = "C12"
LEAN_MODULE = "RpycModel.Props.C12"
NAMESPACE = "Rpyc.Props.C12"
GEN = ["Sendq.lean"]
DRIVERS = ["drv_sendq"]
TRUSTED = [
    "modelled, not verified: atomicity under the GIL of list.append, list.pop(0), truth-testing a list and "
    "Lock.acquire(False)/release() (each is one step of the model); threading.Lock = one bit without owner; "
    "the scheduler substitutes (harness/sched.py) for OS threads and the lock; Channel.send makes 1 or 3 "
    "stream writes; a failed stream write closes the stream, so every later write fails too (true of every "
    "stream in rpyc/core/stream.py); finalizers run on the thread they interrupt; asynchronous exceptions "
    "(KeyboardInterrupt between acquire and try) are not modelled; serialisation (brine.dump, outside the lock) is a "
    "pure function of the message and the enqueue position does not depend on the message kind: both measured on "
    "the live code by harness/gen_sendq.py (obligations append_is_kind_blind, serialisation_is_pure_under_reentry) "
    "and exercised by schedules that preempt / re-enter inside brine.dump and mix requests, replies and exceptions",
]
ASSUMPTIONS = [
    "scheduling granularity is one source line of Connection._send, split further so that a step contains at "
    "most one shared action; preemption inside a single bytecode-level list/lock operation is excluded",
    "per-thread order is claimed per sender (a nested finalizer send is its own sender) and per OS thread for "
    "nested sends that start after the enclosing call has appended its datum (everywhere the lock is held, in "
    "particular inside the transport write); a nested send started between the call of _send and its append "
    "(a collection during brine.dump) overtakes the enclosing message - theorem os_thread_order_needs_restriction, "
    "corpus/C12/nested-send-before-append-overtakes.json - and is not counted as a violation",
    "the statement is read over working transports: after a failed stream write the message in that write and "
    "whatever other threads queued meanwhile stay untransmitted with every sender returned (theorem "
    "after_transport_failure says exactly what still holds; corpus/C12/stranded-after-failed-write.json); the "
    "stream is closed by the failure and the owners of stranded requests get EOFError at their next serve()",
    "the only exception the model lets out of Channel.send is the transport's, which kills the stream. NOT true of the "
    "code for a datum that cannot be framed (4 GiB or more after compression: struct.error from FRAME_HEADER.pack; "
    "likewise MemoryError / zlib.error): when the lock holder drains ANOTHER thread's such datum the error leaves _send "
    "in the holder's thread, that datum is dropped, and whatever is queued behind it stays queued on a LIVE stream with "
    "every sender returned (stranding_needs_dead_transport does not cover it). Measured on the real code with a real "
    "4.2 GiB datum and with fixes/C12-unframeable-datum-strands-queue.demo.py; proposed repair in "
    "fixes/C12-unframeable-datum-strands-queue.patch; not generated by the schedules (no datum of that size)",
    "Connection.close() is the application shutting the transport: its HANDLE_CLOSE goes through _send and the channel "
    "is closed right after, whether or not the queue has been drained by the current lock holder. Messages still "
    "queued at that moment (the closer's own earlier async requests, HANDLE_CLOSE itself) are never transmitted; this "
    "is the dead-transport case of after_transport_failure, generated by programs that end with close(); the owner of "
    "a discarded async request gets EOFError from wait() (measured: evidence key real_connection_close_race)",
    "asynchronous exceptions are outside: a KeyboardInterrupt delivered to the lock holder inside the transport write "
    "(sock.send) leaves through the finally with a truncated packet on a LIVE stream, and the next sender's packet "
    "follows it (measured: the receiver reads garbage); likewise between acquire(False) and try: the lock leaks",
]
EXPLANATION = ("Theorems over ALL reachable states of a line-level model of Connection._send with any number of threads, "
               "messages, nested re-entrant sends at any point and a transport failure at any moment (inductive "
               "invariants): mutual exclusion, only the holder writes, the lock is never leaked (also on the exception "
               "path); out ++ lost ++ hand ++ queue = appended (nothing duplicated, append order kept, nothing dropped "
               "while the transport works, per-sender order, per-OS-thread order for nested sends started past the "
               "append, with the counterexample before it); every packet's pieces adjacent on the wire, at most one "
               "truncated packet and only after a failure; all returned and transport alive => queue empty, lock free, "
               "wire = every appended message once; all returned after a failure => exactly the untransmitted suffix of "
               "the append order is lost or queued; no line blocks or raises, the innermost activation can always step "
               "(no deadlock), from the append a sender has returned or holds the lock after 3 own lines under arbitrary "
               "interference, an undisturbed sender returns within 9|queue|+25|calls|+14 lines. The model's append is "
               "kind-blind because the regenerated measurement of the live _send says so (consumed by every invariant); "
               "serialisation purity is an assumption with a measured tripwire (consumed by no theorem).")

MAX_STEPS = 1500    # no configuration used here needs a tenth of this many steps
CHUNK = 64          # MAX_IO_CHUNK of the recording stream: frames above it take three writes
PAD_BIG = 80


# ---------------------------------------------------------------------------------------------- real objects
_PARTS = []


def rpyc_parts():
    if not _PARTS:
        from rpyc.core.protocol import Connection
        from rpyc.core.channel import Channel
        from rpyc.core import brine, consts
        _PARTS.append((Connection, Channel, brine, consts))
    return _PARTS[0]


class ScratchStream:
    MAX_IO_CHUNK = CHUNK
    closed = False

    def __init__(self):
        self.chunks = []

    def write(self, data):
        self.chunks.append(bytes(data))

    def close(self):
        pass


class ReplayStream:
    """feeds recorded wire bytes to the real Channel.recv"""
    MAX_IO_CHUNK = CHUNK
    closed = False

    def __init__(self, data):
        self.data = bytes(data)
        self.pos = 0

    def read(self, n):
        if self.pos + n > len(self.data):
            raise EOFError("short")
        out = self.data[self.pos:self.pos + n]
        self.pos += n
        return out

    def close(self):
        pass


class RecStream:
    """the stream under the real Channel of the connection under test; like every rpyc stream it closes
    itself when a write fails, so every later write fails too"""
    MAX_IO_CHUNK = CHUNK

    def __init__(self, run):
        self.run = run
        self.closed = False

    def write(self, data):
        self.run.sched.before_action("_channel")
        self.run.on_write(bytes(data))

    def close(self):
        """`Connection.close()` -> `_cleanup` -> `Channel.close()`: the application shuts the transport"""
        run = self.run
        run.sched.before_action("_channel")
        if not run.dead:
            run.dead = True
            run.tok("D")
        self.closed = True


class RecQueue:
    """`Connection._send_queue`: a recording wrapper around whatever queue object the constructor installed
    (a `list` on the pinned tree; a `collections.deque` or anything else with the same methods works as well).
    Every operation is forwarded to the real object, so an operation that type does not have fails exactly as
    it would in production.  Logged in the model's terms: something put at the BACK is an append, something
    taken out is a pop of that value (the model checks it is the head), a truth / length test is a queue test;
    everything else (`insert` elsewhere, `appendleft`, unknown methods) is logged as what it is, which the model
    does not accept."""

    def __init__(self, inner, run):
        self.__dict__["inner"] = inner
        self.__dict__["run"] = run

    def _act(self):
        self.run.sched.before_action("_send_queue")

    def _put(self, how, x, at_back):
        run = self.run
        self._act()
        if at_back:
            run.hook("a", "b", "_send_queue")
        how()
        if at_back:
            run.log("a", run.ident(x))
            run.hook("a", "a", "_send_queue")
        else:
            run.log("i", "%s@front" % run.ident(x))

    def append(self, x):
        self._put(lambda: self.inner.append(x), x, True)

    def appendleft(self, x):
        self._put(lambda: self.inner.appendleft(x), x, len(self.inner) == 0)

    def insert(self, pos, x):
        n = len(self.inner)
        self._put(lambda: self.inner.insert(pos, x), x, pos >= n or (n == 0))

    def extend(self, xs):
        for x in list(xs):
            self.append(x)

    def _take(self, how):
        run = self.run
        self._act()
        run.hook("p", "b", "_send_queue")
        try:
            x = how()
        except IndexError:
            run.log("P", "IndexError")
            raise
        run.log("p", run.ident(x))
        run.hook("p", "a", "_send_queue")
        return x

    def pop(self, *idx):
        return self._take(lambda: self.inner.pop(*idx))

    def popleft(self):
        return self._take(lambda: self.inner.popleft())

    def __delitem__(self, i):
        def how():
            x = self.inner[i]
            del self.inner[i]
            return x
        self._take(how)

    def __getitem__(self, i):
        self.run.sched.touch("_send_queue")
        return self.inner[i]

    def _test(self):
        run = self.run
        self._act()
        run.hook("c", "b", "_send_queue")
        n = len(self.inner)
        run.log("c", int(n > 0))
        run.hook("c", "a", "_send_queue")
        return n

    def __bool__(self):
        return self._test() > 0

    def __len__(self):
        return self._test()

    def __iter__(self):
        self.run.sched.touch("_send_queue")
        return iter(list(self.inner))

    def __getattr__(self, name):
        attr = getattr(self.inner, name)          # AttributeError here is the real object's
        if not callable(attr):
            return attr

        def unknown(*a, **kw):
            self._act()
            self.run.log("u", name)                # an operation the model does not know
            return attr(*a, **kw)
        return unknown

    def items(self):
        """(harness only, not logged) the queued data in order"""
        return list(self.inner)


_WIRE_FORM = {}
_QUEUE_TYPE = []


def wire_form(data):
    """the chunks the real Channel.send writes for a queued datum — learnt by running it on a scratch stream"""
    _Connection, Channel, _brine, _consts = rpyc_parts()
    key = (data, Channel.send.__code__)
    if key not in _WIRE_FORM:
        st = ScratchStream()
        Channel(st).send(data)
        _WIRE_FORM[key] = st.chunks
    return _WIRE_FORM[key]


_LOCK_KIND = {}


def real_lock_is_reentrant():
    """which kind of lock the connection's constructor installs as `_sendlock` (the substitute mirrors it)"""
    Connection, Channel, _brine, _consts = rpyc_parts()
    key = Connection.__init__.__code__
    if key not in _LOCK_KIND:
        import threading
        try:
            conn = make_connection(ScratchStream())
            lock = conn._sendlock
            conn._closed = True
            _LOCK_KIND[key] = (type(lock) is type(threading.RLock()), type(lock).__name__)
        except Exception as ex:  # noqa - cannot tell: assume the documented plain lock
            _LOCK_KIND[key] = (False, "unknown (%s)" % type(ex).__name__)
    return _LOCK_KIND[key]


def make_connection(stream):
    Connection, Channel, _brine, _consts = rpyc_parts()
    from rpyc.core.service import VoidService
    return Connection(VoidService(), Channel(stream))


def norm_reent(e):
    """re-entrant send: while the logical thread that is sending message `trig` performs its k-th action of
    `kind` (a append, c queue test, l try-lock, p pop, r release; for w: piece k of packet `trig`, whoever
    writes it; d: the k-th `_dump` call of the serialisation of `trig`, i.e. INSIDE `brine.dump`, where an
    allocation can start a collection), before ('b') or after ('a') the action takes effect, the same OS thread calls `_send(msg)`
    again — directly ('d') or because the last reference to a real netref proxy is dropped there and its
    `__del__` sends HANDLE_DEL ('g')"""
    if isinstance(e, dict):
        return dict(trig=e["trig"], kind=e["kind"], k=e["k"], when=e["when"], msg=list(e["msg"]), via=e.get("via", "d"))
    trig, k, when, msg = e[:4]
    return dict(trig=trig, kind="w", k=k, when=when, msg=list(msg), via="d")


def norm_msg(m):
    """(id, three-write packet?, kind: q request / r reply / e exception / X = `conn.close()`, whose HANDLE_CLOSE
    request is the message)"""
    m = tuple(m)
    return (m[0], bool(m[1]), m[2] if len(m) > 2 else "q")


_CLOSE_DATUM = {}


def close_datum(seq):
    """the datum `_send` should queue for the HANDLE_CLOSE request of `Connection.close()` with sequence number
    `seq`: learnt on a scratch connection whose `_send` only records its arguments"""
    Connection, _Channel, brine, _consts = rpyc_parts()
    key = (seq, Connection.close.__code__, Connection._async_request.__code__, brine.dump.__code__)
    if key not in _CLOSE_DATUM:
        import itertools
        conn = make_connection(ScratchStream())
        got = []
        conn._send = lambda msg, s, args: got.append((msg, s, args))
        conn._seqcounter = itertools.count(seq)
        conn.close()
        _CLOSE_DATUM[key] = brine.dump(got[0])
    return _CLOSE_DATUM[key]


_FINALIZER_DATUM = {}


def finalizer_datum(id_pack, seq):
    """the datum `_send` should queue when a netref proxy with this id_pack is finalized and its HANDLE_DEL
    request gets sequence number `seq`: learnt on a scratch connection whose `_send` only records its arguments"""
    Connection, _Channel, brine, _consts = rpyc_parts()
    key = (id_pack, seq, Connection._async_request.__code__, brine.dump.__code__)
    if key not in _FINALIZER_DATUM:
        import itertools
        from rpyc.core.netref import BaseNetref
        conn = make_connection(ScratchStream())
        got = []
        conn._send = lambda msg, s, args: got.append((msg, s, args))
        conn._seqcounter = itertools.count(seq)
        proxy = BaseNetref(conn, id_pack)
        del proxy
        conn._closed = True
        _FINALIZER_DATUM[key] = brine.dump(got[0])
    return _FINALIZER_DATUM[key]


class Run:
    """one execution of a configuration under the scheduler.
    progs: per OS thread, the list of (id, big) it sends; reent: see `norm_reent`; fail: (id, k) — the
    transport breaks when piece k of packet id is about to be written (that write and every later one raise)."""

    def __init__(self, progs, reent=(), fail=None, dumpyield=()):
        Connection, Channel, brine, consts = rpyc_parts()
        self.brine = brine
        self.kind_const = dict(q=consts.MSG_REQUEST, r=consts.MSG_REPLY, e=consts.MSG_EXCEPTION)
        self.progs = [[norm_msg(m) for m in p] for p in progs]
        self.bare = False
        self.dumpyield = set((m, k) for m, k in dumpyield)   # park before the k-th `_dump` call of message m
        self.dump_calls = {}              # logical thread -> `_dump` calls so far in its current call
        self._park_in_dump = False
        self.reent = [norm_reent(e) for e in reent]
        self.fail = tuple(fail) if fail else None
        self.msg_kind = consts.MSG_REQUEST
        self.dump_code, self.dump1_code = brine.dump.__code__, brine._dump.__code__
        self.send_code = Connection._send.__code__
        self.sched = S.Scheduler(targets=[self.send_code, self.dump_code, self.dump1_code], skip=self.skip,
                                 on_line=self.on_line)
        self.actions = []                 # tokens, in the order the real code acted
        self.raw = bytearray()            # every byte the stream accepted
        self.n_os = len(self.progs)
        self.next_lt = self.n_os
        self.lstack = dict((t, []) for t in range(self.n_os))       # active `_send` activations per OS thread
        self.call_order = dict((t, []) for t in range(self.n_os))   # ids in the order each OS thread called _send
        self.top_done = dict((t, 0) for t in range(self.n_os))      # top-level `_send` calls that have ended
        self.early = set()                # ids of nested calls that started before an enclosing call had appended
        self.lt_prog = dict((t, [m[0] for m in p]) for t, p in enumerate(self.progs))
        self.os_of = {}                   # message id -> OS thread that called _send with it
        self.errors = []
        self.expected_exc = 0             # calls ended by the injected transport failure
        self.writes_since_pop = {}
        self.popped = {}
        self.cur_id = {}
        self.cur_call = {}                # logical thread -> id of the message its current call sends
        self.counts = {}                  # logical thread -> {kind: actions of that kind in the current call}
        self.appended_flag = {}           # logical thread -> its current call has appended
        self.append_order = []
        self.fired = set()
        self.hand = None                  # [id, writes done] of the popped, not yet fully written message
        self.dead = False
        self.lost = []
        self.stub = 0
        # what every message should look like on the wire: serialised here, single-threaded, before any sender
        # runs (serialisation is a pure function of the message - the model's assumption, checked by the
        # schedules that preempt or re-enter inside brine.dump)
        self.big, self.payload, self.kind, self.expected, self.id_of_data = {}, {}, {}, {}, {}
        for mid, big, kind in [m for p in self.progs for m in p] + [norm_msg(e["msg"]) for e in self.reent]:
            self.big[mid] = bool(big)
            self.kind[mid] = kind
            self.payload[mid] = (bytes(PAD_BIG) if big else b"", mid)
            if kind == "X":           # `conn.close()`: its HANDLE_CLOSE request gets this id as sequence number
                self.expected[mid] = close_datum(mid)
            else:
                self.expected[mid] = brine.dump((self.kind_const[kind], mid, self.payload[mid]))
            self.big[mid] = len(wire_form(self.expected[mid])) > 1
        try:
            conn = make_connection(RecStream(self))
            self.bare = False
        except Exception:  # noqa - constructor unusable: fall back to a bare object (no netref triggers)
            conn = Connection.__new__(Connection)
            conn._channel = Channel(RecStream(self))
            self.bare = True
        self.stream = conn._channel.stream
        inner = getattr(conn, "_send_queue", None)
        if inner is None or not hasattr(inner, "append"):
            inner = []
        try:
            inner.clear()
        except Exception:  # noqa
            inner = []
        _QUEUE_TYPE[:] = [type(inner).__name__]
        conn._send_queue = RecQueue(inner, self)
        conn._sendlock = S.SchedLock(self.sched, on_event=self.on_lock, pre_event=self.pre_lock, name="_sendlock",
                                     reentrant=real_lock_is_reentrant()[0])
        conn._send = self.send_wrapper    # instance attribute: every `self._send(...)` of the real code goes through it
        self.real_send = Connection._send
        self.conn = conn
        self.victims = {}
        if not self.bare:
            from rpyc.core.netref import BaseNetref
            for i, e in enumerate(self.reent):
                if e["via"] == "g":
                    self.victims[i] = BaseNetref(conn, ("builtins.object", 1000 + i, 0))
                    self.expected[e["msg"][0]] = finalizer_datum(("builtins.object", 1000 + i, 0), e["msg"][0])
        for mid, data in self.expected.items():
            self.id_of_data[data] = mid
        self.regrouped = set()            # numbers of writes per packet other than 1 or 3 that were seen
        self.model_pieces = 0             # model pieces of the packet in hand that are on the wire
        for t in range(self.n_os):
            self.sched.spawn(t, self.body, t)

    # -------------------------------------------------------------- thread side
    def lt(self):
        st = self.lstack[self.sched.current()]
        return st[-1] if st else self.sched.current()

    def tok(self, tok):
        self.actions.append(tok)

    def log(self, kind, *detail):
        lt = self.lt()
        if kind in "aclprwf" and kind not in ("f",):
            c = self.counts.setdefault(lt, {})
            c[kind] = c.get(kind, 0) + 1
        if kind == "a":
            self.appended_flag[lt] = True
            self.append_order.append(detail[0])
            tok = "a%d:%s" % (lt, detail[0])
        elif kind == "p":
            self.writes_since_pop[lt] = 0
            self.popped[lt] = detail[0]
            self.cur_id[lt] = None
            self.hand = [detail[0], 0]
            tok = "p%d:%s" % (lt, detail[0])
        elif kind in ("c", "l"):
            tok = "%s%d:%d" % (kind, lt, detail[0])
        elif kind in ("w", "f"):
            tok = "%s%d:%s.%d" % (kind, lt, detail[0], detail[1])
        elif kind in ("r", "x", "B"):
            tok = "%s%d" % (kind, lt)
        else:
            tok = "%s%d:%s" % (kind, lt, ":".join(str(d) for d in detail))
        self.actions.append(tok)

    def ident(self, data):
        """the id of a queued datum: it must be, byte for byte, the serialisation of one of the messages"""
        if not isinstance(data, (bytes, bytearray)):
            return "?"
        return self.id_of_data.get(bytes(data), "?")

    def pieces(self, data):
        return wire_form(bytes(data))

    def skip(self, code, lineno):
        if code is self.send_code:
            return skip_line(code, lineno)
        return not self._park_in_dump

    def on_line(self, frame):
        """runs on the sending thread at every traced line: counts the `_dump` calls of the serialisation in
        progress, decides whether this one is a scheduling point, and fires the nested sends scripted there"""
        self._park_in_dump = False
        if frame.f_code is not self.dump1_code:
            return
        lt = self.lt()
        k = self.dump_calls.get(lt, 0)
        self.dump_calls[lt] = k + 1
        mid = self.cur_call.get(lt)
        self._park_in_dump = (mid, k) in self.dumpyield
        if self.reent:
            self.hook("d", "b", "_dump", index=k)

    def pre_lock(self, kind):
        self.hook("l" if kind in ("try", "block") else "r", "b", "_sendlock")

    def on_lock(self, kind, result):
        if kind == "try":
            self.log("l", int(result))
            self.hook("l", "a", "_sendlock")
        elif kind == "release":
            if result:
                self.log("r")
                self.hook("r", "a", "_sendlock")
            else:
                self.log("R", "unlocked")
        elif kind == "block":
            self.log("B")
        else:
            self.log("L", int(bool(result)))

    def on_write(self, chunk):
        lt = self.lt()
        k = self.writes_since_pop.get(lt, 0)
        if k == 0:
            cands = [i for i, data in self.expected.items() if self.pieces(data)[0] == chunk]
            # several messages can start with the same chunk (e.g. a header written on its own): the one this
            # thread popped decides; the following chunks and the parsed wire are still checked against it
            mid = self.popped.get(lt) if self.popped.get(lt) in cands else (cands[-1] if cands else "?")
            self.cur_id[lt] = mid
        else:
            mid = self.cur_id.get(lt)
            data = self.data_of(mid)
            if data is None or k >= len(self.pieces(data)) or self.pieces(data)[k] != chunk:
                mid = "?"
        # the model knows packets of 1 or 3 pieces; if Channel.send makes another number n of writes for a packet
        # (a harmless refactoring), they are regrouped: first write = piece 0, last write = piece 2, the first of the
        # middle ones = piece 1 (n = 2: the second write counts as pieces 1 and 2)
        n = len(self.pieces(self.data_of(mid))) if mid != "?" else 1
        if n == 1:
            model = [0]
        elif k == 0:
            model = [0]
        elif k == n - 1:
            model = [1, 2] if n == 2 else [2]
        else:
            model = [1] if k == 1 else []
        if n not in (1, 3):
            self.regrouped.add(n)
        self.hook("w", "b", "_channel", packet=(mid, k))
        if self.fail is not None and not self.dead and (mid, k) == self.fail:
            self.dead = True
            self.tok("D")
        if self.dead:
            self.stream.closed = True
            self.log("f", mid, self.hand[1] if self.hand is not None else k)
            if self.hand is not None:
                if not self.lost and not self.stub:
                    self.stub = self.hand[1]
                self.lost.append(self.hand[0])
                self.hand = None
            raise EOFError("injected transport failure")
        self.raw += chunk
        for j in model:
            self.log("w", mid, j)
        self.writes_since_pop[lt] = k + 1
        if self.hand is not None:
            self.hand[1] += len(model)
            if mid == "?" or k + 1 >= n:
                self.hand = None
        self.hook("w", "a", "_channel", packet=(mid, k))

    def data_of(self, mid):
        return self.expected.get(mid)

    def hook(self, kind, when, label, packet=None, index=None):
        """fire the re-entrant sends scripted for this point"""
        if not self.reent:
            return
        lt = self.lt()
        for i, e in enumerate(self.reent):
            if i in self.fired or e["kind"] != kind or e["when"] != when:
                continue
            if kind == "w":
                if packet != (e["trig"], e["k"]):
                    continue
            elif kind == "d":
                if self.cur_call.get(lt) != e["trig"] or index != e["k"]:
                    continue
            elif self.cur_call.get(lt) != e["trig"] or self.counts.get(lt, {}).get(kind, 0) - (when == "a") != e["k"]:
                continue
            self.fired.add(i)
            mid = e["msg"][0]
            if e["via"] == "g" and i in self.victims:
                import itertools
                self.conn._seqcounter = itertools.count(mid)   # the finalizer's HANDLE_DEL request gets this seq
                self.pending_nested = mid
                self.victims.pop(i)                            # last reference: BaseNetref.__del__ runs here
            else:
                try:
                    self.conn._send(self.kind_const[self.kind[mid]], mid, self.payload[mid])
                except Exception:  # noqa - a finalizer's exception is swallowed by the interpreter
                    pass
            if when == "b" and kind != "d":
                self.sched.yield_point(label)
                self.sched.touch(label)

    def send_wrapper(self, msg, seq, args):
        """every `_send` call of the connection: book-keeping of activations around the REAL `_send`"""
        os_t = self.sched.current()
        if os_t is None:
            return self.real_send(self.conn, msg, seq, args)
        stack = self.lstack[os_t]
        mid = seq if seq in self.big else "?"
        if stack:
            child = self.next_lt
            self.next_lt += 1
            self.lt_prog[child] = [mid]
            self.tok("n%d:%d:%s%s%s" % (stack[-1], child, mid, "b" if self.big.get(mid) else "s",
                                        msg if isinstance(msg, int) and 0 <= msg < 100 else ""))
            if not all(self.appended_flag.get(a) for a in stack):
                self.early.add(mid)
            lt = child
        else:
            lt = os_t
        stack.append(lt)
        self.call_order[os_t].append(mid)
        self.os_of[mid] = os_t
        self.cur_call[lt] = mid
        self.dump_calls[lt] = 0
        self.counts[lt] = {}
        self.appended_flag[lt] = False
        self.tok("s%d:%s" % (lt, mid))
        try:
            self.real_send(self.conn, msg, seq, args)
        except S.SchedAbort:
            raise
        except Exception as ex:  # noqa
            name = type(ex).__name__
            self.tok("e%d:%s" % (lt, name))
            if name == "EOFError" and self.dead:
                self.expected_exc += 1
            else:
                self.errors.append((lt, mid, name))
            raise
        else:
            self.tok("x%d" % lt)
        finally:
            stack.pop()
            if not stack:
                self.top_done[os_t] += 1

    def body(self, os_t):
        for mid, _big, kind in self.progs[os_t]:
            try:
                if kind == "X":
                    if not self.bare:
                        import itertools
                        self.conn._seqcounter = itertools.count(mid)
                        self.conn.close()         # HANDLE_CLOSE through `_send`, then `_cleanup` closes the channel
                    continue
                self.conn._send(self.kind_const[kind], mid, self.payload[mid])
            except EOFError:
                if not self.dead:
                    raise             # after the injected failure the thread goes on with its next message

    # -------------------------------------------------------------- driver side
    def op_line(self):
        progs = [",".join("%d%s%d" % (m[0], "b" if self.big[m[0]] else "s", self.kind_const.get(m[2], self.msg_kind))
                          for m in p) or "-" for p in self.progs]
        return "sendq trace %d %s | %s" % (self.n_os, " ".join(progs), " ".join(self.actions))

    def wire_packets(self):
        """(ids of the complete packets the real Channel.recv reads off the recorded bytes, trailing bytes,
        problem)"""
        _Connection, Channel, brine, _consts = rpyc_parts()
        rs = ReplayStream(self.raw)
        ch = Channel(rs)
        ids = []
        problem = None
        while rs.pos < len(rs.data):
            start = rs.pos
            try:
                data = ch.recv()
            except EOFError:
                rs.pos = start
                break
            except Exception as ex:  # noqa
                problem = "wire does not parse as packets at byte %d: %s" % (start, type(ex).__name__)
                rs.pos = start
                break
            mid = self.ident(data)
            if mid == "?":
                try:
                    seq = self.brine.load(data)[1]
                except Exception:  # noqa
                    seq = "?"
                problem = ("the packet at byte %d is not the serialisation of any message that was sent (it decodes to "
                           "seq %r, %d bytes)" % (start, seq, len(data)))
                break
            ids.append(mid)
        return ids, len(rs.data) - rs.pos, problem

    def facts(self, result):
        """the impl-side final-state line, from the real objects"""
        sc = self.sched
        # "every sender has returned": every `_send` call of every program has been made and has ended (a thread may
        # still be busy after its last send, e.g. inside `close()`'s `_cleanup`)
        done = not sc.errors() and all(self.top_done[t] == len(self.progs[t]) and not self.lstack[t]
                                       for t in range(self.n_os))
        q = [self.ident(x) for x in self.conn._send_queue.items()]
        ids, _trailing, _problem = self.wire_packets()
        hand = "-" if self.hand is None else "%s.%d" % (self.hand[0], self.hand[1])
        order = True
        left = ids + self.lost + ([self.hand[0]] if self.hand is not None else []) + q
        for lt, prog in self.lt_prog.items():
            mine = [i for i in left if i in prog]
            if mine != prog[:len(mine)]:
                order = False
        osorder = True
        for os_t, called in self.call_order.items():
            app = [i for i in self.append_order if self.os_of.get(i) == os_t]
            if app != called[:len(app)]:
                osorder = False
        show = lambda l: ",".join(str(i) for i in l) or "-"
        return ("accept%s stuck=%s done=%s q=%s lock=%s hand=%s wire=%s order=%s threads=%d dead=%s lost=%s stub=%d "
                "osorder=%s" % (
                    " step-limit" if result.truncated else "", "T" if result.deadlock else "F", "T" if done else "F",
                    show(q), "T" if self.conn._sendlock.locked() else "F", hand, show(ids), "T" if order else "F",
                    self.next_lt, "T" if self.dead else "F", show(self.lost), self.stub, "T" if osorder else "F"))

    def close(self):
        import sys
        hook = sys.unraisablehook
        sys.unraisablehook = lambda *a: None      # unwinding a thread parked inside a finalizer's send is not news
        try:
            self.sched.close()
            self.conn._closed = True
            self.victims.clear()
        finally:
            sys.unraisablehook = hook


# ---------------------------------------------------------------------------------------------- local lines
_LINES_CACHE = {}


def line_access():
    """{absolute line number of `Connection._send`: access set of that line}, by AST, nothing hard-coded.
    A line that does not mention `self` touches nothing shared (empty set): it commutes with every step of
    every other thread and is not a scheduling point.  `self.<attr>` used only as a truth value (`while`/`if`
    test, `not`, `len()`) reads the shared object <attr>; any other use may write it.  A bare `self`, or
    anything we do not understand, is `None` (dependent on everything)."""
    Connection = rpyc_parts()[0]
    code = Connection._send.__code__
    if code in _LINES_CACHE:
        return _LINES_CACHE[code]
    lines, first = inspect.getsourcelines(Connection._send)
    tree = ast.parse(textwrap.dedent("".join(lines)))
    fn = tree.body[0]
    self_name = fn.args.args[0].arg if fn.args.args else "self"
    parent = {}
    for node in ast.walk(fn):
        for ch in ast.iter_child_nodes(node):
            parent[ch] = node
    acc = dict((ln, frozenset()) for ln in range(first, first + len(lines)))

    def span(node):
        """the lines of the statement (for a compound statement: of its header) the node belongs to: a line event
        is raised for some of them only, and one step can execute all of them"""
        st = node
        while st in parent and not isinstance(st, ast.stmt):
            st = parent[st]
        if not isinstance(st, ast.stmt):
            return range(node.lineno, (getattr(node, "end_lineno", None) or node.lineno) + 1)
        last = getattr(st, "end_lineno", None) or st.lineno
        body = getattr(st, "body", None)
        if isinstance(body, list) and body and isinstance(body[0], ast.stmt):
            last = max(st.lineno, body[0].lineno - 1)
        return range(st.lineno, last + 1)

    def add(node, item):
        for ln in span(node):
            a = acc.get(ln + first - 1, frozenset())
            acc[ln + first - 1] = None if (item is None or a is None) else a | frozenset([item])

    def is_read(attr):
        p = parent.get(attr)
        while isinstance(p, ast.UnaryOp) and isinstance(p.op, ast.Not):
            attr, p = p, parent.get(p)
        if isinstance(p, (ast.While, ast.If, ast.IfExp)) and p.test is attr:
            return True
        if isinstance(p, ast.BoolOp):
            return True
        if isinstance(p, ast.Call) and isinstance(p.func, ast.Name) and p.func.id in ("len", "bool") and attr in p.args:
            return True
        return False

    for node in ast.walk(fn):
        if isinstance(node, ast.Name) and node.id == self_name:
            p = parent.get(node)
            if isinstance(p, ast.Attribute) and p.value is node:
                add(p, (p.attr, "r" if is_read(p) else "w"))
            else:
                add(node, None)
        elif isinstance(node, (ast.Global, ast.Nonlocal, ast.With, ast.AsyncWith, ast.Yield, ast.YieldFrom, ast.Await)):
            add(node, None)
    _LINES_CACHE[code] = acc
    return acc


def state_key(run):
    """the complete state of one execution, for the stateful search: every thread's Python stack (code,
    bytecode offset, plain locals), the shared objects, and the harness's own bookkeeping"""
    sc = run.sched
    lock = run.conn._sendlock
    return (tuple(sc.signature(t) for t in sc.order),
            tuple(run.ident(x) for x in run.conn._send_queue.items()),
            (lock.held, lock.owner, lock.count), run.dead,
            run.next_lt, tuple(sorted(run.fired)), tuple(len(run.call_order[t]) for t in range(run.n_os)),
            tuple(tuple(run.lstack[t]) for t in range(run.n_os)),
            tuple(sorted(run.writes_since_pop.items())), tuple(sorted((k, str(v)) for k, v in run.cur_id.items())),
            tuple(sorted((k, str(v)) for k, v in run.cur_call.items())),
            tuple(sorted((k, tuple(sorted(v.items()))) for k, v in run.counts.items())),
            tuple(sorted(run.appended_flag.items())), tuple(sorted(run.dump_calls.items())),
            tuple(sorted(run.top_done.items())),
            None if run.hand is None else (str(run.hand[0]), run.hand[1]), len(run.errors), run.expected_exc)


def skip_line(code, lineno):
    a = line_access().get(lineno, None)
    return a is not None and len(a) == 0


def access(run, tid):
    """what the next step of parked thread `tid` may touch (see sched.dfs)"""
    st = run.sched.where(tid)
    if st[0] == "start":
        return frozenset()
    if st[0] == "line":
        return line_access().get(st[2], None) if st[1] == "_send" else None
    if st[0] in ("yield", "blocked"):
        return frozenset([(st[1].split(".")[0], "w")])
    return None


# ---------------------------------------------------------------------------------------------- configurations
def cfg(progs, reent=(), fail=None, dumpyield=()):
    return dict(progs=[[list(norm_msg(m)) for m in p] for p in progs], reent=[norm_reent(e) for e in reent],
                fail=list(fail) if fail else None, dumpyield=[list(d) for d in dumpyield])


def new_run(c):
    return Run(c["progs"], c.get("reent", ()), c.get("fail"), c.get("dumpyield", ()))


C_2x1 = cfg([[(1, False)], [(2, False)]])
C_2x1_BIG = cfg([[(1, True)], [(2, False)]])
C_2x12 = cfg([[(1, False)], [(2, False), (3, False)]])
C_2x1_RB = cfg([[(1, False)], [(2, False)]], [(1, 0, "b", (9, False))])
C_2x1_RA = cfg([[(1, False)], [(2, False)]], [(2, 0, "a", (9, False))])
C_1x1_NESTED = cfg([[(1, True)]], [(1, 1, "b", (9, False)), (9, 0, "a", (8, False))])
C_2x2 = cfg([[(1, False), (2, False)], [(3, False), (4, False)]])
C_2x2_BIG = cfg([[(1, True), (2, False)], [(3, False), (4, True)]])
C_2x12_R = cfg([[(1, False)], [(2, True), (3, False)]], [(2, 1, "b", (9, False))])
C_2x3 = cfg([[(1, False), (2, False), (3, False)], [(4, False), (5, False), (6, False)]])
C_3x1 = cfg([[(1, False)], [(2, False)], [(3, False)]])
C_3x121 = cfg([[(1, False)], [(2, False), (3, True)], [(4, False)]])
C_3x222_R = cfg([[(1, False), (2, False)], [(3, True), (4, False)], [(5, False), (6, False)]], [(3, 0, "a", (9, False))])


def H(trig, kind, k, when, msg, via="d"):
    return dict(trig=trig, kind=kind, k=k, when=when, msg=list(msg), via=via)


# a nested send at EVERY line of `_send` (before / after each of its shared actions), one configuration each;
# half of them through a real netref finalizer
EVERY_LINE = [("a", 0, "b"), ("a", 0, "a"), ("c", 0, "b"), ("c", 0, "a"), ("l", 0, "b"), ("l", 0, "a"),
              ("c", 1, "b"), ("c", 1, "a"), ("p", 0, "b"), ("p", 0, "a"), ("w", 0, "b"), ("w", 0, "a"),
              ("r", 0, "b"), ("r", 0, "a"), ("c", 2, "b"), ("c", 2, "a")]
C_EVERY_LINE = [("2x1+reentrant@%s%d%s" % (kind, k, when),
                 cfg([[(1, False)], [(2, False)]], [H(1, kind, k, when, (9, False), "g" if i % 2 else "d")]))
                for i, (kind, k, when) in enumerate(EVERY_LINE)]
C_2x12_FAIL0 = cfg([[(1, False)], [(2, False), (3, False)]], fail=(1, 0))
C_2x1_BIG_FAIL1 = cfg([[(1, True), (3, False)], [(2, False)]], fail=(1, 1))
C_2x1_BIG_FAIL2_R = cfg([[(1, True)], [(2, False)]], [H(1, "w", 1, "b", (9, False), "g")], fail=(1, 2))
C_2x2_FAIL = cfg([[(1, False), (2, False)], [(3, False), (4, False)]], fail=(3, 0))
C_2x1_DUMP = cfg([[(1, False)], [(2, False)]], dumpyield=[(1, 1), (1, 3), (1, 5), (2, 2), (2, 4)])
C_2x1_DUMP_GC = cfg([[(1, False)], [(2, False)]], [H(1, "d", 3, "b", (9, False), "g")], dumpyield=[(2, 2)])
C_2x12_KINDS = cfg([[(1, False, "r")], [(2, False, "q"), (3, False, "r")]])
C_2x12_KINDS2 = cfg([[(1, True, "q")], [(2, False, "r"), (3, False, "e")]])
C_2x12_CLOSE = cfg([[(1, False)], [(2, False), (3, False, "X")]])
C_2x21_CLOSE = cfg([[(1, True), (4, False)], [(2, False), (3, False, "X")]])
C_4x1 = cfg([[(1, False)], [(2, False)], [(3, False)], [(4, False)]])
C_2x4 = cfg([[(1, False), (2, False), (3, False), (4, False)], [(5, False), (6, False), (7, False), (8, False)]])
C_2x15 = cfg([[(1, False)], [(2, False), (3, False), (4, False), (5, False), (6, False)]])


def quick_exhaustive():
    """explored path by path: EVERY interleaving (up to the order of independent steps)"""
    return [("2x1", C_2x1), ("2x1-big", C_2x1_BIG),
            ("2x1+reentrant-before-write", C_2x1_RB), ("1x1-big+reentrant-mid-packet-twice", C_1x1_NESTED)]


def thorough_exhaustive():
    return [("2x(1,2)", C_2x12), ("2x1+reentrant-after-write", C_2x1_RA), ("2x(1,2)+write-fails", C_2x12_FAIL0),
            ("2x(1,2)-mixed-kinds", C_2x12_KINDS)]


def quick_stateful():
    """explored state by state: every reachable state expanded once, every transition executed"""
    return ([("2x(1,2)", C_2x12), ("2x(1,2)-request+reply", C_2x12_KINDS), ("2x(1,2)-big+reply+exception", C_2x12_KINDS2),
             ("2x(1,request+close())", C_2x12_CLOSE),
             ("2x1+preemption-inside-brine.dump", C_2x1_DUMP), ("2x1+netref-finalizer-inside-brine.dump", C_2x1_DUMP_GC),
             ("2x1+reentrant-after-write", C_2x1_RA), ("2x2", C_2x2),
             ("2x(1,2)+write-fails", C_2x12_FAIL0), ("2x(2,1)-big+write-fails-mid-packet", C_2x1_BIG_FAIL1),
             ("2x1-big+netref-finalizer+write-fails", C_2x1_BIG_FAIL2_R)]
            + [c for c in C_EVERY_LINE if c[0].split("@")[1] in ("a0b", "l0a", "p0b", "r0a")])


def thorough_stateful():
    return ([c for c in C_EVERY_LINE if c[0].split("@")[1] not in ("a0b", "l0a", "p0b", "r0a")]
            + [("2x(big+1,request+close())", C_2x21_CLOSE), ("2x(1,2)-big+reentrant-mid-packet", C_2x12_R),
               ("2x2-big", C_2x2_BIG), ("2x2+write-fails", C_2x2_FAIL), ("2x3", C_2x3), ("3x1", C_3x1),
               ("2x(1,5)", C_2x15), ("3x(1,2,1)", C_3x121)])


def bounded_configs():
    return [("3x1", C_3x1), ("3x(1,2,1)", C_3x121), ("3x(2,2,2)+reentrant", C_3x222_R), ("4x1", C_4x1), ("2x4", C_2x4)]


def random_config(r, with_reent, large=False, with_fail=False):
    """2-3 threads x 1-3 messages (large: up to 5 threads x up to 5 messages) of random kinds (request / reply /
    exception); re-entrant sends at random lines of `_send` and inside `brine.dump` (half through a real netref
    finalizer), possibly nested in one another; preemption points inside `brine.dump`; optionally a failing write"""
    nthreads = r.range(2, 5) if large else (3 if r.chance(3, 4) else 2)
    progs, mid = [], 1
    for _ in range(nthreads):
        p = []
        for _ in range(r.range(1, 5 if large else 3)):
            p.append((mid, r.chance(1, 4), r.choice("qqre")))
            mid += 1
        progs.append(p)
    bigof = dict((m[0], m[1]) for p in progs for m in p)
    if r.chance(1, 6):          # one thread ends by closing the connection (HANDLE_CLOSE through _send, then the channel)
        progs[r.below(nthreads)].append((mid, False, "X"))
        bigof[mid] = False
        mid += 1
    reent = []
    if with_reent:
        for j in range(r.range(1, 3)):
            trig = r.range(1, mid - 1)
            kind = r.choice("aclprwwwd")
            k = (r.below(3) if (kind == "w" and bigof[trig]) else r.range(1, 5) if kind == "d"
                 else 0 if kind in "apw" else r.below(3))
            big = r.chance(1, 6)
            when = "b" if kind == "d" else r.choice("ba")
            reent.append(H(trig, kind, k, when, (90 + j, big, r.choice("qr")), "d" if big or r.chance(1, 2) else "g"))
        if r.chance(1, 4):      # a nested send inside the transmission of a nested send's message
            reent.append(H(90, "w", 0, r.choice("ba"), (95, False), r.choice("dg")))
    fail = None
    if with_fail:
        t = r.range(1, mid - 1)
        fail = (t, r.below(3) if bigof[t] else 0)
    dumpyield = []
    if r.chance(1, 3):
        for _ in range(r.range(1, 4)):
            dumpyield.append((r.range(1, mid - 1), r.range(1, 5)))
    return cfg(progs, reent, fail, dumpyield)


# ---------------------------------------------------------------------------------------------- exploring
class Batch:
    """collects explored schedules and pipes them through the model in chunks"""

    def __init__(self, c, ctx):
        self.c = c
        self.ctx = ctx
        self.pending = []

    def add(self, family, conf, run, res):
        if run.regrouped:
            self.c.count("Channel.send-writes-per-big-packet:%s(regrouped-into-3-model-pieces)"
                         % ",".join(str(n) for n in sorted(run.regrouped)))
        line = run.op_line()
        want = run.facts(res)
        case = dict(kind="schedule", progs=conf["progs"], reent=conf["reent"], fail=conf.get("fail"),
                    dumpyield=conf.get("dumpyield", []), schedule=list(res.schedule))
        if run.dead and run.sched.all_finished():
            self.c.count("after-failed-write:all-returned")
            if run.conn._send_queue.items():
                self.c.count("after-failed-write:all-returned-with-messages-left-queued")
            if run.conn._sendlock.locked():
                self.c.count("after-failed-write:LOCK-LEAKED")
        if res.pruned:
            case["prefix"] = True         # the exploration cut this execution short: a real prefix
        self.pending.append((family, case, line, want, list(run.actions)))
        if len(self.pending) >= 4000:
            self.flush()

    def flush(self):
        if not self.pending:
            return
        c = self.c
        try:
            outs = run_driver([p[2] for p in self.pending], exe="drv_sendq")
        except DriverError as ex:
            c.error = str(ex)
            self.pending = []
            return
        for (family, case, line, want, actions), got in zip(self.pending, outs):
            c.evaluations += 1
            c.count("family:" + family)
            if case.get("prefix"):
                c.count("executions-cut-as-prefix")
            c.count("steps", len(case["schedule"]))
            kinds = set(a[0] for a in actions)
            sw = sum(1 for a, b in zip(actions, actions[1:]) if thread_of(a) != thread_of(b))
            nthreads = len(set(thread_of(a) for a in actions))
            for k in kinds:
                c.count("trace-has:" + KIND_NAME.get(k, k))
            if any(a[0] == "l" and a.endswith(":0") for a in actions):
                c.count("trace-has:failed-try-lock")
            if any(a[0] == "c" and a.endswith(":0") for a in actions):
                c.count("trace-has:empty-queue-test")
            c.count("impl:" + " ".join(w for w in want.split(" ") if w.split("=")[0] in
                                       ("accept", "stuck", "done", "order", "dead", "osorder")))
            c.count("threads:%d" % len(case["progs"]))
            c.count("messages-per-thread-max:%d" % max(len(p) for p in case["progs"]))
            for p in case["progs"]:
                for m in p:
                    c.count("message-kind:" + dict(q="request", r="reply", e="exception", X="close()")[m[2] if len(m) > 2 else "q"])
            if case.get("dumpyield"):
                c.count("preemption-inside-brine.dump")
            for e in case["reent"]:
                c.count("nested-send@%s%d%s-via-%s" % (e["kind"], e["k"], e["when"],
                                                        "netref-finalizer" if e["via"] == "g" else "direct-call"))
            c.count("model:" + got.split(" ")[0])
            if sw > nthreads - 1:          # more thread switches than a serial execution has
                c.signatures.add(" ".join(actions))
            if got != want:
                c.disagreements.append(dict(case=case, op=line[:1500], impl=want, model=got[:400]))
            elif len(c.samples) < 10 and (c.evaluations % 397 == 1 or (case["reent"] and c.evaluations % 97 == 3)):
                c.samples.append(dict(family=family, progs=case["progs"], reent=case["reent"], fail=case["fail"],
                                      dumpyield=case["dumpyield"],
                                      schedule="".join(str(t) for t in case["schedule"]),
                                      trace=" ".join(actions), outcome=want))
        self.pending = []


KIND_NAME = dict(i="queue-insert", s="call", D="transport-breaks", f="failed-write", a="append", c="queue-test", l="try-lock", p="pop", w="stream-write", r="release", x="return",
                 n="nested-send", e="exception", B="blocking-acquire", L="blocking-acquire-granted",
                 R="release-unlocked", P="pop-failed")


def thread_of(tok):
    if tok == "D":
        return "-"
    i = 1
    while i < len(tok) and tok[i].isdigit():
        i += 1
    return tok[1:i]


def explore_dfs(batch, family, conf, bound=None, max_runs=None, deadline=None, stateful=False):
    """returns (number of schedules, completed?)"""
    n = 0
    complete = True
    gen = S.dfs(lambda: new_run(conf), access=access, preemption_bound=bound, max_runs=max_runs, max_steps=MAX_STEPS,
                state_key=state_key if stateful else None)
    for run, res in gen:
        try:
            batch.add(family, conf, run, res)
        finally:
            run.close()
        n += 1
        if deadline is not None and time.time() > deadline:
            complete = False
            gen.close()
            break
    if max_runs is not None and n >= max_runs:
        complete = False
    return n, complete


def run_one(conf, schedule=None, rng=None, stickiness=0):
    run = new_run(conf)
    try:
        if schedule is not None:
            res = S.run_fixed(run.sched, schedule, max_steps=MAX_STEPS)
        else:
            res = S.run_random(run.sched, rng, stickiness, max_steps=MAX_STEPS)
    except BaseException:
        run.close()
        raise
    return run, res


def check_por(n=40):
    """every step touches only the shared objects the reduction was told it may touch (random runs incl. a
    three-write packet and nested sends); returns the number of steps that touched something undeclared"""
    bad = []
    r = Rng(7)
    for i in range(n):
        kind, k, when = EVERY_LINE[i % len(EVERY_LINE)]
        conf = cfg([[(1, True), (3, False)], [(2, False)]],
                   [H(1, kind, k, when, (9, False), "dg"[i % 2]), H(9, "w", 0, "a", (8, False)),
                    H(3, "w", 0, "ba"[i % 2], (7, True))], fail=(2, 0) if i % 5 == 4 else None)
        run = new_run(conf)
        declared = {}

        def choose(en, run=run, declared=declared):
            last = run.sched.last
            if last is not None and last[0] in declared:
                d = declared.pop(last[0])
                objs = None if d is None else set(o for o, _m in d)
                if objs is not None and not set(l.split(".")[0] for l in last[2]) <= objs:
                    bad.append((run.sched.where(last[0]), last[2], sorted(objs)))
            t = en[r.below(len(en))]
            declared[t] = access(run, t)
            return t
        try:
            run.sched.run(choose, max_steps=MAX_STEPS)
        finally:
            run.close()
    return bad


def correspondence(ctx):
    c = Corr()
    c.rule = ("Schedules of the real Connection._send on real threads under the line-level scheduler; each schedule's "
              "logged shared actions are a trace the Lean model must accept step by step with equal results, and the "
              "final facts (stuck, all returned, queue, lock, hand, packets the real Channel.recv reads off the wire, "
              "per-thread order) must agree. Families: (a) path-exhaustive DFS with replay over ALL interleavings at "
              "source-line granularity (lines not mentioning `self` are not branched on; of executions differing only "
              "in the order of steps on different shared objects one is completed, the others are cut as prefixes) of "
              "2 threads x 1 / (1,2) messages incl. a 3-write packet and re-entrant sends before a write and nested "
              "twice mid-packet; (b) state-exhaustive DFS (every reachable real state - thread stacks with bytecode "
              "offsets and locals, queue, lock, harness bookkeeping - expanded once, every transition executed) for "
              "2x2 (thorough: 2x3, 2x4, 2x(1,5), 3x1, 3x(1,2,1)), for a nested send at EVERY line of _send (before and "
              "after each of its shared actions; half of them started by dropping the last reference to a real netref "
              "proxy so that BaseNetref.__del__ -> HANDLE_DEL -> _send re-enters), and for a stream write that FAILS "
              "(first piece, mid-packet, with a nested send); (c) preemption-bounded DFS for 3 (thorough: 4) threads; "
              "(d) seeded random schedules of 2-3 threads x 1-3 messages (thorough: up to 5 threads x 5 messages) with "
              "and without nested sends at random lines and failing writes, uniform and sticky. "
              "distinct = distinct action sequence; non-trivial = more thread switches in the action sequence than a "
              "serial execution has.")
    t0 = time.time()
    bad = check_por()
    if bad:
        c.error = "partial-order reduction unsound here: %d step(s) touched a shared object the AST analysis did not declare, e.g. %r" % (len(bad), bad[0])
        return c
    c.extra["line_access_of__send"] = dict((str(k), sorted(map(list, v)) if v is not None else None)
                                           for k, v in sorted(line_access().items()) if v is None or v)
    batch = Batch(c, ctx)
    thorough = ctx.tier == "thorough"
    exhaustive_done, stateful_done, bounded = {}, {}, {}
    import glob
    import json
    import os
    for path in sorted(glob.glob(os.path.join(os.path.dirname(os.path.abspath(__file__)), "..", "..", "corpus", "C12", "*.json"))):
        with open(path) as f:
            case = json.load(f)["case"]
        conf = dict(progs=case["progs"], reent=case.get("reent", []), fail=case.get("fail"), dumpyield=case.get("dumpyield", []))
        run, res = run_one(conf, schedule=case["schedule"])
        try:
            batch.add("corpus:" + os.path.basename(path)[:-5], conf, run, res)
        finally:
            run.close()
    for name, conf in quick_exhaustive() + (thorough_exhaustive() if thorough else []):
        n, complete = explore_dfs(batch, "exhaustive:" + name, conf, deadline=t0 + ctx.budget(40, 120))
        exhaustive_done[name] = dict(schedules=n, complete=complete)
    ctx.log("path-exhaustive families: %s (%.1fs)" % (exhaustive_done, time.time() - t0))
    for name, conf in quick_stateful() + (thorough_stateful() if thorough else []):
        n, complete = explore_dfs(batch, "all-states:" + name, conf, stateful=True, deadline=t0 + ctx.budget(62, 420))
        stateful_done[name] = dict(executions=n, complete=complete)
    ctx.log("state-exhaustive families: %s (%.1fs)" % (stateful_done, time.time() - t0))
    bfams = bounded_configs()[:ctx.budget(1, 5)]
    for i, (name, conf) in enumerate(bfams):
        # every family gets its share of what is left of the time box, so that the later ones are not starved
        now = time.time()
        share = now + max(t0 + ctx.budget(66, 640) - now, 0) / (len(bfams) - i)
        n, complete = explore_dfs(batch, "preemption<=%d:%s" % (ctx.budget(2, 3), name), conf, bound=ctx.budget(2, 3),
                                  max_runs=ctx.budget(3000, 28000), deadline=share)
        bounded[name] = dict(schedules=n, complete=complete, bound=ctx.budget(2, 3))
    ctx.log("preemption-bounded families: %s (%.1fs)" % (bounded, time.time() - t0))
    r = Rng(ctx.seed).fork("c12")
    for name, conf in C_EVERY_LINE:       # a nested send at every line of `_send`: seeded schedules in every tier
        for i in range(ctx.budget(40, 200)):
            run, res = run_one(conf, rng=r, stickiness=[0, 2, 6][i % 3])
            try:
                batch.add("random:" + name, conf, run, res)
            finally:
                run.close()
    n_rand = ctx.budget(2000, 40000)
    t_rand = time.time()
    done_rand = 0
    for i in range(n_rand):
        with_reent = i % 2 == 1
        with_fail = i % 5 == 3
        large = thorough and i % 3 == 0
        conf = random_config(r, with_reent, large=large, with_fail=with_fail)
        run, res = run_one(conf, rng=r, stickiness=[0, 0, 2, 6][i % 4])
        try:
            batch.add("random:%s%s%s" % ("reentrant" if with_reent else "plain", "+write-fails" if with_fail else "",
                                         "+large" if large else ""), conf, run, res)
        finally:
            run.close()
        done_rand += 1
        if time.time() - t0 > ctx.budget(74, 740):
            break
    batch.flush()
    ctx.log("random schedules: %d (%.1fs)" % (done_rand, time.time() - t_rand))
    c.extra["sendlock_type_installed_by_constructor"] = real_lock_is_reentrant()[1]
    c.extra["send_queue_type_installed_by_constructor"] = _QUEUE_TYPE[-1] if _QUEUE_TYPE else None
    try:
        c.extra["real_connection_close_race"] = close_race_probe()
    except Exception as ex:  # noqa - evidence only
        c.extra["real_connection_close_race"] = "probe failed: %s" % type(ex).__name__
    try:
        c.extra["real_connection_after_failed_write"] = failed_write_probe()
    except Exception as ex:  # noqa - evidence only
        c.extra["real_connection_after_failed_write"] = "probe failed: %s" % type(ex).__name__
    c.extra["exhaustive_families"] = exhaustive_done
    c.extra["state_exhaustive_families"] = stateful_done
    c.extra["preemption_bounded_families"] = bounded
    c.extra["random_schedules"] = done_rand
    c.extra["traces_validated_against_impl"] = c.evaluations
    c.exhaustive = all(v["complete"] for v in list(exhaustive_done.values()) + list(stateful_done.values()))
    return c


def failed_write_probe():
    """What the owner of a message stranded by a failed write observes on a REAL connection (real lock, real
    threads, events instead of the scheduler): thread A is inside the transport write when thread B issues a
    request (queued, B returns); A's write fails.  Evidence for the scope decision in Props/C12.lean; C11's
    subject, not checked here."""
    import threading
    _Connection, _Channel, _brine, consts = rpyc_parts()

    class Stream:
        MAX_IO_CHUNK = 64000

        def __init__(self):
            self.closed, self.entered, self.go, self.n = False, threading.Event(), threading.Event(), 0

        def write(self, data):
            self.n += 1
            if self.n == 1:
                self.entered.set()
                self.go.wait(10)
                self.closed = True          # as SocketStream/PipeStream do on a failed write
                raise EOFError("broken pipe")
            if self.closed:
                raise EOFError("stream has been closed")

        def poll(self, timeout):
            if self.closed:
                raise EOFError("stream has been closed")
            return False

        def read(self, n):
            raise EOFError("stream has been closed")

        def close(self):
            self.closed = True

    st = Stream()
    conn = make_connection(st)
    out = {}

    def sender_a():
        try:
            conn.async_request(consts.HANDLE_PING, "a")
            out["A"] = "returned"
        except Exception as ex:  # noqa
            out["A"] = type(ex).__name__

    ta = threading.Thread(target=sender_a, daemon=True)
    ta.start()
    st.entered.wait(10)
    res_b = conn.async_request(consts.HANDLE_PING, "b", timeout=5)
    queued_while_a_writes = len(conn._send_queue)
    st.go.set()
    ta.join(10)
    report = dict(sender_whose_write_failed=out.get("A"), queued_by_B_while_A_wrote=queued_while_a_writes,
                  left_queued_after_A_returned=len(conn._send_queue), lock_held_after_A_returned=conn._sendlock.locked(),
                  connection_closed_flag_after_failure=conn.closed, stream_closed_after_failure=st.closed)
    t0 = time.time()
    try:
        res_b.wait()
        report["B_wait"] = "returned"
    except Exception as ex:  # noqa
        report["B_wait"] = "raised %s" % type(ex).__name__
    report["B_wait_seconds"] = round(time.time() - t0, 2)
    report["connection_closed_flag_after_B_wait"] = conn.closed
    conn._closed = True
    return report


def close_race_probe():
    """`close()` racing a busy sender on a REAL connection (real lock, real threads): U is inside the transport
    write; T issues an async request and then close().  Evidence for the scope decision in ASSUMPTIONS."""
    import threading
    _Connection, _Channel, _brine, consts = rpyc_parts()

    class Stream:
        MAX_IO_CHUNK = 64000

        def __init__(self):
            self.closed, self.entered, self.go, self.n, self.accepted = False, threading.Event(), threading.Event(), 0, 0

        def write(self, data):
            self.n += 1
            if self.n == 1:
                self.entered.set()
                self.go.wait(10)
            if self.closed:
                raise EOFError("stream has been closed")
            self.accepted += 1

        def poll(self, timeout):
            if self.closed:
                raise EOFError("stream has been closed")
            return False

        def read(self, n):
            raise EOFError("stream has been closed")

        def close(self):
            self.closed = True

    st = Stream()
    conn = make_connection(st)
    out = {}

    def sender_u():
        try:
            conn._send(consts.MSG_REQUEST, 1000, "u")
            out["U"] = "returned"
        except Exception as ex:  # noqa
            out["U"] = "raised %s" % type(ex).__name__

    tu = threading.Thread(target=sender_u, daemon=True)
    tu.start()
    st.entered.wait(10)
    res = conn.async_request(consts.HANDLE_PING, "t", timeout=5)
    report = dict(queued_after_T_async_request=len(conn._send_queue))
    try:
        conn.close()
        report["T_close"] = "returned"
    except Exception as ex:  # noqa
        report["T_close"] = "raised %s" % type(ex).__name__
    report["queued_after_T_close"] = len(conn._send_queue)
    st.go.set()
    tu.join(10)
    report["busy_sender_U"] = out.get("U")
    try:
        res.wait()
        report["T_wait_for_its_async_request"] = "returned"
    except Exception as ex:  # noqa
        report["T_wait_for_its_async_request"] = "raised %s" % type(ex).__name__
    report["writes_accepted_by_the_stream"] = st.accepted
    report["left_queued_for_ever"] = len(conn._send_queue)
    return report


SIG_UNFRAMEABLE = "C12:unframeable-datum-drained-by-other-thread"


def known_probes(ctx):
    """The listed finding, reproduced on the real `_send` / `Channel.send` of the tree every run (real threads,
    real lock, events): thread U is inside the transport write; thread T queues a request that cannot be put on the
    wire and a small one and returns; when U drains T's first datum a NON-FATAL exception leaves Channel.send -
    injected by the stream (struct.error, as FRAME_HEADER.pack raises for a frame of 4 GiB or more; the real 4.2 GiB
    case is fixes/C12-unframeable-datum-strands-queue.demo.py --real) and the stream stays open."""
    import struct
    import threading
    _Connection, _Channel, brine, consts = rpyc_parts()
    marker = b"UNFRAMEABLE-DATUM"

    class Stream:
        MAX_IO_CHUNK = 64000

        def __init__(self):
            self.closed, self.entered, self.go, self.n, self.accepted = False, threading.Event(), threading.Event(), 0, 0

        def write(self, data):
            self.n += 1
            if self.n == 1:
                self.entered.set()
                self.go.wait(10)
            if marker in bytes(data):
                raise struct.error("'L' format requires 0 <= number <= 4294967295")    # the stream is NOT closed
            self.accepted += 1

        def close(self):
            self.closed = True

    try:
        st = Stream()
        conn = make_connection(st)
        out = {}

        def sender_u():
            try:
                conn._send(consts.MSG_REQUEST, 1, "u")
                out["U"] = "returned"
            except Exception as ex:  # noqa
                out["U"] = "raised %s" % type(ex).__name__

        tu = threading.Thread(target=sender_u, daemon=True)
        tu.start()
        st.entered.wait(10)
        for seq, payload in ((2, marker), (3, "third")):
            try:
                conn._send(consts.MSG_REQUEST, seq, payload)
                out["T%d" % seq] = "returned"
            except Exception as ex:  # noqa
                out["T%d" % seq] = "raised %s" % type(ex).__name__
        st.go.set()
        tu.join(10)
        left = []
        for d in list(conn._send_queue):
            try:
                left.append(brine.load(d)[1])
            except Exception:  # noqa
                left.append("?")
        lock_held = conn._sendlock.locked()
        conn._closed = True
        reproduces = (bool(left) and not st.closed and not lock_held and not tu.is_alive()
                      and out.get("T2") == "returned" and out.get("T3") == "returned")
        text = ("signature=%s a non-fatal exception out of Channel.send (struct.error: frame of 4 GiB or more) while the "
                "lock holder drains another thread's datum: holder U %s, issuer T %s / %s, request(s) %s left queued, "
                "stream closed=%s, lock held=%s, packets accepted=%d: %s"
                % (SIG_UNFRAMEABLE, out.get("U"), out.get("T2"), out.get("T3"), left, st.closed, lock_held, st.accepted,
                   "a message is stranded on a live connection with every sender returned" if reproduces
                   else "does not reproduce"))
    except Exception as ex:  # noqa
        reproduces, text = False, "signature=%s probe could not run: %s" % (SIG_UNFRAMEABLE, type(ex).__name__)
    return [(SIG_UNFRAMEABLE, reproduces, text)]


# ---------------------------------------------------------------------------------------------- direct oracle
def oracle(run, res):
    """None if the property holds on this schedule of the real code, else (description, signature).
    The statement, clause by clause; nothing more.  After an injected transport failure the message in the
    failed write and whatever is queued cannot be transmitted by anybody: that is not held against `_send`
    (Props/C12.lean `after_transport_failure`), everything else still is."""
    sc = run.sched
    if run.errors:
        lt, mid, name = run.errors[0]
        return "sender of message %s raised %s" % (mid, name), "sender-raised:" + name
    if sc.errors():
        t, ex = sorted(sc.errors().items())[0]
        return "thread %d raised %s" % (t, type(ex).__name__), "sender-raised:" + type(ex).__name__
    if res.deadlock:
        blocked = [t for t in sc.order if not sc.finished(t)]
        return ("deadlock: thread(s) %s have not returned and no thread can run (%s)"
                % (blocked, [sc.where(t)[:2] for t in blocked]), "deadlock")
    ids, trailing, problem = run.wire_packets()
    if problem:
        return problem, "wire-garbled"
    dup = [i for i in set(ids) if ids.count(i) > 1]
    if dup:
        return "message(s) %s transmitted more than once" % sorted(dup), "duplicate"
    for lt, prog in sorted(run.lt_prog.items()):
        mine = [i for i in ids if i in prog]
        if mine != [i for i in prog if i in mine]:
            return ("messages of sender %d left in the order %s but were issued in the order %s"
                    % (lt, mine, prog), "per-thread-order")
    for os_t, called in run.call_order.items():
        # a nested send that started before an enclosing call had appended its own datum (a collection during
        # `brine.dump`) is an independent issuer: the enclosing message has not been issued yet
        called = [i for i in called if i not in run.early]
        mine = [i for i in ids if i in called]
        if mine != [i for i in called if i in mine]:
            return ("messages of thread %d left in the order %s but were issued in the order %s"
                    % (os_t, mine, called), "per-thread-order")
    if res.truncated:
        return ("senders still running after %d steps (no configuration needs more than a few hundred)"
                % len(res.schedule), "livelock")
    if sc.all_finished() and run.dead:
        # what `after_transport_failure` states, on the real objects: the lock is not leaked; every appended message
        # is exactly one of transmitted / dropped by a failed write / still queued, in append order; the wire is
        # whole packets plus at most the one truncated packet the failure cut
        q = [run.ident(x) for x in run.conn._send_queue.items()]
        if run.conn._sendlock.locked():
            return "all senders returned after the transport failed but the send lock is still held", "lock-leaked"
        if ids + run.lost + q != run.append_order:
            return ("after the transport failed: transmitted %s + dropped by a failed write %s + still queued %s is not "
                    "the append order %s" % (ids, run.lost, q, run.append_order), "not-conserved-after-failure")
    if sc.all_finished() and not run.dead:
        q = [run.ident(x) for x in run.conn._send_queue.items()]
        if q:
            return "all senders returned but message(s) %s are still queued" % q, "stranded"
        issued = [i for called in run.call_order.values() for i in called]
        missing = sorted(set(issued) - set(ids), key=str)
        if missing or trailing:
            return ("all senders returned but message(s) %s are not on the wire as whole packets (%d stray bytes)"
                    % (missing, trailing), "lost")
    return None


def oracle_case(conf, schedule):
    run, res = run_one(conf, schedule=schedule)
    try:
        return oracle(run, res), list(res.schedule), list(run.actions)
    finally:
        run.close()


def oracle_search(ctx, corr, broken):
    deadline = time.time() + ctx.budget(60, 600)

    def report(conf, schedule, verdict, actions):
        msg, sig = verdict
        # shorten: drop the tail of the schedule as long as the same failure remains (the rest is completed
        # by always running the first enabled thread)
        best = list(schedule)
        lo = 0
        while lo < min(len(best), 80):
            trial = best[:lo]
            v, full, acts = oracle_case(conf, trial)
            if v and v[1] == sig:
                best, actions, msg = trial, acts, v[0]
                break
            lo += 1
        case = dict(kind="schedule", progs=conf["progs"], reent=conf["reent"], fail=conf.get("fail"),
                    dumpyield=conf.get("dumpyield", []), schedule=best)
        return case, "%s | actions: %s" % (msg, " ".join(actions)), sig

    known = getattr(ctx, "known_signatures", set())
    # 1. schedules the correspondence disagreed on
    for d in corr.disagreements[:300]:
        case = d["case"]
        conf = dict(progs=case["progs"], reent=case.get("reent", []), fail=case.get("fail"), dumpyield=case.get("dumpyield", []))
        v, schedule, actions = oracle_case(conf, case["schedule"])
        if v and v[1] not in known:
            return report(conf, schedule, v, actions)
    # 2. boundary corpus: every interleaving of the small configurations
    for name, conf in quick_exhaustive() + quick_stateful():
        for run, res in S.dfs(lambda: new_run(conf), access=access, max_steps=MAX_STEPS,
                              state_key=None if (name, conf) in quick_exhaustive() else state_key):
            try:
                v = oracle(run, res)
                schedule, actions = list(res.schedule), list(run.actions)
            finally:
                run.close()
            if v and v[1] not in known:
                return report(conf, schedule, v, actions)
            if time.time() > deadline:
                break
    # 3. fresh random schedules
    r = Rng(ctx.seed).fork("c12-search")
    i = 0
    while time.time() < deadline:
        conf = random_config(r, i % 2 == 1, with_fail=i % 5 == 3)
        run, res = run_one(conf, rng=r, stickiness=[0, 2, 6][i % 3])
        try:
            v = oracle(run, res)
            schedule, actions = list(res.schedule), list(run.actions)
        finally:
            run.close()
        if v and v[1] not in known:
            return report(conf, schedule, v, actions)
        i += 1
    return None


def replay(case):
    conf = dict(progs=case["progs"], reent=case.get("reent", []), fail=case.get("fail"), dumpyield=case.get("dumpyield", []))
    run, res = run_one(conf, schedule=case["schedule"])
    try:
        v = oracle(run, res)
        out = dict(case=case, schedule_run=list(res.schedule), actions=" ".join(run.actions),
                   implementation=run.facts(res), oracle=v[0] if v else "holds")
        try:
            out["model"] = run_driver([run.op_line()], exe="drv_sendq")[0]
        except DriverError as ex:
            out["model"] = "driver unavailable: %s" % ex
    finally:
        run.close()
    return out
