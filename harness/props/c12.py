"""C12 — concurrent senders never interleave, lose or strand a message.

Correspondence = trace acceptance.  The REAL `Connection._send` (and the real `Channel.send` under it) runs on
real threads under the line-level cooperative scheduler (harness/sched.py): every source line of `_send` that
mentions `self` is a scheduling point, and so is every stream write after the first of a packet.  The
connection's three shared objects are replaced by recording ones (instance attributes of a bare
`Connection`): the queue (a `list` subclass), the send lock (`sched.SchedLock`, mirroring the kind of lock the
constructor installs: one bit, no owner — blocking would be a scheduler state), and the stream under the
real `Channel`.  They log the shared actions the code actually performs — append,
queue truth test + result, try-lock + result, pop + what was popped, each stream write + which piece of
which packet, release, return, exception — whatever the source text looks like, so renamed locals, moved
comments or an equivalent test do not disturb the mapping.  A re-entrant send is a call of `conn._send`
from inside the stream's `write` on the same thread (a finalizer running during transmission).

Each explored schedule's action sequence is given to the compiled Lean model (`drv_sendq`) as a trace to
ACCEPT: the model thread must be able to take the same action with the same result at every step; the
final-state facts of both sides are compared as well (wire parsed by the real `Channel.recv`).
Exploration (what each line of `_send` may touch is read off its AST, nothing is hard-coded): path-exhaustive
depth-first enumeration with replay (all interleavings at source-line granularity up to the order of steps
on different shared objects), state-exhaustive enumeration for the larger configurations, preemption-bounded
enumeration for three threads, and seeded random schedules.

Direct oracle (real code only): the property restated on one schedule.
"""
import ast
import inspect
import textwrap
import time

import sched as S
from lineproto import run_driver, DriverError
from pipeline import Corr
from prng import Rng

ID = "C12"
LEAN_MODULE = "RpycModel.Props.C12"
NAMESPACE = "Rpyc.Props.C12"
GEN = []
DRIVERS = ["drv_sendq"]
TRUSTED = [
    "modelled, not verified: atomicity under the GIL of list.append, list.pop(0), truth-testing a list and "
    "Lock.acquire(False)/release() (each is one step of the model); threading.Lock = one bit without owner; "
    "the scheduler substitutes (harness/sched.py) for OS threads and the lock; Channel.send makes 1 or 3 "
    "stream writes and does not fail (transport failure is C11); finalizers run on the thread they interrupt",
]
ASSUMPTIONS = [
    "scheduling granularity is one source line of Connection._send, split further so that a step contains at "
    "most one shared action; preemption inside a single bytecode-level list/lock operation is excluded",
    "re-entrant sends are started from inside the transport write (before or after the bytes are handed over); "
    "the model allows them at any point",
    "stream writes succeed",
]
EXPLANATION = ("Theorems over ALL reachable states of a line-level model of Connection._send with any number of threads, "
               "messages and nested re-entrant sends (inductive invariant): mutual exclusion and only the holder writes; "
               "out ++ hand ++ queue = appended (nothing lost or duplicated, append order kept, per-thread order kept); "
               "every packet's pieces adjacent on the wire; all returned => queue empty, lock free, wire = every appended "
               "message once; no line ever blocks or raises and the innermost activation can always step (no deadlock).")

MAX_STEPS = 1500    # no configuration used here needs a tenth of this many steps
CHUNK = 64          # MAX_IO_CHUNK of the recording stream: frames above it take three writes
PAD_BIG = 80


# ---------------------------------------------------------------------------------------------- real objects
_PARTS = []


def rpyc_parts():
    if not _PARTS:
        from rpyc.core.protocol import Connection
        from rpyc.core.channel import Channel
        from rpyc.core import brine, consts
        _PARTS.append((Connection, Channel, brine, consts))
    return _PARTS[0]


class ScratchStream:
    MAX_IO_CHUNK = CHUNK
    closed = False

    def __init__(self):
        self.chunks = []

    def write(self, data):
        self.chunks.append(bytes(data))

    def close(self):
        pass


class ReplayStream:
    """feeds recorded wire bytes to the real Channel.recv"""
    MAX_IO_CHUNK = CHUNK
    closed = False

    def __init__(self, data):
        self.data = bytes(data)
        self.pos = 0

    def read(self, n):
        if self.pos + n > len(self.data):
            raise EOFError("short")
        out = self.data[self.pos:self.pos + n]
        self.pos += n
        return out

    def close(self):
        pass


class RecStream:
    """the stream under the real Channel of the connection under test"""
    MAX_IO_CHUNK = CHUNK
    closed = False

    def __init__(self, run):
        self.run = run

    def write(self, data):
        self.run.sched.before_action("_channel")
        self.run.on_write(bytes(data))

    def close(self):
        pass


class RecQueue(list):
    """`Connection._send_queue`: a list that reports its shared operations"""

    def bind(self, run):
        self.run = run
        return self

    def append(self, x):
        self.run.sched.before_action("_send_queue")
        list.append(self, x)
        self.run.log("a", self.run.ident(x))

    def __bool__(self):
        self.run.sched.before_action("_send_queue")
        r = list.__len__(self) > 0
        self.run.log("c", int(r))
        return r

    def __len__(self):
        self.run.sched.before_action("_send_queue")
        n = list.__len__(self)
        self.run.log("c", int(n > 0))
        return n

    def pop(self, *idx):
        self.run.sched.before_action("_send_queue")
        try:
            x = list.pop(self, *idx)
        except IndexError:
            self.run.log("P", "IndexError")
            raise
        self.run.log("p", self.run.ident(x))
        return x


_WIRE_FORM = {}


def wire_form(mid, big):
    """(payload, the datum `_send` queues, the chunks the real Channel.send writes for it) — cached per code"""
    _Connection, Channel, brine, consts = rpyc_parts()
    key = (mid, big, Channel.send.__code__, brine.dump.__code__)
    if key not in _WIRE_FORM:
        payload = bytes(PAD_BIG) if big else b""
        data = brine.dump((consts.MSG_REQUEST, mid, payload))
        st = ScratchStream()
        Channel(st).send(data)
        _WIRE_FORM[key] = (payload, data, st.chunks)
    return _WIRE_FORM[key]


_LOCK_KIND = {}


def real_lock_is_reentrant():
    """which kind of lock the connection's constructor installs as `_sendlock` (the substitute mirrors it)"""
    Connection, Channel, _brine, _consts = rpyc_parts()
    key = Connection.__init__.__code__
    if key not in _LOCK_KIND:
        import threading
        try:
            from rpyc.core.service import VoidService
            conn = Connection(VoidService(), Channel(ScratchStream()))
            lock = conn._sendlock
            conn._closed = True
            _LOCK_KIND[key] = (type(lock) is type(threading.RLock()), type(lock).__name__)
        except Exception as ex:  # noqa - cannot tell: assume the documented plain lock
            _LOCK_KIND[key] = (False, "unknown (%s)" % type(ex).__name__)
    return _LOCK_KIND[key]


class Run:
    """one execution of a configuration under the scheduler.
    progs: per OS thread, the list of (id, big) it sends; reent: list of (trigger id, piece, 'b'|'a', (id, big)):
    while piece k of message `trigger` is being written (before / after the bytes are handed over), the writing
    thread calls `_send` again with the given message."""

    def __init__(self, progs, reent=()):
        Connection, Channel, brine, consts = rpyc_parts()
        self.progs = [list(p) for p in progs]
        self.reent = list(reent)
        self.msg_kind = consts.MSG_REQUEST
        self.sched = S.Scheduler(targets=[Connection._send.__code__], skip=skip_line)
        self.actions = []                 # tokens, in the order the real code acted
        self.raw = bytearray()            # every byte handed to the stream
        self.n_os = len(self.progs)
        self.next_lt = self.n_os
        self.lstack = dict((t, [t]) for t in range(self.n_os))
        self.call_order = dict((t, []) for t in range(self.n_os))   # ids in the order each OS thread called _send
        self.lt_prog = dict((t, [m for m, _b in p]) for t, p in enumerate(self.progs))
        self.errors = []
        self.writes_since_pop = {}
        self.cur_id = {}
        self.fired = set()
        self.hand = None                  # [id, writes done] of the popped, not yet fully written message
        self.por_violations = 0
        # what each message looks like on the wire, learnt from the real Channel.send on a scratch stream
        self.payload, self.data_of, self.pieces, self.id_of_data = {}, {}, {}, {}
        allmsgs = [m for p in self.progs for m in p] + [m for (_t, _k, _w, m) in self.reent]
        for mid, big in allmsgs:
            self.payload[mid], self.data_of[mid], self.pieces[mid] = wire_form(mid, big)
            self.id_of_data[self.data_of[mid]] = mid
        self.big = dict((mid, len(self.pieces[mid]) == 3) for mid, _ in allmsgs)
        self.inexpressible = [mid for mid, _ in allmsgs if len(self.pieces[mid]) not in (1, 3)]
        conn = Connection.__new__(Connection)
        conn._closed = True               # so that __del__ / close() are no-ops
        conn._send_queue = RecQueue().bind(self)
        conn._sendlock = S.SchedLock(self.sched, on_event=self.on_lock, name="_sendlock",
                                     reentrant=real_lock_is_reentrant()[0])
        conn._channel = Channel(RecStream(self))
        self.conn = conn
        for t in range(self.n_os):
            self.sched.spawn(t, self.body, t)

    # -------------------------------------------------------------- thread side
    def lt(self):
        return self.lstack[self.sched.current()][-1]

    def log(self, kind, *detail):
        lt = self.lt()
        if kind in ("a", "p"):
            if kind == "p":
                self.writes_since_pop[lt] = 0
                self.cur_id[lt] = None
                self.hand = [detail[0], 0]
            tok = "%s%d:%s" % (kind, lt, detail[0])
        elif kind in ("c", "l"):
            tok = "%s%d:%d" % (kind, lt, detail[0])
        elif kind == "w":
            tok = "w%d:%s.%d" % (lt, detail[0], detail[1])
        elif kind in ("r", "x", "B"):
            tok = "%s%d" % (kind, lt)
        else:
            tok = "%s%d:%s" % (kind, lt, ":".join(str(d) for d in detail))
        self.actions.append(tok)

    def ident(self, data):
        return self.id_of_data.get(bytes(data), "?") if isinstance(data, (bytes, bytearray)) else "?"

    def on_lock(self, kind, result):
        if kind == "try":
            self.log("l", int(result))
        elif kind == "release":
            self.log("r" if result else "R", *(() if result else ("unlocked",)))
        elif kind == "block":
            self.log("B")
        else:
            self.log("L", int(bool(result)))

    def on_write(self, chunk):
        lt = self.lt()
        k = self.writes_since_pop.get(lt, 0)
        if k == 0:
            mid = next((m for m, ps in self.pieces.items() if ps[0] == chunk), "?")
            self.cur_id[lt] = mid
        else:
            mid = self.cur_id.get(lt)
            if mid in (None, "?") or k >= len(self.pieces[mid]) or self.pieces[mid][k] != chunk:
                mid = "?"
        self.nested(mid, k, "b")
        self.raw += chunk
        self.log("w", mid, k)
        self.writes_since_pop[lt] = k + 1
        if self.hand is not None:
            self.hand[1] += 1
            if self.hand[0] not in self.pieces or self.hand[1] >= len(self.pieces[self.hand[0]]):
                self.hand = None
        self.nested(mid, k, "a")

    def nested(self, mid, k, when):
        for i, (trig, piece, w, msg) in enumerate(self.reent):
            if trig == mid and piece == k and w == when and i not in self.fired:
                self.fired.add(i)
                os_t = self.sched.current()
                parent, child = self.lstack[os_t][-1], self.next_lt
                self.next_lt += 1
                self.lt_prog[child] = [msg[0]]
                self.actions.append("n%d:%d:%d%s" % (parent, child, msg[0], "b" if self.big[msg[0]] else "s"))
                self.lstack[os_t].append(child)
                try:
                    self.call_send(os_t, msg[0], swallow=True)
                finally:
                    self.lstack[os_t].pop()
                self.sched.yield_point("_channel")
                self.sched.touch("_channel")

    def call_send(self, os_t, mid, swallow=False):
        self.call_order[os_t].append(mid)
        try:
            self.conn._send(self.msg_kind, mid, self.payload[mid])
        except Exception as ex:  # noqa - the property says senders do not fail
            self.log("e", type(ex).__name__)
            self.errors.append((self.lt(), mid, type(ex).__name__))
            if not swallow:          # a finalizer's exception is swallowed by the interpreter
                raise
        else:
            self.log("x")

    def body(self, os_t):
        for mid, _big in self.progs[os_t]:
            self.call_send(os_t, mid)

    # -------------------------------------------------------------- driver side
    def op_line(self):
        progs = [",".join("%d%s" % (m, "b" if self.big[m] else "s") for m, _ in p) or "-" for p in self.progs]
        return "sendq trace %d %s | %s" % (self.n_os, " ".join(progs), " ".join(self.actions))

    def wire_packets(self):
        """(ids of the complete packets the real Channel.recv reads off the recorded bytes, trailing bytes,
        problem)"""
        _Connection, Channel, brine, _consts = rpyc_parts()
        rs = ReplayStream(self.raw)
        ch = Channel(rs)
        ids = []
        problem = None
        while rs.pos < len(rs.data):
            start = rs.pos
            try:
                data = ch.recv()
            except EOFError:
                rs.pos = start
                break
            except Exception as ex:  # noqa
                problem = "wire does not parse as packets at byte %d: %s" % (start, type(ex).__name__)
                rs.pos = start
                break
            try:
                msg, seq, args = brine.load(data)
            except Exception as ex:  # noqa
                problem = "packet at byte %d is not a message: %s" % (start, type(ex).__name__)
                break
            if seq not in self.data_of or data != self.data_of[seq]:
                problem = "packet at byte %d is not one of the messages sent (seq %r)" % (start, seq)
                break
            ids.append(seq)
        return ids, len(rs.data) - rs.pos, problem

    def facts(self, result):
        """the impl-side final-state line, from the real objects"""
        sc = self.sched
        done = sc.all_finished() and not sc.errors()
        q = [self.ident(x) for x in list.__iter__(self.conn._send_queue)]
        ids, _trailing, _problem = self.wire_packets()
        hand = "-" if self.hand is None else "%s.%d" % (self.hand[0], self.hand[1])
        order = True
        for lt, prog in self.lt_prog.items():
            mine = [i for i in ids if i in prog]
            if self.hand is not None and self.hand[0] in prog:
                mine.append(self.hand[0])
            mine += [i for i in q if i in prog]
            if mine != prog[:len(mine)]:
                order = False
        show = lambda l: ",".join(str(i) for i in l) or "-"
        return "accept%s stuck=%s done=%s q=%s lock=%s hand=%s wire=%s order=%s threads=%d" % (
            " step-limit" if result.truncated else "", "T" if result.deadlock else "F", "T" if done else "F", show(q),
            "T" if self.conn._sendlock.locked() else "F", hand, show(ids), "T" if order else "F", self.next_lt)

    def close(self):
        self.sched.close()


# ---------------------------------------------------------------------------------------------- local lines
_LINES_CACHE = {}


def line_access():
    """{absolute line number of `Connection._send`: access set of that line}, by AST, nothing hard-coded.
    A line that does not mention `self` touches nothing shared (empty set): it commutes with every step of
    every other thread and is not a scheduling point.  `self.<attr>` used only as a truth value (`while`/`if`
    test, `not`, `len()`) reads the shared object <attr>; any other use may write it.  A bare `self`, or
    anything we do not understand, is `None` (dependent on everything)."""
    Connection = rpyc_parts()[0]
    code = Connection._send.__code__
    if code in _LINES_CACHE:
        return _LINES_CACHE[code]
    lines, first = inspect.getsourcelines(Connection._send)
    tree = ast.parse(textwrap.dedent("".join(lines)))
    fn = tree.body[0]
    self_name = fn.args.args[0].arg if fn.args.args else "self"
    parent = {}
    for node in ast.walk(fn):
        for ch in ast.iter_child_nodes(node):
            parent[ch] = node
    acc = dict((ln, frozenset()) for ln in range(first, first + len(lines)))

    def add(node, item):
        for ln in range(node.lineno, (getattr(node, "end_lineno", None) or node.lineno) + 1):
            a = acc.get(ln + first - 1, frozenset())
            acc[ln + first - 1] = None if (item is None or a is None) else a | frozenset([item])

    def is_read(attr):
        p = parent.get(attr)
        while isinstance(p, ast.UnaryOp) and isinstance(p.op, ast.Not):
            attr, p = p, parent.get(p)
        if isinstance(p, (ast.While, ast.If, ast.IfExp)) and p.test is attr:
            return True
        if isinstance(p, ast.BoolOp):
            return True
        if isinstance(p, ast.Call) and isinstance(p.func, ast.Name) and p.func.id in ("len", "bool") and attr in p.args:
            return True
        return False

    for node in ast.walk(fn):
        if isinstance(node, ast.Name) and node.id == self_name:
            p = parent.get(node)
            if isinstance(p, ast.Attribute) and p.value is node:
                add(p, (p.attr, "r" if is_read(p) else "w"))
            else:
                add(node, None)
        elif isinstance(node, (ast.Global, ast.Nonlocal, ast.With, ast.AsyncWith, ast.Yield, ast.YieldFrom, ast.Await)):
            add(node, None)
    _LINES_CACHE[code] = acc
    return acc


def state_key(run):
    """the complete state of one execution, for the stateful search: every thread's Python stack (code,
    bytecode offset, plain locals), the shared objects, and the harness's own bookkeeping"""
    sc = run.sched
    lock = run.conn._sendlock
    return (tuple(sc.signature(t) for t in sc.order),
            tuple(run.ident(x) for x in list.__iter__(run.conn._send_queue)),
            (lock.held, lock.owner, lock.count),
            run.next_lt, tuple(sorted(run.fired)), tuple(len(run.call_order[t]) for t in range(run.n_os)),
            tuple(tuple(run.lstack[t]) for t in range(run.n_os)),
            tuple(sorted(run.writes_since_pop.items())), tuple(sorted((k, str(v)) for k, v in run.cur_id.items())),
            None if run.hand is None else (str(run.hand[0]), run.hand[1]), len(run.errors))


def skip_line(code, lineno):
    a = line_access().get(lineno, None)
    return a is not None and len(a) == 0


def access(run, tid):
    """what the next step of parked thread `tid` may touch (see sched.dfs)"""
    st = run.sched.where(tid)
    if st[0] == "start":
        return frozenset()
    if st[0] == "line":
        return line_access().get(st[2], None) if st[1] == "_send" else None
    if st[0] in ("yield", "blocked"):
        return frozenset([(st[1].split(".")[0], "w")])
    return None


# ---------------------------------------------------------------------------------------------- configurations
def cfg(progs, reent=()):
    return dict(progs=[[list(m) for m in p] for p in progs], reent=[[t, k, w, list(m)] for (t, k, w, m) in reent])


def new_run(c):
    return Run([[tuple(m) for m in p] for p in c["progs"]], [(t, k, w, tuple(m)) for (t, k, w, m) in c["reent"]])


C_2x1 = cfg([[(1, False)], [(2, False)]])
C_2x1_BIG = cfg([[(1, True)], [(2, False)]])
C_2x12 = cfg([[(1, False)], [(2, False), (3, False)]])
C_2x1_RB = cfg([[(1, False)], [(2, False)]], [(1, 0, "b", (9, False))])
C_2x1_RA = cfg([[(1, False)], [(2, False)]], [(2, 0, "a", (9, False))])
C_1x1_NESTED = cfg([[(1, True)]], [(1, 1, "b", (9, False)), (9, 0, "a", (8, False))])
C_2x2 = cfg([[(1, False), (2, False)], [(3, False), (4, False)]])
C_2x2_BIG = cfg([[(1, True), (2, False)], [(3, False), (4, True)]])
C_2x12_R = cfg([[(1, False)], [(2, True), (3, False)]], [(2, 1, "b", (9, False))])
C_2x3 = cfg([[(1, False), (2, False), (3, False)], [(4, False), (5, False), (6, False)]])
C_3x1 = cfg([[(1, False)], [(2, False)], [(3, False)]])
C_3x121 = cfg([[(1, False)], [(2, False), (3, True)], [(4, False)]])
C_3x222_R = cfg([[(1, False), (2, False)], [(3, True), (4, False)], [(5, False), (6, False)]], [(3, 0, "a", (9, False))])


def quick_exhaustive():
    """explored path by path: EVERY interleaving (up to the order of independent steps)"""
    return [("2x1", C_2x1), ("2x1-big", C_2x1_BIG), ("2x(1,2)", C_2x12),
            ("2x1+reentrant-before-write", C_2x1_RB), ("1x1-big+reentrant-mid-packet-twice", C_1x1_NESTED)]


def thorough_exhaustive():
    return [("2x1+reentrant-after-write", C_2x1_RA)]


def quick_stateful():
    """explored state by state: every reachable state expanded once, every transition executed"""
    return [("2x1+reentrant-after-write", C_2x1_RA), ("2x2", C_2x2), ("2x(1,2)-big+reentrant-mid-packet", C_2x12_R)]


def thorough_stateful():
    return [("2x2-big", C_2x2_BIG), ("2x3", C_2x3), ("3x1", C_3x1), ("3x(1,2,1)", C_3x121)]


def bounded_configs():
    return [("3x1", C_3x1), ("3x(1,2,1)", C_3x121), ("3x(2,2,2)+reentrant", C_3x222_R)]


def random_config(r, with_reent):
    nthreads = 3 if r.chance(3, 4) else 2
    progs, mid = [], 1
    for _ in range(nthreads):
        p = []
        for _ in range(r.range(1, 3)):
            p.append((mid, r.chance(1, 4)))
            mid += 1
        progs.append(p)
    reent = []
    if with_reent:
        for j in range(r.range(1, 2)):
            trig = r.range(1, mid - 1)
            big = [b for p in progs for (m, b) in p if m == trig][0]
            k = r.below(3) if big else 0
            reent.append((trig, k, r.choice(["b", "a"]), (90 + j, r.chance(1, 5))))
        if r.chance(1, 4):      # a nested send inside the transmission of a nested send's message
            reent.append((90, 0, r.choice(["b", "a"]), (95, False)))
    return cfg(progs, reent)


# ---------------------------------------------------------------------------------------------- exploring
class Batch:
    """collects explored schedules and pipes them through the model in chunks"""

    def __init__(self, c, ctx):
        self.c = c
        self.ctx = ctx
        self.pending = []

    def add(self, family, conf, run, res):
        if run.inexpressible:
            self.c.error = "Channel.send made %d writes for one packet; the model knows 1 or 3" % len(
                run.pieces[run.inexpressible[0]])
        line = run.op_line()
        want = run.facts(res)
        case = dict(kind="schedule", progs=conf["progs"], reent=conf["reent"], schedule=list(res.schedule))
        if res.pruned:
            case["prefix"] = True         # the exploration cut this execution short: a real prefix
        self.pending.append((family, case, line, want, list(run.actions)))
        if len(self.pending) >= 4000:
            self.flush()

    def flush(self):
        if not self.pending:
            return
        c = self.c
        try:
            outs = run_driver([p[2] for p in self.pending], exe="drv_sendq")
        except DriverError as ex:
            c.error = str(ex)
            self.pending = []
            return
        for (family, case, line, want, actions), got in zip(self.pending, outs):
            c.evaluations += 1
            c.count("family:" + family)
            if case.get("prefix"):
                c.count("executions-cut-as-prefix")
            c.count("steps", len(case["schedule"]))
            kinds = set(a[0] for a in actions)
            sw = sum(1 for a, b in zip(actions, actions[1:]) if thread_of(a) != thread_of(b))
            nthreads = len(set(thread_of(a) for a in actions))
            for k in kinds:
                c.count("trace-has:" + KIND_NAME.get(k, k))
            if any(a[0] == "l" and a.endswith(":0") for a in actions):
                c.count("trace-has:failed-try-lock")
            if any(a[0] == "c" and a.endswith(":0") for a in actions):
                c.count("trace-has:empty-queue-test")
            c.count("impl:" + " ".join(w for w in want.split(" ") if w.split("=")[0] in ("accept", "stuck", "done", "order")))
            c.count("model:" + got.split(" ")[0])
            if sw > nthreads - 1:          # more thread switches than a serial execution has
                c.signatures.add(" ".join(actions))
            if got != want:
                c.disagreements.append(dict(case=case, op=line[:1500], impl=want, model=got[:400]))
            elif len(c.samples) < 10 and (c.evaluations % 397 == 1 or (case["reent"] and c.evaluations % 97 == 3)):
                c.samples.append(dict(family=family, progs=case["progs"], reent=case["reent"],
                                      schedule="".join(str(t) for t in case["schedule"]),
                                      trace=" ".join(actions), outcome=want))
        self.pending = []


KIND_NAME = dict(a="append", c="queue-test", l="try-lock", p="pop", w="stream-write", r="release", x="return",
                 n="nested-send", e="exception", B="blocking-acquire", L="blocking-acquire-granted",
                 R="release-unlocked", P="pop-failed")


def thread_of(tok):
    i = 1
    while i < len(tok) and tok[i].isdigit():
        i += 1
    return tok[1:i]


def explore_dfs(batch, family, conf, bound=None, max_runs=None, deadline=None, stateful=False):
    """returns (number of schedules, completed?)"""
    n = 0
    complete = True
    gen = S.dfs(lambda: new_run(conf), access=access, preemption_bound=bound, max_runs=max_runs, max_steps=MAX_STEPS,
                state_key=state_key if stateful else None)
    for run, res in gen:
        try:
            batch.add(family, conf, run, res)
        finally:
            run.close()
        n += 1
        if deadline is not None and time.time() > deadline:
            complete = False
            gen.close()
            break
    if max_runs is not None and n >= max_runs:
        complete = False
    return n, complete


def run_one(conf, schedule=None, rng=None, stickiness=0):
    run = new_run(conf)
    try:
        if schedule is not None:
            res = S.run_fixed(run.sched, schedule, max_steps=MAX_STEPS)
        else:
            res = S.run_random(run.sched, rng, stickiness, max_steps=MAX_STEPS)
    except BaseException:
        run.close()
        raise
    return run, res


def check_por(n=40):
    """every step touches only the shared objects the reduction was told it may touch (random runs incl. a
    three-write packet and nested sends); returns the number of steps that touched something undeclared"""
    bad = []
    r = Rng(7)
    for i in range(n):
        conf = cfg([[(1, True), (3, False)], [(2, False)]], [(1, i % 3, "ba"[i % 2], (9, False)), (9, 0, "a", (8, False))])
        run = new_run(conf)
        declared = {}

        def choose(en, run=run, declared=declared):
            last = run.sched.last
            if last is not None and last[0] in declared:
                d = declared.pop(last[0])
                objs = None if d is None else set(o for o, _m in d)
                if objs is not None and not set(l.split(".")[0] for l in last[2]) <= objs:
                    bad.append((run.sched.where(last[0]), last[2], sorted(objs)))
            t = en[r.below(len(en))]
            declared[t] = access(run, t)
            return t
        try:
            run.sched.run(choose, max_steps=MAX_STEPS)
        finally:
            run.close()
    return bad


def correspondence(ctx):
    c = Corr()
    c.rule = ("Schedules of the real Connection._send on real threads under the line-level scheduler; each schedule's "
              "logged shared actions are a trace the Lean model must accept step by step with equal results, and the "
              "final facts (stuck, all returned, queue, lock, hand, packets the real Channel.recv reads off the wire, "
              "per-thread order) must agree. Families: (a) path-exhaustive DFS with replay over ALL interleavings at "
              "source-line granularity (lines not mentioning `self` are not branched on; of executions differing only "
              "in the order of steps on different shared objects one is completed, the others are cut as prefixes) of "
              "2 threads x 1 / (1,2) messages incl. a 3-write packet and re-entrant sends before a write and nested "
              "twice mid-packet; (b) state-exhaustive DFS (every reachable real state - thread stacks with bytecode "
              "offsets and locals, queue, lock, harness bookkeeping - expanded once, every transition executed) for "
              "2x2, 2x3, 3x1, 3x(1,2,1) and re-entrant variants; (c) preemption-bounded DFS for 3 threads; (d) seeded "
              "random schedules of 2-3 threads x 1-3 messages with and without re-entrant sends, uniform and sticky. "
              "distinct = distinct action sequence; non-trivial = more thread switches in the action sequence than a "
              "serial execution has.")
    t0 = time.time()
    bad = check_por()
    if bad:
        c.error = "partial-order reduction unsound here: %d step(s) touched a shared object the AST analysis did not declare, e.g. %r" % (len(bad), bad[0])
        return c
    c.extra["line_access_of__send"] = dict((str(k), sorted(map(list, v)) if v is not None else None)
                                           for k, v in sorted(line_access().items()) if v is None or v)
    batch = Batch(c, ctx)
    thorough = ctx.tier == "thorough"
    exhaustive_done, stateful_done, bounded = {}, {}, {}
    for name, conf in quick_exhaustive() + (thorough_exhaustive() if thorough else []):
        n, complete = explore_dfs(batch, "exhaustive:" + name, conf, deadline=t0 + ctx.budget(40, 120))
        exhaustive_done[name] = dict(schedules=n, complete=complete)
    ctx.log("path-exhaustive families: %s (%.1fs)" % (exhaustive_done, time.time() - t0))
    for name, conf in quick_stateful() + (thorough_stateful() if thorough else []):
        n, complete = explore_dfs(batch, "all-states:" + name, conf, stateful=True, deadline=t0 + ctx.budget(55, 420))
        stateful_done[name] = dict(executions=n, complete=complete)
    ctx.log("state-exhaustive families: %s (%.1fs)" % (stateful_done, time.time() - t0))
    for name, conf in bounded_configs()[:ctx.budget(1, 3)]:
        n, complete = explore_dfs(batch, "preemption<=%d:%s" % (ctx.budget(2, 3), name), conf, bound=ctx.budget(2, 3),
                                  max_runs=ctx.budget(3000, 60000), deadline=t0 + ctx.budget(60, 640))
        bounded[name] = dict(schedules=n, complete=complete, bound=ctx.budget(2, 3))
    ctx.log("preemption-bounded families: %s (%.1fs)" % (bounded, time.time() - t0))
    r = Rng(ctx.seed).fork("c12")
    n_rand = ctx.budget(2000, 40000)
    t_rand = time.time()
    done_rand = 0
    for i in range(n_rand):
        with_reent = i % 2 == 1
        conf = random_config(r, with_reent)
        run, res = run_one(conf, rng=r, stickiness=[0, 0, 2, 6][i % 4])
        try:
            batch.add("random:%s" % ("reentrant" if with_reent else "plain"), conf, run, res)
        finally:
            run.close()
        done_rand += 1
        if time.time() - t0 > ctx.budget(72, 740):
            break
    batch.flush()
    ctx.log("random schedules: %d (%.1fs)" % (done_rand, time.time() - t_rand))
    c.extra["sendlock_type_installed_by_constructor"] = real_lock_is_reentrant()[1]
    c.extra["exhaustive_families"] = exhaustive_done
    c.extra["state_exhaustive_families"] = stateful_done
    c.extra["preemption_bounded_families"] = bounded
    c.extra["random_schedules"] = done_rand
    c.extra["traces_validated_against_impl"] = c.evaluations
    c.exhaustive = all(v["complete"] for v in list(exhaustive_done.values()) + list(stateful_done.values()))
    return c


# ---------------------------------------------------------------------------------------------- direct oracle
def oracle(run, res):
    """None if the property holds on this schedule of the real code, else (description, signature)"""
    sc = run.sched
    if run.errors:
        lt, mid, name = run.errors[0]
        return "sender of message %d raised %s" % (mid, name), "sender-raised:" + name
    if sc.errors():
        t, ex = sorted(sc.errors().items())[0]
        return "thread %d raised %s" % (t, type(ex).__name__), "sender-raised:" + type(ex).__name__
    if res.deadlock:
        blocked = [t for t in sc.order if not sc.finished(t)]
        return ("deadlock: thread(s) %s have not returned and no thread can run (%s)"
                % (blocked, [sc.where(t)[:2] for t in blocked]), "deadlock")
    ids, trailing, problem = run.wire_packets()
    if problem:
        return problem, "wire-garbled"
    dup = [i for i in set(ids) if ids.count(i) > 1]
    if dup:
        return "message(s) %s transmitted more than once" % sorted(dup), "duplicate"
    for os_t, called in run.call_order.items():
        mine = [i for i in ids if i in called]
        if mine != [i for i in called if i in mine]:
            return ("messages of thread %d left in the order %s but were issued in the order %s"
                    % (os_t, mine, called), "per-thread-order")
    if res.truncated:
        return ("senders still running after %d steps (no configuration needs more than a few hundred)"
                % len(res.schedule), "livelock")
    if sc.all_finished():
        q = [run.ident(x) for x in list.__iter__(run.conn._send_queue)]
        if q:
            return "all senders returned but message(s) %s are still queued" % q, "stranded"
        issued = [i for called in run.call_order.values() for i in called]
        missing = sorted(set(issued) - set(ids))
        if missing or trailing:
            return ("all senders returned but message(s) %s are not on the wire as whole packets (%d stray bytes)"
                    % (missing, trailing), "lost")
    return None


def oracle_case(conf, schedule):
    run, res = run_one(conf, schedule=schedule)
    try:
        return oracle(run, res), list(res.schedule), list(run.actions)
    finally:
        run.close()


def oracle_search(ctx, corr, broken):
    deadline = time.time() + ctx.budget(60, 600)

    def report(conf, schedule, verdict, actions):
        msg, sig = verdict
        # shorten: drop the tail of the schedule as long as the same failure remains (the rest is completed
        # by always running the first enabled thread)
        best = list(schedule)
        lo = 0
        while lo < min(len(best), 80):
            trial = best[:lo]
            v, full, acts = oracle_case(conf, trial)
            if v and v[1] == sig:
                best, actions, msg = trial, acts, v[0]
                break
            lo += 1
        case = dict(kind="schedule", progs=conf["progs"], reent=conf["reent"], schedule=best)
        return case, "%s | actions: %s" % (msg, " ".join(actions)), sig

    known = getattr(ctx, "known_signatures", set())
    # 1. schedules the correspondence disagreed on
    for d in corr.disagreements[:300]:
        case = d["case"]
        conf = dict(progs=case["progs"], reent=case["reent"])
        v, schedule, actions = oracle_case(conf, case["schedule"])
        if v and v[1] not in known:
            return report(conf, schedule, v, actions)
    # 2. boundary corpus: every interleaving of the small configurations
    for name, conf in quick_exhaustive():
        for run, res in S.dfs(lambda: new_run(conf), access=access, max_steps=MAX_STEPS):
            try:
                v = oracle(run, res)
                schedule, actions = list(res.schedule), list(run.actions)
            finally:
                run.close()
            if v and v[1] not in known:
                return report(conf, schedule, v, actions)
            if time.time() > deadline:
                break
    # 3. fresh random schedules
    r = Rng(ctx.seed).fork("c12-search")
    i = 0
    while time.time() < deadline:
        conf = random_config(r, i % 2 == 1)
        run, res = run_one(conf, rng=r, stickiness=[0, 2, 6][i % 3])
        try:
            v = oracle(run, res)
            schedule, actions = list(res.schedule), list(run.actions)
        finally:
            run.close()
        if v and v[1] not in known:
            return report(conf, schedule, v, actions)
        i += 1
    return None


def replay(case):
    conf = dict(progs=case["progs"], reent=case["reent"])
    run, res = run_one(conf, schedule=case["schedule"])
    try:
        v = oracle(run, res)
        out = dict(case=case, schedule_run=list(res.schedule), actions=" ".join(run.actions),
                   implementation=run.facts(res), oracle=v[0] if v else "holds")
        try:
            out["model"] = run_driver([run.op_line()], exe="drv_sendq")[0]
        except DriverError as ex:
            out["model"] = "driver unavailable: %s" % ex
    finally:
        run.close()
    return out
